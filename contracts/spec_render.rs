// ---------------------------------------------------------------------------------------------
// The markup of an event (shared by the writer contract, C08/C09/C19, and by the read-back lemmas).
// ---------------------------------------------------------------------------------------------
spec fn payload<'a>(e: Event<'a>) -> Seq<u8> {
    match e {
        Event::Start(x) => x.buf@, Event::End(x) => x.name@, Event::Empty(x) => x.buf@, Event::Text(x) => x.content@,
        Event::CData(x) => x.content@, Event::Comment(x) => x.content@, Event::Decl(x) => x.content.buf@, Event::PI(x) => x.content.buf@,
        Event::DocType(x) => x.content@, Event::Eof => Seq::empty(),
    }
}
/// the markup of an event: XML delimiters around the payload exactly as the event exposes it
spec fn render<'a>(e: Event<'a>) -> Seq<u8> {
    match e {
        Event::Start(_) => seq![0x3cu8] + payload(e) + seq![0x3eu8],
        Event::End(_) => seq![0x3cu8, 0x2fu8] + payload(e) + seq![0x3eu8],
        Event::Empty(_) => seq![0x3cu8] + payload(e) + seq![0x2fu8, 0x3eu8],
        Event::Text(_) => payload(e),
        Event::Comment(_) => seq![0x3cu8, 0x21u8, 0x2du8, 0x2du8] + payload(e) + seq![0x2du8, 0x2du8, 0x3eu8],
        Event::CData(_) => seq![0x3cu8, 0x21, 0x5b, 0x43, 0x44, 0x41, 0x54, 0x41, 0x5b] + payload(e) + seq![0x5du8, 0x5d, 0x3e],
        Event::Decl(_) => seq![0x3cu8, 0x3f] + payload(e) + seq![0x3fu8, 0x3e],
        Event::PI(_) => seq![0x3cu8, 0x3f] + payload(e) + seq![0x3fu8, 0x3e],
        Event::DocType(_) => seq![0x3cu8, 0x21, 0x44, 0x4f, 0x43, 0x54, 0x59, 0x50, 0x45, 0x20] + payload(e) + seq![0x3eu8],
        Event::Eof => Seq::empty(),
    }
}
spec fn is_markup<'a>(e: Event<'a>) -> bool { !(e is Text || e is CData || e is Eof) }
