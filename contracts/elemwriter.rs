// ---------------------------------------------------------------------------------------------
// U-elemw (C09, C19): the element builder of the writer (src/writer.rs, `Writer::create_element` / ElementWriter).
// What it writes is what `write_event` writes for the events it assembles: Start + content + End with the SAME name, or
// Empty; attributes are appended to the start tag with `push_attribute` (space + key="value") or, when a line break inside
// the tag was asked for, with "\n" + indent in front of key="value" -- whitespace between attributes only.
// ---------------------------------------------------------------------------------------------
pub mod elemw_ {
use super::*;
use vstd::prelude::*;
use crate::writer_::*;
use crate::writer_async_::*;
use crate::build_::*;
use crate::escfn_::cow_str_bytes;

impl<'a> QName<'a> {
//@extract name::QName::into_inner#elemw | src/name.rs :: impl<'a> QName<'a> :: fn into_inner | serves=C09
 pub fn into_inner(self) -> (r: &'a [u8])
        ensures r@ == self.0@
 {
        self.0
    }
//@end
}
impl<'a> vstd::std_specs::convert::FromSpecImpl<QName<'a>> for BytesEnd<'a> {
    open spec fn obeys_from_spec() -> bool { false }
    open spec fn from_spec(n: QName<'a>) -> Self { arbitrary() }
}
impl<'a> From<QName<'a>> for BytesEnd<'a> {
//@extract events::BytesEnd::from_qname | src/events/mod.rs :: impl<'a> From<QName<'a>> for BytesEnd<'a> :: fn from | serves=C09
    fn from(name: QName<'a>) -> (r: Self)
        ensures r.name@ == name.0@
    {
        Self::wrap(name.into_inner().into())
    }
//@end
}
impl<'a> BytesStart<'a> {
//@extract events::BytesStart::borrow | src/events/mod.rs :: impl<'a> BytesStart<'a> :: fn borrow | serves=C09
 pub fn borrow(&self) -> (r: BytesStart)
        ensures r.buf@ == self.buf@, r.name_len == self.name_len
 {
        proof { axiom_cow_bytes(&self.buf); }
        BytesStart {
            buf: Cow::Borrowed(&self.buf),
            name_len: self.name_len,
        }
    }
//@end
//@extract events::BytesStart::to_end | src/events/mod.rs :: impl<'a> BytesStart<'a> :: fn to_end | serves=C09
 pub fn to_end(&self) -> (r: BytesEnd)
        requires self.name_len <= self.buf@.len()
        // the paired close tag carries the SAME name
        ensures r.name@ == self.buf@.subrange(0, self.name_len as int)
 {
        BytesEnd::from(self.name())
    }
//@end
//@extract events::BytesStart::push_newline | src/events/mod.rs :: impl<'a> BytesStart<'a> :: fn push_newline | serves=C09
 pub(crate) fn push_newline(&mut self)
        ensures final(self).buf@ == old(self).buf@.push(0x0au8), final(self).name_len == old(self).name_len
 {
        proof { axiom_cow_mut_bytes(); }
        self.buf.to_mut().push(b'\n');
    }
//@end
//@extract events::BytesStart::push_indent | src/events/mod.rs :: impl<'a> BytesStart<'a> :: fn push_indent | serves=C09
 pub(crate) fn push_indent(&mut self, indent: &[u8])
        ensures final(self).buf@ == old(self).buf@ + indent@, final(self).name_len == old(self).name_len
 {
        proof { axiom_cow_mut_bytes(); }
        self.buf.to_mut().extend_from_slice(indent);
    }
//@end
}
//@extract writer::AttributeIndent | src/writer.rs :: enum AttributeIndent | serves=C09
#[derive(Clone, Copy)]
pub enum AttributeIndent {
    /// Initial state. `ElementWriter` was just created and no attributes written yet
    NoneAttributesWritten,
    /// Write specified count of spaces to indent before writing attribute in `with_attribute()`
    WriteSpaces(usize),
    /// Keep space indent that should be used if `new_line()` would be called
    Spaces(usize),
    /// Write specified count of indent characters before writing attribute in `with_attribute()`
    WriteConfigured(usize),
    /// Keep indent that should be used if `new_line()` would be called
    Configured(usize),
}
//@end
//@extract writer::ElementWriter | src/writer.rs :: struct ElementWriter | serves=C09
 pub struct ElementWriter<'a, W> {
    pub writer: &'a mut Writer<W>,
    pub start_tag: BytesStart<'a>,
    pub state: AttributeIndent,
    /// Contains spaces used to write space indents of attributes
    pub spaces: Vec<u8>,
}
//@end
/// "\n" + indent at level `lvl`, if the writer indents and its flag is set
pub open spec fn ind_pre(ind: Option<Indentation>, lvl: int) -> Seq<u8> {
    match ind { Some(i) => if i.should_line_break { nl_indent(i.indent_char, lvl as nat) } else { Seq::empty() }, None => Seq::empty() }
}
/// the indentation state after a whole element has been written: back at the level of its start tag, the flag set
pub open spec fn ind_after(i0: Option<Indentation>, i1: Option<Indentation>) -> bool {
    match (i0, i1) {
        (None, None) => true,
        (Some(a), Some(b)) => b.inv() && b.indent_char == a.indent_char && b.indent_size == a.indent_size
            && b.current_indent_len == a.current_indent_len && b.should_line_break,
        _ => false,
    }
}
pub open spec fn lvl_of(ind: Option<Indentation>) -> int { match ind { Some(i) => i.current_indent_len as int, None => 0 } }
pub open spec fn step_of(ind: Option<Indentation>) -> int { match ind { Some(i) => i.indent_size as int, None => 0 } }
/// "\n" + indent at level `lvl` whenever the writer indents (inside an element the flag is set by the Start tag)
pub open spec fn ind_nl(ind: Option<Indentation>, lvl: int) -> Seq<u8> {
    match ind { Some(i) => nl_indent(i.indent_char, lvl as nat), None => Seq::empty() }
}
/// std (documentation of `Vec::resize`): the length becomes `new_len`; kept elements stay, new slots hold `value` (assumed: vstd states
/// this through `cloned`, which it does not resolve for u8)
#[verifier::external_body]
pub fn vec_resize_u8(v: &mut Vec<u8>, new_len: usize, value: u8)
    ensures final(v)@.len() == new_len,
        forall|k: int| 0 <= k < new_len ==> final(v)@[k] == (if k < old(v)@.len() { old(v)@[k] } else { value }),
{ v.resize(new_len, value) }
/// std: the reflexive conversion `impl<T> From<T> for T` (and hence `Into<T> for T`) is the identity
pub axiom fn lemma_into_identity<T>()
    ensures forall|x: T, y: T| #[trigger] call_ensures(<T as Into<T>>::into, (x,), y) ==> y == x,
        forall|x: T| #[trigger] call_requires(<T as Into<T>>::into, (x,));
/// the LAST step that led to the writer `w` was the End tag of `tag` (the same name)
pub open spec fn end_written<W: Write>(tag: BytesStart, w: Writer<W>) -> bool {
    exists|en: BytesEnd, w2: Writer<W>| en.name@ == tag.buf@.subrange(0, tag.name_len as int) && #[trigger] wrote(w2, Event::End(en), w)
}
/// key="value" as push_attr writes it
pub open spec fn kv(a: Attribute) -> Seq<u8> { a.key.0@ + seq![0x3du8, 0x22] + a.value@ + seq![0x22u8] }
/// what separates an attribute from what precedes it in the tag: ONE space, or -- after `new_line()` has put a line break into the
/// tag -- the planned indent: `n` spaces, or the writer's current indentation plus `n` of its indent characters
pub open spec fn attr_sep(st: AttributeIndent, ind: Option<Indentation>, sep: Seq<u8>) -> bool {
    match (ind, st) {
        (Some(i), AttributeIndent::WriteSpaces(n)) => sep.len() == n && forall|k: int| 0 <= k < sep.len() ==> sep[k] == 0x20u8,
        (Some(i), AttributeIndent::WriteConfigured(n)) => sep.len() == i.current_indent_len + n && forall|k: int| 0 <= k < sep.len() ==> sep[k] == i.indent_char,
        _ => sep == seq![0x20u8],
    }
}
/// the state machine of attribute indentation (doc comment of AttributeIndent): what `with_attribute` leaves behind
pub open spec fn attr_next(st: AttributeIndent, ind: Option<Indentation>, name_len: usize) -> AttributeIndent {
    match (ind, st) {
        (None, _) => st,
        (Some(_), AttributeIndent::NoneAttributesWritten) => AttributeIndent::Spaces((name_len + 2) as usize),
        (Some(_), AttributeIndent::WriteSpaces(n)) => AttributeIndent::Spaces(n),
        (Some(_), AttributeIndent::Spaces(n)) => AttributeIndent::Spaces(n),
        (Some(_), AttributeIndent::WriteConfigured(n)) => AttributeIndent::Configured(n),
        (Some(_), AttributeIndent::Configured(n)) => AttributeIndent::Configured(n),
    }
}
/// ... and what `new_line` plans
pub open spec fn line_next(st: AttributeIndent, ind: Option<Indentation>) -> AttributeIndent {
    match (ind, st) {
        (None, _) => st,
        (Some(i), AttributeIndent::NoneAttributesWritten) => AttributeIndent::WriteConfigured(i.indent_size),
        (Some(_), AttributeIndent::Spaces(n)) => AttributeIndent::WriteSpaces(n),
        (Some(_), AttributeIndent::Configured(n)) => AttributeIndent::WriteConfigured(n),
        (Some(_), _) => st,
    }
}
impl<'a, W> ElementWriter<'a, W> {
    /// invariant of the builder: the tag's name lies inside its buffer; the space buffer holds
    /// spaces; an indent planned from the writer's configuration is that configuration's indent size
    pub closed spec fn ew_inv(&self) -> bool {
        &&& self.start_tag.name_len <= self.start_tag.buf@.len()
        &&& (*self.writer).inv()
        &&& forall|k: int| 0 <= k < self.spaces@.len() ==> self.spaces@[k] == 0x20u8
        &&& (self.state matches AttributeIndent::WriteConfigured(n) ==> ((*self.writer).indent matches Some(i) && n == i.indent_size))
        &&& (self.state matches AttributeIndent::Configured(n) ==> ((*self.writer).indent matches Some(i) && n == i.indent_size))
    }
    /// the writer's observable state is untouched by attribute operations (they may only enlarge the cache of indent characters)
    pub open spec fn same_writer(w0: Writer<W>, w1: Writer<W>) -> bool {
        &&& w1.writer == w0.writer
        &&& match (w0.indent, w1.indent) {
            (None, None) => true,
            (Some(i0), Some(i1)) => i1.inv() && i1.indent_char == i0.indent_char && i1.indent_size == i0.indent_size
                && i1.current_indent_len == i0.current_indent_len && i1.should_line_break == i0.should_line_break,
            _ => false,
        }
    }
}
impl<W> Writer<W> {
//@extract writer::Writer::create_element | src/writer.rs :: impl<W> Writer<W> :: fn create_element | serves=C09
//@rewrite create_element<'a, N>(&'a mut self, name: N) ==> create_element<'a>(&'a mut self, name: Cow<'a, str>)
//@rewrite where N: Into<Cow<'a, str>>, ==> 
 pub fn create_element<'a>(&'a mut self, name: Cow<'a, str>) -> (r: ElementWriter<'a, W>)
        // C09: a fresh builder for an element with exactly that name, no attributes, on THIS writer
        requires old(self).inv(),
        ensures *r.writer == *old(self), *final(r.writer) == *final(self),
            r.start_tag.buf@ == cow_str_bytes(name), r.start_tag.name_len == cow_str_bytes(name).len(),
            r.state is NoneAttributesWritten, r.ew_inv(),
    {
        ElementWriter {
            writer: self,
            start_tag: BytesStart::new(name),
            state: AttributeIndent::NoneAttributesWritten,
            spaces: Vec::new(),
        }
    }
//@end
}
impl<'a, W> ElementWriter<'a, W> {
//@extract writer::ElementWriter::with_attribute | src/writer.rs :: impl<'a, W> ElementWriter<'a, W> :: fn with_attribute | serves=C09
 pub fn with_attribute<'b, I>(self, attr: I) -> (r: Self)
    where
        I: Into<Attribute<'b>>,
        requires self.ew_inv(), call_requires(<I as Into<Attribute<'b>>>::into, (attr,)),
            self.start_tag.buf@.len() + 2 <= usize::MAX, // A-size
        // C09: the converted attribute is appended to the start tag -- separated by a space or by the planned indent --, the
        // name is untouched, nothing is written yet
        ensures r.ew_inv(), Self::same_writer(*old(self.writer), *r.writer), *final(r.writer) == *final(self.writer),
            r.start_tag.name_len == self.start_tag.name_len,
            r.state == attr_next(self.state, (*old(self.writer)).indent, self.start_tag.name_len),
            exists|a: Attribute<'b>, sep: Seq<u8>| #[trigger] call_ensures(<I as Into<Attribute<'b>>>::into, (attr,), a)
                && #[trigger] attr_sep(self.state, (*old(self.writer)).indent, sep)
                && r.start_tag.buf@ == self.start_tag.buf@ + sep + kv(a),
    { let mut self__ = self;
        self__.write_attr(attr.into());
        self__
    }
//@end
//@extract writer::ElementWriter::with_attributes | src/writer.rs :: impl<'a, W> ElementWriter<'a, W> :: fn with_attributes | serves=C09
 pub fn with_attributes<'b, I>(self, attributes: I) -> (r: Self)
    where
        I: IntoIterator,
        I::Item: Into<Attribute<'b>>,
        requires self.ew_inv(), self.start_tag.buf@.len() + 2 <= usize::MAX, // A-size
            forall|x: I::Item| call_requires(<I::Item as Into<Attribute<'b>>>::into, (x,)),
        // C09: the first attribute goes through the indentation state machine (write_attr), the others are appended with
        // push_attribute: the tag only grows, its name stays, nothing is written yet
        ensures r.ew_inv(), Self::same_writer(*old(self.writer), *r.writer), *final(r.writer) == *final(self.writer),
            r.start_tag.name_len == self.start_tag.name_len, r.start_tag.buf@.len() >= self.start_tag.buf@.len(),
            r.start_tag.buf@.subrange(0, self.start_tag.buf@.len() as int) == self.start_tag.buf@,
            r.state == self.state || r.state == attr_next(self.state, (*old(self.writer)).indent, self.start_tag.name_len),
    { let mut self__ = self;
        let mut iter = attributes.into_iter();
        if let Some(attr) = iter.next() {
            self__.write_attr(attr.into());
            let ghost b1 = self__.start_tag.buf@;
            proof { assert(b1.subrange(0, self.start_tag.buf@.len() as int) =~= self.start_tag.buf@); }
            self__.start_tag.extend_attributes(iter);
            proof { assert(self__.start_tag.buf@.subrange(0, self.start_tag.buf@.len() as int) =~= b1.subrange(0, self.start_tag.buf@.len() as int)); }
        }
        self__
    }
//@end
//@extract writer::ElementWriter::new_line | src/writer.rs :: impl<'a, W> ElementWriter<'a, W> :: fn new_line | serves=C09
 pub fn new_line(self) -> (r: Self)
        requires self.ew_inv()
        // C19: a line break INSIDE the tag, only when the writer indents; the next attribute will be indented
        ensures r.ew_inv(),
            *r.writer == *old(self.writer),
            *final(r.writer) == *final(self.writer),
            r.start_tag.name_len == self.start_tag.name_len,
            r.state == line_next(self.state, (*old(self.writer)).indent),
            r.start_tag.buf@ == (if (*old(self.writer)).indent is Some { self.start_tag.buf@.push(0x0au8) } else { self.start_tag.buf@ }),
 { let mut self__ = self;
        if let Some(i) = self__.writer.indent.as_mut() {
            match self__.state {
                // .new_line() called just after .create_element().
                // Use element indent to additionally indent attributes
                AttributeIndent::NoneAttributesWritten => {
                    self__.state = AttributeIndent::WriteConfigured(i.indent_size)
                }

                AttributeIndent::WriteSpaces(_) => {}
                // .new_line() called when .with_attribute() was called at least once.
                // The spaces should be used to indent
                // Plan saved indent
                AttributeIndent::Spaces(indent) => {
                    self__.state = AttributeIndent::WriteSpaces(indent)
                }

                AttributeIndent::WriteConfigured(_) => {}
                // .new_line() called when .with_attribute() was called at least once.
                // The configured indent characters should be used to indent
                // Plan saved indent
                AttributeIndent::Configured(indent) => {
                    self__.state = AttributeIndent::WriteConfigured(indent)
                }
            }
            self__.start_tag.push_newline();
        };
        self__
    }
//@end
//@extract writer::ElementWriter::write_attr | src/writer.rs :: impl<'a, W> ElementWriter<'a, W> :: fn write_attr | serves=C09
//@rewrite self.spaces.resize(indent, b' ') ==> vec_resize_u8(&mut self.spaces, indent, b' ')
    /// Writes attribute and maintain indentation state
    fn write_attr<'b>(&mut self, attr: Attribute<'b>)
        requires old(self).ew_inv(), old(self).start_tag.buf@.len() + 2 <= usize::MAX, // A-size
        ensures final(self).ew_inv(),
            Self::same_writer(*old(self).writer, *final(self).writer),
            *final(final(self).writer) == *final(old(self).writer),
            final(self).start_tag.name_len == old(self).start_tag.name_len,
            final(self).state == attr_next(old(self).state, (*old(self).writer).indent, old(self).start_tag.name_len),
            exists|sep: Seq<u8>| #[trigger] attr_sep(old(self).state, (*old(self).writer).indent, sep)
                && final(self).start_tag.buf@ == old(self).start_tag.buf@ + sep + kv(attr),
    {
        let ghost a0 = attr;
        let ghost b0 = self.start_tag.buf@;
        let ghost st0 = self.state;
        let ghost ind0 = (*self.writer).indent;
        proof { lemma_into_identity::<Attribute<'b>>(); }
        if let Some(i) = self.writer.indent.as_mut() {
            // Save the indent that we should use next time when .new_line() be called
            self.state = match self.state {
                // Neither .new_line() or .with_attribute() yet called
                // If newline inside attributes will be requested, we should indent them
                // by the length of tag name and +1 for `<` and +1 for one space
                AttributeIndent::NoneAttributesWritten => {
                    self.start_tag.push_attribute(attr);
                    proof { assert(attr_sep(st0, ind0, seq![0x20u8])); assert(self.start_tag.buf@ =~= b0 + seq![0x20u8] + kv(a0)); }
                    AttributeIndent::Spaces(self.start_tag.name().as_ref().len() + 2)
                }

                // Indent was requested by previous call to .new_line(), write it
                // New line was already written
                AttributeIndent::WriteSpaces(indent) => {
                    if self.spaces.len() < indent {
                        vec_resize_u8(&mut self.spaces, indent, b' ');
                    }
                    proof { assert(forall|k: int| 0 <= k < self.spaces@.len() ==> self.spaces@[k] == 0x20u8); assert(self.spaces@.len() >= indent); }
                    let ghost sp = self.spaces@.subrange(0, indent as int);
                    self.start_tag.push_indent(&self.spaces[..indent]);
                    self.start_tag.push_attr(attr.into());
                    proof { assert(attr_sep(st0, ind0, sp)); assert(self.start_tag.buf@ =~= b0 + sp + kv(a0)); }
                    AttributeIndent::Spaces(indent)
                }
                // .new_line() was not called, but .with_attribute() was.
                // use the previously calculated indent
                AttributeIndent::Spaces(indent) => {
                    self.start_tag.push_attribute(attr);
                    proof { assert(attr_sep(st0, ind0, seq![0x20u8])); assert(self.start_tag.buf@ =~= b0 + seq![0x20u8] + kv(a0)); }
                    AttributeIndent::Spaces(indent)
                }

                // Indent was requested by previous call to .new_line(), write it
                // New line was already written
                AttributeIndent::WriteConfigured(indent) => {
                    self.start_tag.push_indent(i.additional(indent));
                    let ghost sp = self.start_tag.buf@.subrange(b0.len() as int, self.start_tag.buf@.len() as int);
                    self.start_tag.push_attr(attr.into());
                    proof { assert(attr_sep(st0, ind0, sp)); assert(self.start_tag.buf@ =~= b0 + sp + kv(a0)); }
                    AttributeIndent::Configured(indent)
                }
                // .new_line() was not called, but .with_attribute() was.
                // use the previously calculated indent
                AttributeIndent::Configured(indent) => {
                    self.start_tag.push_attribute(attr);
                    proof { assert(attr_sep(st0, ind0, seq![0x20u8])); assert(self.start_tag.buf@ =~= b0 + seq![0x20u8] + kv(a0)); }
                    AttributeIndent::Configured(indent)
                }
            };
        } else {
            self.start_tag.push_attribute(attr);
            proof { assert(attr_sep(st0, ind0, seq![0x20u8])); assert(self.start_tag.buf@ =~= b0 + seq![0x20u8] + kv(a0)); }
        }
    }
//@end
}
impl<'a, W: Write> ElementWriter<'a, W> {
//@extract writer::ElementWriter::write_text_content | src/writer.rs :: impl<'a, W: Write> ElementWriter<'a, W> :: fn write_text_content | serves=C09
 pub fn write_text_content(self, text: BytesText) -> (r: io::Result<&'a mut Writer<W>>)
        requires self.ew_inv(),
            // A-size for the writer: the indentation depth counter does not overflow usize
            (*self.writer).indent matches Some(i) ==> i.current_indent_len + 4 * i.indent_size <= usize::MAX,
        // C09 / C19: `<tag>` + the content + `</name>` -- the SAME name --, on THIS writer; indentation adds only "\n" + indent before
        // markup that does not follow text
        ensures r matches Ok(w) ==> *final(w) == *final(self.writer) && ind_after((*old(self.writer)).indent, (*w).indent)
            && (*w).writer.out() == (*old(self.writer)).writer.out() + ind_pre((*old(self.writer)).indent, lvl_of((*old(self.writer)).indent))
                + seq![0x3cu8] + self.start_tag.buf@ + seq![0x3eu8]
                + text.content@
                + seq![0x3cu8, 0x2fu8] + self.start_tag.buf@.subrange(0, self.start_tag.name_len as int) + seq![0x3eu8],
 {
        self.writer
            .write_event(Event::Start(self.start_tag.borrow()))?;
        self.writer.write_event(Event::Text(text))?;
        self.writer
            .write_event(Event::End(self.start_tag.to_end()))?;
        Ok(self.writer)
    }
//@end
//@extract writer::ElementWriter::write_cdata_content | src/writer.rs :: impl<'a, W: Write> ElementWriter<'a, W> :: fn write_cdata_content | serves=C09
 pub fn write_cdata_content(self, text: BytesCData) -> (r: io::Result<&'a mut Writer<W>>)
        requires self.ew_inv(),
            // A-size for the writer: the indentation depth counter does not overflow usize
            (*self.writer).indent matches Some(i) ==> i.current_indent_len + 4 * i.indent_size <= usize::MAX,
        // C09 / C19: `<tag>` + the content + `</name>` -- the SAME name --, on THIS writer; indentation adds only "\n" + indent before
        // markup that does not follow text
        ensures r matches Ok(w) ==> *final(w) == *final(self.writer) && ind_after((*old(self.writer)).indent, (*w).indent)
            && (*w).writer.out() == (*old(self.writer)).writer.out() + ind_pre((*old(self.writer)).indent, lvl_of((*old(self.writer)).indent))
                + seq![0x3cu8] + self.start_tag.buf@ + seq![0x3eu8]
                + seq![0x3cu8, 0x21, 0x5b, 0x43, 0x44, 0x41, 0x54, 0x41, 0x5b] + text.content@ + seq![0x5du8, 0x5d, 0x3e]
                + seq![0x3cu8, 0x2fu8] + self.start_tag.buf@.subrange(0, self.start_tag.name_len as int) + seq![0x3eu8],
 {
        self.writer
            .write_event(Event::Start(self.start_tag.borrow()))?;
        self.writer.write_event(Event::CData(text))?;
        self.writer
            .write_event(Event::End(self.start_tag.to_end()))?;
        Ok(self.writer)
    }
//@end
//@extract writer::ElementWriter::write_pi_content | src/writer.rs :: impl<'a, W: Write> ElementWriter<'a, W> :: fn write_pi_content | serves=C09
 pub fn write_pi_content(self, pi: BytesPI) -> (r: io::Result<&'a mut Writer<W>>)
        requires self.ew_inv(),
            // A-size for the writer: the indentation depth counter does not overflow usize
            (*self.writer).indent matches Some(i) ==> i.current_indent_len + 4 * i.indent_size <= usize::MAX,
        // C09 / C19: `<tag>` + the content + `</name>` -- the SAME name --, on THIS writer; indentation adds only "\n" + indent before
        // markup that does not follow text
        ensures r matches Ok(w) ==> *final(w) == *final(self.writer) && ind_after((*old(self.writer)).indent, (*w).indent)
            && (*w).writer.out() == (*old(self.writer)).writer.out() + ind_pre((*old(self.writer)).indent, lvl_of((*old(self.writer)).indent))
                + seq![0x3cu8] + self.start_tag.buf@ + seq![0x3eu8]
                + ind_nl((*old(self.writer)).indent, lvl_of((*old(self.writer)).indent) + step_of((*old(self.writer)).indent)) + seq![0x3cu8, 0x3f] + pi.content.buf@ + seq![0x3fu8, 0x3e]
                + ind_nl((*old(self.writer)).indent, lvl_of((*old(self.writer)).indent))
                + seq![0x3cu8, 0x2fu8] + self.start_tag.buf@.subrange(0, self.start_tag.name_len as int) + seq![0x3eu8],
 {
        self.writer
            .write_event(Event::Start(self.start_tag.borrow()))?;
        self.writer.write_event(Event::PI(pi))?;
        self.writer
            .write_event(Event::End(self.start_tag.to_end()))?;
        Ok(self.writer)
    }
//@end
//@extract writer::ElementWriter::write_empty | src/writer.rs :: impl<'a, W: Write> ElementWriter<'a, W> :: fn write_empty | serves=C09
 pub fn write_empty(self) -> (r: io::Result<&'a mut Writer<W>>)
        requires self.ew_inv(),
            // A-size for the writer: the indentation depth counter does not overflow usize
            (*self.writer).indent matches Some(i) ==> i.current_indent_len + 4 * i.indent_size <= usize::MAX,
        // C09: one Empty event with the assembled tag
        ensures r matches Ok(w) ==> *final(w) == *final(self.writer) && wrote(*old(self.writer), Event::Empty(self.start_tag), *w),
 {
        self.writer.write_event(Event::Empty(self.start_tag))?;
        Ok(self.writer)
    }
//@end
//@extract writer::ElementWriter::write_inner_content | src/writer.rs :: impl<'a, W: Write> ElementWriter<'a, W> :: fn write_inner_content | serves=C09
 pub fn write_inner_content<F>(self, closure: F) -> (r: io::Result<&'a mut Writer<W>>)
    where
        F: FnOnce(&mut Writer<W>) -> io::Result<()>,
        requires self.ew_inv(),
            (*self.writer).indent matches Some(i) ==> i.current_indent_len + 4 * i.indent_size <= usize::MAX, // A-size
            // the caller's closure may be called on any writer and hands it back in a state in which one more event can be written
            forall|x: &mut Writer<W>| closure.requires((x,)),
            forall|x: &mut Writer<W>, o: io::Result<()>| #[trigger] closure.ensures((x,), o) ==> (o is Ok ==> (*final(x)).inv()
                && ((*final(x)).indent matches Some(i) ==> i.current_indent_len + 2 * i.indent_size <= usize::MAX)),
        // C09: `<tag>` is written first (one write_event step from the writer as it was), the closure writes the content, and the LAST
        // step is the End tag with the SAME name
        ensures r matches Ok(w) ==> *final(w) == *final(self.writer),
            r matches Ok(w) ==> (exists|st: BytesStart, w1: Writer<W>| st.buf@ == self.start_tag.buf@ && st.name_len == self.start_tag.name_len
                    && #[trigger] wrote(*old(self.writer), Event::Start(st), w1)),
            r matches Ok(w) ==> end_written(self.start_tag, *w),
    {
        self.writer
            .write_event(Event::Start(self.start_tag.borrow()))?;
        closure(self.writer)?;
        let ghost w2g = *self.writer;
        self.writer
            .write_event(Event::End(self.start_tag.to_end()))?;
        proof {
            assert(exists|en: BytesEnd| en.name@ == self.start_tag.buf@.subrange(0, self.start_tag.name_len as int)
                && #[trigger] wrote(w2g, Event::End(en), *self.writer));
            assert(end_written(self.start_tag, *self.writer));
        }
        Ok(self.writer)
    }
//@end
}
// ---- the asynchronous copies (src/writer/async_tokio.rs), `async` / `.await` erased: the same bytes (C09) ----
impl<'a, W: Write> ElementWriter<'a, W> {
//@extract writer_async::ElementWriter::write_text_content_async | src/writer/async_tokio.rs :: impl<'a, W: AsyncWrite + Unpin> ElementWriter<'a, W> :: fn write_text_content_async | serves=C09 features=async-tokio drop=async,await
//@rewrite-opt <'_> ==> 
 pub fn write_text_content_async(self, text: BytesText) -> (r: Result<&'a mut Writer<W>>)
        requires self.ew_inv(),
            // A-size for the writer: the indentation depth counter does not overflow usize
            (*self.writer).indent matches Some(i) ==> i.current_indent_len + 4 * i.indent_size <= usize::MAX,
        // C09 / C19: `<tag>` + the content + `</name>` -- the SAME name --, on THIS writer; indentation adds only "\n" + indent before
        // markup that does not follow text
        ensures r matches Ok(w) ==> *final(w) == *final(self.writer) && ind_after((*old(self.writer)).indent, (*w).indent)
            && (*w).writer.out() == (*old(self.writer)).writer.out() + ind_pre((*old(self.writer)).indent, lvl_of((*old(self.writer)).indent))
                + seq![0x3cu8] + self.start_tag.buf@ + seq![0x3eu8]
                + text.content@
                + seq![0x3cu8, 0x2fu8] + self.start_tag.buf@.subrange(0, self.start_tag.name_len as int) + seq![0x3eu8],
 {
        self.writer
            .write_event_async(Event::Start(self.start_tag.borrow()))?;
        self.writer.write_event_async(Event::Text(text))?;
        self.writer
            .write_event_async(Event::End(self.start_tag.to_end()))?;
        Ok(self.writer)
    }
//@end
//@extract writer_async::ElementWriter::write_cdata_content_async | src/writer/async_tokio.rs :: impl<'a, W: AsyncWrite + Unpin> ElementWriter<'a, W> :: fn write_cdata_content_async | serves=C09 features=async-tokio drop=async,await
//@rewrite-opt <'_> ==> 
 pub fn write_cdata_content_async(
        self,
        text: BytesCData,
    ) -> (r: Result<&'a mut Writer<W>>)
        requires self.ew_inv(),
            // A-size for the writer: the indentation depth counter does not overflow usize
            (*self.writer).indent matches Some(i) ==> i.current_indent_len + 4 * i.indent_size <= usize::MAX,
        // C09 / C19: `<tag>` + the content + `</name>` -- the SAME name --, on THIS writer; indentation adds only "\n" + indent before
        // markup that does not follow text
        ensures r matches Ok(w) ==> *final(w) == *final(self.writer) && ind_after((*old(self.writer)).indent, (*w).indent)
            && (*w).writer.out() == (*old(self.writer)).writer.out() + ind_pre((*old(self.writer)).indent, lvl_of((*old(self.writer)).indent))
                + seq![0x3cu8] + self.start_tag.buf@ + seq![0x3eu8]
                + seq![0x3cu8, 0x21, 0x5b, 0x43, 0x44, 0x41, 0x54, 0x41, 0x5b] + text.content@ + seq![0x5du8, 0x5d, 0x3e]
                + seq![0x3cu8, 0x2fu8] + self.start_tag.buf@.subrange(0, self.start_tag.name_len as int) + seq![0x3eu8],
 {
        self.writer
            .write_event_async(Event::Start(self.start_tag.borrow()))?;
        self.writer.write_event_async(Event::CData(text))?;
        self.writer
            .write_event_async(Event::End(self.start_tag.to_end()))?;
        Ok(self.writer)
    }
//@end
//@extract writer_async::ElementWriter::write_pi_content_async | src/writer/async_tokio.rs :: impl<'a, W: AsyncWrite + Unpin> ElementWriter<'a, W> :: fn write_pi_content_async | serves=C09 features=async-tokio drop=async,await
//@rewrite-opt <'_> ==> 
 pub fn write_pi_content_async(self, text: BytesPI) -> (r: Result<&'a mut Writer<W>>)
        requires self.ew_inv(),
            // A-size for the writer: the indentation depth counter does not overflow usize
            (*self.writer).indent matches Some(i) ==> i.current_indent_len + 4 * i.indent_size <= usize::MAX,
        // C09 / C19: `<tag>` + the content + `</name>` -- the SAME name --, on THIS writer; indentation adds only "\n" + indent before
        // markup that does not follow text
        ensures r matches Ok(w) ==> *final(w) == *final(self.writer) && ind_after((*old(self.writer)).indent, (*w).indent)
            && (*w).writer.out() == (*old(self.writer)).writer.out() + ind_pre((*old(self.writer)).indent, lvl_of((*old(self.writer)).indent))
                + seq![0x3cu8] + self.start_tag.buf@ + seq![0x3eu8]
                + ind_nl((*old(self.writer)).indent, lvl_of((*old(self.writer)).indent) + step_of((*old(self.writer)).indent)) + seq![0x3cu8, 0x3f] + text.content.buf@ + seq![0x3fu8, 0x3e]
                + ind_nl((*old(self.writer)).indent, lvl_of((*old(self.writer)).indent))
                + seq![0x3cu8, 0x2fu8] + self.start_tag.buf@.subrange(0, self.start_tag.name_len as int) + seq![0x3eu8],
 {
        self.writer
            .write_event_async(Event::Start(self.start_tag.borrow()))?;
        self.writer.write_event_async(Event::PI(text))?;
        self.writer
            .write_event_async(Event::End(self.start_tag.to_end()))?;
        Ok(self.writer)
    }
//@end
//@extract writer_async::ElementWriter::write_empty_async | src/writer/async_tokio.rs :: impl<'a, W: AsyncWrite + Unpin> ElementWriter<'a, W> :: fn write_empty_async | serves=C09 features=async-tokio drop=async,await
//@rewrite-opt <'_> ==> 
 pub fn write_empty_async(self) -> (r: Result<&'a mut Writer<W>>)
        requires self.ew_inv(),
            // A-size for the writer: the indentation depth counter does not overflow usize
            (*self.writer).indent matches Some(i) ==> i.current_indent_len + 4 * i.indent_size <= usize::MAX,
        // C09: one Empty event with the assembled tag
        ensures r matches Ok(w) ==> *final(w) == *final(self.writer) && wrote(*old(self.writer), Event::Empty(self.start_tag), *w),
 {
        self.writer
            .write_event_async(Event::Empty(self.start_tag))?;
        Ok(self.writer)
    }
//@end
}
}
