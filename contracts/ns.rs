// ---------------------------------------------------------------------------------------------
// U-ns: NsReader scope discipline (src/reader/ns_reader.rs) and NamespaceResolver (src/name.rs).
// C05: a namespace scope is opened for every Start/Empty event and closed when the element ends,
// also when its content is skipped with read_to_end / read_text.
// ---------------------------------------------------------------------------------------------

pub mod ns_ {
use super::*;
use crate::attrs_::{Attribute, Attributes, AttrError};
use vstd::prelude::*;
use vstd::string::StringSliceAdditionalSpecFns;
pub type Result<T> = core::result::Result<T, Error>;
pub type Span = core::ops::Range<u64>;

//@extract name::NamespaceEntry | src/name.rs :: struct NamespaceEntry | serves=C05
pub struct NamespaceEntry {
    /// Index of the namespace in the buffer
    pub start: usize,
    /// Length of the prefix
    /// * if greater than zero, then binds this namespace to the slice
    ///   `[start..start + prefix_len]` in the buffer.
    /// * else defines the current default namespace.
    pub prefix_len: usize,
    /// The length of a namespace name (the URI) of this namespace declaration.
    /// Name started just after prefix and extend for `value_len` bytes.
    ///
    /// The XML standard [specifies] that an empty namespace value 'removes' a namespace declaration
    /// for the extent of its scope. For prefix declarations that's not very interesting, but it is
    /// vital for default namespace declarations. With `xmlns=""` you can revert back to the default
    /// behaviour of leaving unqualified element names unqualified.
    ///
    /// [specifies]: https://www.w3.org/TR/xml-names11/#scoping
    pub value_len: usize,
    /// Level of nesting at which this namespace was declared. The declaring element is included,
    /// i.e., a declaration on the document root has `level = 1`.
    /// This is used to pop the namespace when the element gets closed.
    pub level: i32,
}
//@end

//@extract name::NamespaceResolver | src/name.rs :: struct NamespaceResolver | serves=C05
 pub struct NamespaceResolver {
    /// Buffer that contains names of namespace prefixes (the part between `xmlns:`
    /// and an `=`) and namespace values.
    pub buffer: Vec<u8>,
    /// A stack of namespace bindings to prefixes that currently in scope
    pub bindings: Vec<NamespaceEntry>,
    /// The number of open tags at the moment. We need to keep track of this to know which namespace
    /// declarations to remove when we encounter an `End` event.
    pub nesting_level: i32,
}
//@end

//@extract name::Prefix | src/name.rs :: struct Prefix | serves=C05
 #[derive(Clone, Copy)]
 pub struct Prefix<'a>(pub &'a [u8]);
//@end
//@extract name::Namespace | src/name.rs :: struct Namespace | serves=C05
 #[derive(Clone, Copy)]
 pub struct Namespace<'a>(pub &'a [u8]);
//@end
//@extract name::ResolveResult | src/name.rs :: enum ResolveResult | serves=C05
 pub enum ResolveResult<'ns> {
    /// Qualified name does not contain prefix, and resolver does not define
    /// default namespace, so name is not bound to any namespace
    Unbound,
    /// [`Prefix`] resolved to the specified namespace
    Bound(Namespace<'ns>),
    /// Specified prefix was not found in scope
    Unknown(Vec<u8>),
}
//@end

/// `#[derive(PartialEq)]` of Prefix, written out (trusted transcription of the derive): compares the bytes
impl<'a> vstd::std_specs::cmp::PartialEqSpecImpl for Prefix<'a> {
    open spec fn obeys_eq_spec() -> bool { true }
    open spec fn eq_spec(&self, o: &Self) -> bool { self.0@ == o.0@ }
}
impl<'a> PartialEq for Prefix<'a> {
    fn eq(&self, o: &Self) -> (r: bool)
        ensures r == (self.0@ == o.0@)
    {
        let r = self.0 == o.0;
        proof { if r { assert(self.0@ =~= o.0@); } }
        r
    }
}

impl<'a> Prefix<'a> {
//@extract name::Prefix::into_inner | src/name.rs :: impl<'a> Prefix<'a> :: fn into_inner | serves=C05
 pub fn into_inner(self) -> (r: &'a [u8])
        ensures r@ == self.0@
 {
        self.0
    }
//@end
}

impl<'a> Namespace<'a> {
//@extract name::Namespace::into_inner | src/name.rs :: impl<'a> Namespace<'a> :: fn into_inner | serves=C05
 pub fn into_inner(self) -> (r: &'a [u8])
        ensures r@ == self.0@
 {
        self.0
    }
//@end
}

impl<'a> QName<'a> {
//@extract name::QName::prefix | src/name.rs :: impl<'a> QName<'a> :: fn prefix | serves=C05
 pub fn prefix(&self) -> (r: Option<Prefix<'a>>)
        ensures pfx_view(r) == spec_prefix_of(self.0@)
 {
        proof { lemma_prefix_of(self.0@); }
        self.index().map(|i: usize| -> (q: Prefix<'a>) requires first_colon(self.0@, i as int) ensures q.0@ == self.0@.subrange(0, i as int) { Prefix(&self.0[..i]) })
    }
//@end
//@extract name::QName::decompose | src/name.rs :: impl<'a> QName<'a> :: fn decompose | serves=C05
 pub fn decompose(&self) -> (r: (LocalName<'a>, Option<Prefix<'a>>))
        ensures r.0.0@ == spec_local_name(self.0@), pfx_view(r.1) == spec_prefix_of(self.0@)
 {
        proof { lemma_prefix_of(self.0@); lemma_local_name(self.0@); axiom_slice_len(self.0); }
        match self.index() {
            None => (LocalName(self.0), None),
            Some(i) => (LocalName(&self.0[i + 1..]), Some(Prefix(&self.0[..i]))),
        }
    }
//@end
}

impl NamespaceEntry {
//@extract name::NamespaceEntry::prefix | src/name.rs :: impl NamespaceEntry :: fn prefix | serves=C05
    pub fn prefix<'b>(&self, ns_buffer: &'b [u8]) -> (r: Option<Prefix<'b>>)
        requires self.start + self.prefix_len + self.value_len <= ns_buffer@.len()
        ensures pfx_view(r) == self.spec_prefix(ns_buffer@)
    {
        proof { axiom_slice_len(ns_buffer); }
        if self.prefix_len == 0 {
            None
        } else {
            Some(Prefix(&ns_buffer[self.start..self.start + self.prefix_len]))
        }
    }
//@end
//@extract name::NamespaceEntry::namespace | src/name.rs :: impl NamespaceEntry :: fn namespace | serves=C05
    pub fn namespace<'ns>(&self, buffer: &'ns [u8]) -> (r: ResolveResult<'ns>)
        requires self.start + self.prefix_len + self.value_len <= buffer@.len()
        ensures rr_view(r) == (if self.value_len == 0 { AbsRes::Unbound } else { AbsRes::Bound(self.spec_value(buffer@)) })
    {
        proof { axiom_slice_len(buffer); }
        if self.value_len == 0 {
            ResolveResult::Unbound
        } else {
            let start = self.start + self.prefix_len;
            ResolveResult::Bound(Namespace(&buffer[start..start + self.value_len]))
        }
    }
//@end
}

//@extract ns_reader::NsReader | src/reader/ns_reader.rs :: struct NsReader | serves=C05
 pub struct NsReader<R> {
    /// An XML reader
    pub(super) reader: Reader<R>,
    /// A buffer to manage namespaces
    pub(super) ns_resolver: NamespaceResolver,
    /// We cannot pop data from the namespace stack until returned `Empty` or `End`
    /// event will be processed by the user, so we only mark that we should that
    /// in the next [`Self::read_event_impl()`] call.
    pub pending_pop: bool,
}
//@end

/// `#[derive(PartialEq)]` of Namespace, written out (trusted transcription of the derive): compares the bytes
impl<'a> vstd::std_specs::cmp::PartialEqSpecImpl for Namespace<'a> {
    open spec fn obeys_eq_spec() -> bool { true }
    open spec fn eq_spec(&self, o: &Self) -> bool { self.0@ == o.0@ }
}
impl<'a> PartialEq for Namespace<'a> {
    fn eq(&self, o: &Self) -> (r: bool)
        ensures r == (self.0@ == o.0@)
    {
        let r = self.0 == o.0;
        proof { if r { assert(self.0@ =~= o.0@); } }
        r
    }
}
/// Namespaces in XML 1.1, section 3: the two reserved namespace names
pub open spec fn uri_xml() -> Seq<u8> { seq![0x68u8,0x74,0x74,0x70,0x3a,0x2f,0x2f,0x77,0x77,0x77,0x2e,0x77,0x33,0x2e,0x6f,0x72,0x67,0x2f,0x58,0x4d,0x4c,0x2f,0x31,0x39,0x39,0x38,0x2f,0x6e,0x61,0x6d,0x65,0x73,0x70,0x61,0x63,0x65] }
pub open spec fn uri_xmlns() -> Seq<u8> { seq![0x68u8,0x74,0x74,0x70,0x3a,0x2f,0x2f,0x77,0x77,0x77,0x2e,0x77,0x33,0x2e,0x6f,0x72,0x67,0x2f,0x32,0x30,0x30,0x30,0x2f,0x78,0x6d,0x6c,0x6e,0x73,0x2f] }
//@extract name::RESERVED_NAMESPACE_XML | src/name.rs :: const RESERVED_NAMESPACE_XML | serves=C05
/// That constant define the one of [reserved namespaces] for the xml standard.
///
/// The prefix `xml` is by definition bound to the namespace name
/// `http://www.w3.org/XML/1998/namespace`. It may, but need not, be declared, and must not be
/// undeclared or bound to any other namespace name. Other prefixes must not be bound to this
/// namespace name, and it must not be declared as the default namespace.
///
/// [reserved namespaces]: https://www.w3.org/TR/xml-names11/#xmlReserved
pub exec const RESERVED_NAMESPACE_XML: (Prefix<'static>, Namespace<'static>)
    // "xml" is bound to http://www.w3.org/XML/1998/namespace
    ensures RESERVED_NAMESPACE_XML.0.0@ =~= seq![0x78u8, 0x6d, 0x6c], RESERVED_NAMESPACE_XML.1.0@ =~= uri_xml()
 { (
    Prefix(&[b'x', b'm', b'l']),
    Namespace(&[b'h', b't', b't', b'p', b':', b'/', b'/', b'w', b'w', b'w', b'.', b'w', b'3', b'.', b'o', b'r', b'g', b'/', b'X', b'M', b'L', b'/', b'1', b'9', b'9', b'8', b'/', b'n', b'a', b'm', b'e', b's', b'p', b'a', b'c', b'e']),
) }
//@end
//@extract name::RESERVED_NAMESPACE_XMLNS | src/name.rs :: const RESERVED_NAMESPACE_XMLNS | serves=C05
/// That constant define the one of [reserved namespaces] for the xml standard.
///
/// The prefix `xmlns` is used only to declare namespace bindings and is by definition bound
/// to the namespace name `http://www.w3.org/2000/xmlns/`. It must not be declared or
/// undeclared. Other prefixes must not be bound to this namespace name, and it must not be
///  declared as the default namespace. Element names must not have the prefix `xmlns`.
///
/// [reserved namespaces]: https://www.w3.org/TR/xml-names11/#xmlReserved
pub exec const RESERVED_NAMESPACE_XMLNS: (Prefix<'static>, Namespace<'static>)
    // "xmlns" is bound to http://www.w3.org/2000/xmlns/
    ensures RESERVED_NAMESPACE_XMLNS.0.0@ =~= seq![0x78u8, 0x6d, 0x6c, 0x6e, 0x73], RESERVED_NAMESPACE_XMLNS.1.0@ =~= uri_xmlns()
 { (
    Prefix(&[b'x', b'm', b'l', b'n', b's']),
    Namespace(&[b'h', b't', b't', b'p', b':', b'/', b'/', b'w', b'w', b'w', b'.', b'w', b'3', b'.', b'o', b'r', b'g', b'/', b'2', b'0', b'0', b'0', b'/', b'x', b'm', b'l', b'n', b's', b'/']),
) }
//@end
impl<'a> QName<'a> {
//@extract name::QName::as_namespace_binding | src/name.rs :: impl<'a> QName<'a> :: fn as_namespace_binding | serves=C05
//@rewrite Some(&b':') => ==> Some(c13) if *c13 == b':' =>
 pub fn as_namespace_binding(&self) -> (r: Option<PrefixDeclaration<'a>>)
        // Namespaces in XML: the attribute `xmlns` declares the default namespace, `xmlns:p` the prefix p; nothing else is a declaration
        ensures match r {
            Some(PrefixDeclaration::Default) => self.0@ =~= seq![0x78u8, 0x6d, 0x6c, 0x6e, 0x73],
            Some(PrefixDeclaration::Named(p)) => self.0@.len() >= 6 && sw(self.0@, seq![0x78u8, 0x6d, 0x6c, 0x6e, 0x73]) && self.0@[5] == 0x3a && p@ == self.0@.subrange(6, self.0@.len() as int),
            None => !(sw(self.0@, seq![0x78u8, 0x6d, 0x6c, 0x6e, 0x73]) && (self.0@.len() == 5 || self.0@[5] == 0x3a)),
        }
 {
        if self.0.starts_with(&[b'x', b'm', b'l', b'n', b's']) {
            return match self.0.get(5) {
                None => Some(PrefixDeclaration::Default),
                Some(c13) if *c13 == b':' => Some(PrefixDeclaration::Named(&self.0[6..])),
                _ => None,
            };
        }
        None
    }
//@end
}
use crate::attrs_::{Attr, attr_items, State, key_text, attr_key_text, attr_value_text};
use core::ops::Range;
pub open spec fn b_xmlns() -> Seq<u8> { seq![0x78u8, 0x6d, 0x6c, 0x6e, 0x73] }
pub open spec fn b_xml() -> Seq<u8> { seq![0x78u8, 0x6d, 0x6c] }
/// a declared binding: (prefix -- None for the default namespace --, namespace name)
pub struct Decl { pub prefix: Option<Seq<u8>>, pub value: Seq<u8> }
/// outcome of looking at one attribute (Namespaces in XML 1.1, section 3 and "Reserved Prefixes and Namespace Names")
pub enum DeclStep { NotADecl, Add(Decl), Skip, ErrXmlBind(Seq<u8>), ErrXmlnsBind(Seq<u8>), ErrForXml(Seq<u8>), ErrForXmlns(Seq<u8>) }
/// what one attribute means for the scope that is being opened
#[verifier::opaque]
pub open spec fn decl_step(s: Seq<u8>, a: Attr<Range<usize>>) -> DeclStep {
    let key = attr_key_text(s, a);
    let v = attr_value_text(s, a);
    if key =~= b_xmlns() { DeclStep::Add(Decl { prefix: None, value: v }) }
    else if key.len() >= 6 && sw(key, b_xmlns()) && key[5] == 0x3a {
        let p = key.subrange(6, key.len() as int);
        // `xml` may only be bound to its own namespace name (and is then not recorded), `xmlns` must not be declared,
        // no other prefix may be bound to one of the two reserved namespace names
        if p =~= b_xml() { if v =~= uri_xml() { DeclStep::Skip } else { DeclStep::ErrXmlBind(v) } }
        else if p =~= b_xmlns() { DeclStep::ErrXmlnsBind(v) }
        else if v =~= uri_xml() { DeclStep::ErrForXml(p) }
        else if v =~= uri_xmlns() { DeclStep::ErrForXmlns(p) }
        // (an empty prefix after `xmlns:` is not an NCName; the code records it with prefix length 0, i.e. like a
        // default declaration -- the property statement is silent about such input)
        else { DeclStep::Add(Decl { prefix: if p.len() == 0 { None } else { Some(p) }, value: v }) }
    } else { DeclStep::NotADecl }
}
/// the declarations of the attributes items[k..], in order, or the first reserved-name error
#[verifier::opaque]
pub open spec fn decls_from(s: Seq<u8>, items: Seq<Attr<Range<usize>>>, k: int) -> core::result::Result<Seq<Decl>, DeclStep> decreases items.len() - k {
    if k < 0 || k >= items.len() { Ok(Seq::empty()) } else {
        match decl_step(s, items[k]) {
            DeclStep::NotADecl | DeclStep::Skip => decls_from(s, items, k + 1),
            DeclStep::Add(d) => match decls_from(s, items, k + 1) { Ok(rest) => Ok(seq![d] + rest), Err(e) => Err(e) },
            e => Err(e),
        }
    }
}
/// the bindings b[from..] as declarations
#[verifier::opaque]
pub open spec fn decls_view(b: Seq<NamespaceEntry>, buf: Seq<u8>, from: int) -> Seq<Decl> {
    Seq::new((b.len() - from) as nat, |i: int| Decl { prefix: b[from + i].spec_prefix(buf), value: b[from + i].spec_value(buf) })
}
pub open spec fn err_view(e: NamespaceError) -> DeclStep {
    match e {
        NamespaceError::InvalidXmlPrefixBind(v) => DeclStep::ErrXmlBind(v@),
        NamespaceError::InvalidXmlnsPrefixBind(v) => DeclStep::ErrXmlnsBind(v@),
        NamespaceError::InvalidPrefixForXml(p) => DeclStep::ErrForXml(p@),
        NamespaceError::InvalidPrefixForXmlns(p) => DeclStep::ErrForXmlns(p@),
        NamespaceError::UnknownPrefix(_) => DeclStep::NotADecl,
    }
}
pub proof fn lemma_decls_view_empty(b: Seq<NamespaceEntry>, buf: Seq<u8>)
    ensures decls_view(b, buf, b.len() as int) == Seq::<Decl>::empty()
{ reveal(decls_view); assert(decls_view(b, buf, b.len() as int) =~= Seq::<Decl>::empty()); }
pub proof fn lemma_step_default(s: Seq<u8>, a: Attr<Range<usize>>)
    requires attr_key_text(s, a) =~= b_xmlns()
    ensures decl_step(s, a) == DeclStep::Add(Decl { prefix: None, value: attr_value_text(s, a) })
{ reveal(decl_step); }
pub proof fn lemma_step_named(s: Seq<u8>, a: Attr<Range<usize>>, p: Seq<u8>)
    requires ({ let key = attr_key_text(s, a); key.len() >= 6 && sw(key, b_xmlns()) && key[5] == 0x3a && p == key.subrange(6, key.len() as int) })
    ensures ({
        let v = attr_value_text(s, a);
        decl_step(s, a) == (if p =~= b_xml() { if v =~= uri_xml() { DeclStep::Skip } else { DeclStep::ErrXmlBind(v) } }
            else if p =~= b_xmlns() { DeclStep::ErrXmlnsBind(v) }
            else if v =~= uri_xml() { DeclStep::ErrForXml(p) }
            else if v =~= uri_xmlns() { DeclStep::ErrForXmlns(p) }
            else { DeclStep::Add(Decl { prefix: if p.len() == 0 { None } else { Some(p) }, value: v }) })
    })
{
    reveal(decl_step);
    let key = attr_key_text(s, a);
    assert(!(key =~= b_xmlns()));
}
pub proof fn lemma_step_none(s: Seq<u8>, a: Attr<Range<usize>>)
    requires ({ let key = attr_key_text(s, a); !(sw(key, b_xmlns()) && (key.len() == 5 || key[5] == 0x3a)) })
    ensures decl_step(s, a) == DeclStep::NotADecl
{
    reveal(decl_step);
    let key = attr_key_text(s, a);
    if key =~= b_xmlns() { assert(sw(key, b_xmlns()) && key.len() == 5); }
}
/// loop invariant of push: what has been added so far, followed by what the attributes from `k` on declare, is the whole
#[verifier::opaque]
pub open spec fn decl_inv(s: Seq<u8>, all: Seq<Attr<Range<usize>>>, k: int, added: Seq<Decl>) -> bool {
    0 <= k <= all.len() && decls_from(s, all, 0) == (match decls_from(s, all, k) {
        Ok(rest) => Ok::<Seq<Decl>, DeclStep>(added + rest),
        Err(e) => Err(e),
    })
}
pub proof fn lemma_inv_start(s: Seq<u8>, all: Seq<Attr<Range<usize>>>)
    ensures decl_inv(s, all, 0, Seq::<Decl>::empty())
{
    reveal(decl_inv);
    match decls_from(s, all, 0) { Ok(rest) => { assert(Seq::<Decl>::empty() + rest =~= rest); } Err(_) => {} }
}
pub proof fn lemma_inv_skip(s: Seq<u8>, all: Seq<Attr<Range<usize>>>, k: int, added: Seq<Decl>)
    requires decl_inv(s, all, k, added), k < all.len(), decl_step(s, all[k]) is NotADecl || decl_step(s, all[k]) is Skip
    ensures decl_inv(s, all, k + 1, added)
{ reveal(decl_inv); reveal_with_fuel(decls_from, 2); }
pub proof fn lemma_inv_add(s: Seq<u8>, all: Seq<Attr<Range<usize>>>, k: int, added: Seq<Decl>, d: Decl)
    requires decl_inv(s, all, k, added), k < all.len(), decl_step(s, all[k]) == DeclStep::Add(d)
    ensures decl_inv(s, all, k + 1, added.push(d))
{
    reveal(decl_inv); reveal_with_fuel(decls_from, 2);
    match decls_from(s, all, k + 1) { Ok(rest) => { assert(added + (seq![d] + rest) =~= added.push(d) + rest); } Err(_) => {} }
}
pub proof fn lemma_inv_err(s: Seq<u8>, all: Seq<Attr<Range<usize>>>, k: int, added: Seq<Decl>)
    requires decl_inv(s, all, k, added), k < all.len(),
        !(decl_step(s, all[k]) is NotADecl) && !(decl_step(s, all[k]) is Skip) && !(decl_step(s, all[k]) is Add)
    ensures decls_from(s, all, 0) == Err::<Seq<Decl>, DeclStep>(decl_step(s, all[k]))
{ reveal(decl_inv); reveal_with_fuel(decls_from, 2); }
pub proof fn lemma_inv_end(s: Seq<u8>, all: Seq<Attr<Range<usize>>>, added: Seq<Decl>)
    requires decl_inv(s, all, all.len() as int, added)
    ensures decls_from(s, all, 0) == Ok::<Seq<Decl>, DeclStep>(added)
{ reveal(decl_inv); reveal_with_fuel(decls_from, 2); assert(added + Seq::<Decl>::empty() =~= added); }
/// appending one entry (whose bytes are appended to the buffer) appends its declaration to the view
pub proof fn lemma_decls_view_push(b: Seq<NamespaceEntry>, buf: Seq<u8>, b2: Seq<NamespaceEntry>, buf2: Seq<u8>, from: int, d: Decl)
    requires
        0 <= from <= b.len(), b2.len() == b.len() + 1, b2.subrange(0, b.len() as int) == b,
        buf2.len() >= buf.len(), buf2.subrange(0, buf.len() as int) == buf,
        forall|i: int| 0 <= i < b.len() ==> (#[trigger] b[i]).start + b[i].prefix_len + b[i].value_len <= buf.len(),
        b2.last().spec_prefix(buf2) == d.prefix, b2.last().spec_value(buf2) == d.value,
    ensures decls_view(b2, buf2, from) == decls_view(b, buf, from).push(d)
{
    reveal(decls_view);
    assert(decls_view(b2, buf2, from).len() == decls_view(b, buf, from).len() + 1);
    assert forall|i: int| 0 <= i < b.len() - from implies decls_view(b2, buf2, from)[i] == decls_view(b, buf, from)[i] by {
        let e = b[from + i];
        assert(b2[from + i] == b2.subrange(0, b.len() as int)[from + i]);
        assert(e.start + e.prefix_len + e.value_len <= buf.len());
        assert(buf2.subrange(e.start as int, e.start + e.prefix_len) =~= buf.subrange(e.start as int, e.start + e.prefix_len)) by {
            assert forall|j: int| e.start <= j < e.start + e.prefix_len implies buf2[j] == buf[j] by { assert(buf2.subrange(0, buf.len() as int)[j] == buf2[j]); }
        }
        assert(buf2.subrange(e.start + e.prefix_len, e.start + e.prefix_len + e.value_len) =~= buf.subrange(e.start + e.prefix_len, e.start + e.prefix_len + e.value_len)) by {
            assert forall|j: int| e.start + e.prefix_len <= j < e.start + e.prefix_len + e.value_len implies buf2[j] == buf[j] by { assert(buf2.subrange(0, buf.len() as int)[j] == buf2[j]); }
        }
    }
}
/// verified cursor over a slice (declared rewrite of `for x in &[..]`, N2): yields the elements in order
pub mod shim_s {
    use vstd::prelude::*;
    pub struct SliceIter<'a, T> { pub s: &'a [T], pub pos: usize }
    impl<'a, T> SliceIter<'a, T> {
        pub fn new(s: &'a [T]) -> (r: Self) ensures r.s == s, r.pos == 0 { SliceIter { s, pos: 0 } }
        pub fn next(&mut self) -> (r: Option<&'a T>)
            requires old(self).pos <= old(self).s@.len()
            ensures final(self).s == old(self).s,
                match r {
                    Some(x) => old(self).pos < old(self).s@.len() && *x == old(self).s@[old(self).pos as int] && final(self).pos == old(self).pos + 1,
                    None => old(self).pos == old(self).s@.len() && final(self).pos == old(self).pos,
                }
        {
            if self.pos < self.s.len() { let x = &self.s[self.pos]; self.pos = self.pos + 1; Some(x) } else { None }
        }
    }
}
impl Default for NamespaceResolver {
//@extract name::NamespaceResolver::default | src/name.rs :: impl Default for NamespaceResolver :: fn default | serves=C05,C14
//@rewrite &[RESERVED_NAMESPACE_XML, RESERVED_NAMESPACE_XMLNS] ==> shim_s::SliceIter::new(&[RESERVED_NAMESPACE_XML, RESERVED_NAMESPACE_XMLNS])
    fn default() -> (r: Self)
        ensures
            // C05 (Namespaces in XML 1.1, section 3): a resolver starts at level 0 with exactly the two reserved bindings,
            // `xml` and `xmlns`, bound to their reserved names -- before any element is read
            r.wf(), r.nesting_level == 0, r.bindings@.len() == 2,
            r.bindings@[0].spec_prefix(r.buffer@) == Some(seq![0x78u8, 0x6d, 0x6c]) && r.bindings@[0].spec_value(r.buffer@) == uri_xml() && r.bindings@[0].level == 0,
            r.bindings@[1].spec_prefix(r.buffer@) == Some(seq![0x78u8, 0x6d, 0x6c, 0x6e, 0x73]) && r.bindings@[1].spec_value(r.buffer@) == uri_xmlns() && r.bindings@[1].level == 0,
    {
        let mut buffer = Vec::new();
        let mut bindings = Vec::new();
        let ghost e0 = seq![0x78u8, 0x6d, 0x6c] + uri_xml();
        let ghost e1 = seq![0x78u8, 0x6d, 0x6c, 0x6e, 0x73] + uri_xmlns();
        let ghost b0 = NamespaceEntry { start: 0, prefix_len: 3, value_len: 36, level: 0 };
        let ghost b1 = NamespaceEntry { start: 39, prefix_len: 5, value_len: 29, level: 0 };
        proof { axiom_items_slice::<u8>(); }
        { let mut __it1 = shim_s::SliceIter::new(&[RESERVED_NAMESPACE_XML, RESERVED_NAMESPACE_XMLNS]); loop
            invariant
                __it1.pos <= 2, __it1.s@.len() == 2,
                __it1.s@[0].0.0@ == seq![0x78u8, 0x6d, 0x6c], __it1.s@[0].1.0@ == uri_xml(),
                __it1.s@[1].0.0@ == seq![0x78u8, 0x6d, 0x6c, 0x6e, 0x73], __it1.s@[1].1.0@ == uri_xmlns(),
                e0 == seq![0x78u8, 0x6d, 0x6c] + uri_xml(), e1 == seq![0x78u8, 0x6d, 0x6c, 0x6e, 0x73] + uri_xmlns(),
                b0 == (NamespaceEntry { start: 0, prefix_len: 3, value_len: 36, level: 0 }), b1 == (NamespaceEntry { start: 39, prefix_len: 5, value_len: 29, level: 0 }),
                buffer@ == (if __it1.pos == 0 { Seq::<u8>::empty() } else if __it1.pos == 1 { e0 } else { e0 + e1 }),
                bindings@ == (if __it1.pos == 0 { Seq::<NamespaceEntry>::empty() } else if __it1.pos == 1 { seq![b0] } else { seq![b0, b1] }),
            ensures __it1.pos == 2, buffer@ == e0 + e1, bindings@ == seq![b0, b1],
            decreases 2 - __it1.pos
        { match __it1.next() { None => { break; } Some( ent) => {
            let prefix = ent.0.into_inner();
            let uri = ent.1.into_inner();
            bindings.push(NamespaceEntry {
                start: buffer.len(),
                prefix_len: prefix.len(),
                value_len: uri.len(),
                level: 0,
            });
            buffer.extend(prefix);
            buffer.extend(uri);
            proof {
                axiom_items_slice::<u8>();
                assert(uri_xml().len() == 36 && uri_xmlns().len() == 29);
                if __it1.pos == 1 { assert(buffer@ =~= e0); assert(bindings@ =~= seq![b0]); }
                else { assert(buffer@ =~= e0 + e1); assert(bindings@ =~= seq![b0, b1]); }
            }
        } } } }
        proof {
            assert(uri_xml().len() == 36 && uri_xmlns().len() == 29);
            assert((e0 + e1).subrange(0, 3) =~= seq![0x78u8, 0x6d, 0x6c]);
            assert((e0 + e1).subrange(3, 39) =~= uri_xml());
            assert((e0 + e1).subrange(39, 44) =~= seq![0x78u8, 0x6d, 0x6c, 0x6e, 0x73]);
            assert((e0 + e1).subrange(44, 73) =~= uri_xmlns());
        }

        Self {
            buffer,
            bindings,
            nesting_level: 0,
        }
    }
//@end
}
impl NamespaceResolver {
//@extract name::NamespaceResolver::push | src/name.rs :: impl NamespaceResolver :: fn push | serves=C05 n13=1 n1=match
 #[verifier::rlimit(800)]
 pub fn push(&mut self, start: &BytesStart) -> (r: core::result::Result<(), NamespaceError>)
        requires old(self).nesting_level < i32::MAX, old(self).wf(), start.name_len <= start.buf@.len(),
        ensures final(self).wf(), final(self).nesting_level == old(self).nesting_level + 1,
            // bindings already in scope are untouched; whatever is added belongs to the new level
            final(self).bindings@.len() >= old(self).bindings@.len(),
            final(self).bindings@.subrange(0, old(self).bindings@.len() as int) == old(self).bindings@,
            forall|i: int| old(self).bindings@.len() <= i < final(self).bindings@.len() ==> (#[trigger] final(self).bindings@[i]).level == final(self).nesting_level,
            // C05: WHICH bindings are added: exactly the namespace declarations among the attributes of the element (as the
            // attribute iterator yields them, up to its first error), in order -- or the first reserved-name violation
            match decls_from(start.buf@, attr_items(State::Next(start.name_len), false, start.buf@), 0) {
                Ok(ds) => r is Ok && decls_view(final(self).bindings@, final(self).buffer@, old(self).bindings@.len() as int) =~= ds,
                Err(e) => r matches Err(x) && err_view(x) == e,
            },
            // the bytes of the bindings already in scope are untouched
            final(self).buffer@.len() >= old(self).buffer@.len(), final(self).buffer@.subrange(0, old(self).buffer@.len() as int) == old(self).buffer@,
 {
        self.nesting_level += 1;
        let level = self.nesting_level;
        let ghost b0 = self.bindings@;
        let ghost buf0 = self.buffer@;
        let ghost sb = start.buf@;
        let ghost all = attr_items(State::Next(start.name_len), false, start.buf@);
        let ghost mut gi: int = 0;
        proof { assert(all.subrange(0, all.len() as int) =~= all); lemma_decls_view_empty(self.bindings@, self.buffer@); lemma_inv_start(sb, all); }
        // adds new namespaces for attributes starting with 'xmlns:' and for the 'xmlns'
        // (default namespace) attribute.
        match start.attributes().with_checks(false) { mut __it1 => loop
            invariant_except_break
                attr_items(__it1.state.state, __it1.state.html, __it1.bytes@) == all.subrange(gi, all.len() as int),
            invariant
                __it1.inv(), __it1.bytes@ == start.buf@, level == self.nesting_level, self.nesting_level == old(self).nesting_level + 1, self.wf(),
                self.bindings@.len() >= b0.len(), self.bindings@.subrange(0, b0.len() as int) == b0, b0 == old(self).bindings@,
                forall|i: int| b0.len() <= i < self.bindings@.len() ==> (#[trigger] self.bindings@[i]).level == level,
                sb == start.buf@, buf0 == old(self).buffer@, self.buffer@.len() >= buf0.len(), self.buffer@.subrange(0, buf0.len() as int) == buf0,
                !__it1.state.check_duplicates, !__it1.state.html, 0 <= gi <= all.len(),
                all == attr_items(State::Next(start.name_len), false, start.buf@),
                // what has been added so far, followed by what the remaining attributes declare, is the whole
                decl_inv(sb, all, gi, decls_view(self.bindings@, self.buffer@, b0.len() as int)),
            ensures
                decls_from(sb, all, 0) == Ok::<Seq<Decl>, DeclStep>(decls_view(self.bindings@, self.buffer@, b0.len() as int)),
            decreases __it1.ahead()
        { match __it1.next() { None => { proof { assert(gi == all.len()); lemma_inv_end(sb, all, decls_view(self.bindings@, self.buffer@, b0.len() as int)); } break; } Some( a) => {
            if let Ok(Attribute { key: k, value: v }) = a {
                let ghost it = all[gi];
                let ghost kb = attr_key_text(sb, it);
                let ghost vb = attr_value_text(sb, it);
                let ghost bind0 = self.bindings@;
                let ghost bufa = self.buffer@;
                let ghost added0 = decls_view(bind0, bufa, b0.len() as int);
                proof {
                    axiom_cow_bytes(&v);
                    assert(all.subrange(gi, all.len() as int)[0] == it);
                    assert(all.subrange(gi, all.len() as int).subrange(1, all.len() - gi) =~= all.subrange(gi + 1, all.len() as int));
                    axiom_items_slice::<u8>();
                    lemma_copy_of_bytes();
                    assert(k.0@ == kb);
                    assert(v@ == vb);
                }
                match k.as_namespace_binding() {
                    Some(PrefixDeclaration::Default) => {
                        let start = self.buffer.len();
                        self.buffer.extend_from_slice(&v);
                        self.bindings.push(NamespaceEntry {
                            start,
                            prefix_len: 0,
                            value_len: v.len(),
                            level,
                        });
                        proof {
                            lemma_step_default(sb, it);
                            assert(self.buffer@ =~= bufa + vb);
                            assert(self.buffer@.subrange(0, bufa.len() as int) =~= bufa);
                            assert(self.bindings@.subrange(0, bind0.len() as int) =~= bind0);
                            assert(self.bindings@.last().spec_value(self.buffer@) =~= vb);
                            assert(self.bindings@.last().spec_prefix(self.buffer@) == None::<Seq<u8>>);
                            lemma_decls_view_push(bind0, bufa, self.bindings@, self.buffer@, b0.len() as int, Decl { prefix: None, value: vb });
                            lemma_inv_add(sb, all, gi, added0, Decl { prefix: None, value: vb });
                        }
                    } ,
                    Some(PrefixDeclaration::Named(__b13_1)) if bytes_eq(__b13_1, &[b'x', b'm', b'l']) => {
                        proof {
                            lemma_step_named(sb, it, b_xml());
                            if vb =~= uri_xml() { lemma_inv_skip(sb, all, gi, added0); } else { lemma_inv_err(sb, all, gi, added0); }
                        }
                        if Namespace(&v) != RESERVED_NAMESPACE_XML.1 {
                            // error, `xml` prefix explicitly set to different value
                            proof { assert(!(vb =~= uri_xml())); assert(decls_from(sb, all, 0) == Err::<Seq<Decl>, DeclStep>(DeclStep::ErrXmlBind(vb))); }
                            return Err(NamespaceError::InvalidXmlPrefixBind(v.to_vec()));
                        }
                        // don't add another NamespaceEntry for the `xml` namespace prefix
                    } ,
                    Some(PrefixDeclaration::Named(__b13_2)) if bytes_eq(__b13_2, &[b'x', b'm', b'l', b'n', b's']) => {
                        // error, `xmlns` prefix explicitly set
                        proof { lemma_step_named(sb, it, b_xmlns()); lemma_inv_err(sb, all, gi, added0); }
                        return Err(NamespaceError::InvalidXmlnsPrefixBind(v.to_vec()));
                    } ,
                    Some(PrefixDeclaration::Named(prefix)) => {
                        let ns = Namespace(&v);
                        let ghost pb = prefix@;
                        proof {
                            assert(pb == kb.subrange(6, kb.len() as int));
                            lemma_step_named(sb, it, pb);
                            if vb =~= uri_xml() || vb =~= uri_xmlns() { lemma_inv_err(sb, all, gi, added0); }
                            axiom_slice_len(prefix);
                        }

                        if ns == RESERVED_NAMESPACE_XML.1 {
                            // error, non-`xml` prefix set to xml uri
                            return Err(NamespaceError::InvalidPrefixForXml(prefix.to_vec()));
                        } else if ns == RESERVED_NAMESPACE_XMLNS.1 {
                            // error, non-`xmlns` prefix set to xmlns uri
                            return Err(NamespaceError::InvalidPrefixForXmlns(prefix.to_vec()));
                        }

                        let start = self.buffer.len();
                        self.buffer.extend_from_slice(prefix);
                        self.buffer.extend_from_slice(&v);
                        self.bindings.push(NamespaceEntry {
                            start,
                            prefix_len: prefix.len(),
                            value_len: v.len(),
                            level,
                        });
                        proof {
                            assert(self.buffer@ =~= bufa + pb + vb);
                            assert(self.buffer@.subrange(0, bufa.len() as int) =~= bufa);
                            assert(self.bindings@.subrange(0, bind0.len() as int) =~= bind0);
                            assert(self.bindings@.last().spec_value(self.buffer@) =~= vb);
                            if pb.len() > 0 { assert(self.bindings@.last().spec_prefix(self.buffer@)->Some_0 =~= pb); }
                            lemma_decls_view_push(bind0, bufa, self.bindings@, self.buffer@, b0.len() as int, Decl { prefix: if pb.len() == 0 { None } else { Some(pb) }, value: vb });
                            lemma_inv_add(sb, all, gi, added0, Decl { prefix: if pb.len() == 0 { None } else { Some(pb) }, value: vb });
                        }
                    } ,
                    None => { proof { lemma_step_none(sb, it); lemma_inv_skip(sb, all, gi, added0); } } ,
                }
                proof { gi = gi + 1; }
            } else {
                proof { assert(gi == all.len()); lemma_inv_end(sb, all, decls_view(self.bindings@, self.buffer@, b0.len() as int)); }
                break;
            }
        } } } }
        Ok(())
    }
//@end

//@extract name::NamespaceResolver::resolve | src/name.rs :: impl NamespaceResolver :: fn resolve | serves=C05
 pub fn resolve<'n>(
        &self,
        name: QName<'n>,
        use_default: bool,
    ) -> (r: (ResolveResult, LocalName<'n>))
        requires self.wf()
        ensures rr_view(r.0) == spec_resolve(self.bindings@, self.buffer@, spec_prefix_of(name.0@), use_default),
            r.1.0@ == spec_local_name(name.0@),
 {
        let (local_name, prefix) = name.decompose();
        (self.resolve_prefix(prefix, use_default), local_name)
    }
//@end
//@extract name::NamespaceResolver::find | src/name.rs :: impl NamespaceResolver :: fn find | serves=C05
 pub fn find(&self, element_name: QName) -> (r: ResolveResult)
        requires self.wf()
        ensures rr_view(r) == spec_resolve(self.bindings@, self.buffer@, spec_prefix_of(element_name.0@), true)
 {
        self.resolve_prefix(element_name.prefix(), true)
    }
//@end
//@extract name::NamespaceResolver::resolve_prefix | src/name.rs :: impl NamespaceResolver :: fn resolve_prefix | serves=C05
//@rewrite self.bindings .iter() .rev() .find_map(|n| ==> shim::rev_find_map(self.bindings.as_slice(), |n: &NamespaceEntry|
    pub fn resolve_prefix(&self, prefix: Option<Prefix>, use_default: bool) -> (r: ResolveResult)
        requires self.wf()
        // C05: the nearest declaration in scope decides (see spec_resolve)
        ensures rr_view(r) == spec_resolve(self.bindings@, self.buffer@, pfx_view(prefix), use_default)
    {
        let ghost bs = self.bindings@;
        let ghost buf = self.buffer@;
        let ghost pv = pfx_view(prefix);
        let found = shim::rev_find_map(self.bindings.as_slice(), |n: &NamespaceEntry| -> (o: Option<ResolveResult<'_>>)
            requires n.start + n.prefix_len + n.value_len <= self.buffer@.len()
            ensures (match o { Some(x) => Some(rr_view(x)), None => None::<AbsRes> }) == n.decides(buf, pv, use_default)
            { match (n.prefix(&self.buffer), prefix) {
                // This is default namespace definition and name has no explicit prefix
                (None, None) if use_default => Some(n.namespace(&self.buffer)),
                (None, None) => Some(ResolveResult::Unbound),

                // One part has prefix but other is not -> skip
                (None, Some(_)) => None,
                (Some(_), None) => None,

                // Prefixes does not match -> skip
                (Some(definition), Some(usage)) if definition != usage => None,

                // Prefixes the same, entry defines binding reset (corresponds to `xmlns:p=""`)
                _ if n.value_len == 0 => Some(Self::maybe_unknown(prefix)),
                // Prefixes the same, returns corresponding namespace
                _ => Some(n.namespace(&self.buffer)),
            } });
        proof {
            if found is Some {
                let xv = rr_view(found->Some_0);
                let i = choose|i: int| 0 <= i < bs.len() && bs[i].decides(buf, pv, use_default) == Some(xv)
                    && forall|j: int| i < j < bs.len() ==> (#[trigger] bs[j]).decides(buf, pv, use_default) is None;
                lemma_resolve_at(bs, buf, pv, use_default, i);
            } else {
                lemma_resolve_none(bs, buf, pv, use_default);
            }
        }
        found
            .unwrap_or_else(|| -> (q: ResolveResult<'_>) ensures rr_view(q) == (match pv { Some(p) => AbsRes::Unknown(p), None => AbsRes::Unbound }) { Self::maybe_unknown(prefix) })
    }
//@end
//@extract name::NamespaceResolver::maybe_unknown | src/name.rs :: impl NamespaceResolver :: fn maybe_unknown | serves=C05
    pub fn maybe_unknown(prefix: Option<Prefix>) -> (r: ResolveResult<'static>)
        // an undeclared prefix is reported as unknown; an unprefixed name is unbound
        ensures match prefix { Some(p) => rr_view(r) matches AbsRes::Unknown(a) && a =~= p.0@, None => rr_view(r) is Unbound }
    {
        proof { axiom_cloned_u8(); }
        match prefix {
            Some(p) => ResolveResult::Unknown(p.into_inner().to_vec()),
            None => ResolveResult::Unbound,
        }
    }
//@end

//@extract name::NamespaceResolver::pop | src/name.rs :: impl NamespaceResolver :: fn pop | serves=C05
//@rewrite self.bindings.iter().rposition(|n| ==> shim::rposition_ref(self.bindings.as_slice(), |n: &NamespaceEntry|
 pub fn pop(&mut self)
        // (a stray end tag accepted under allow_unmatched_ends would drive the level below zero: outside C05's domain)
        requires old(self).wf(), old(self).nesting_level >= 1,
        ensures
            final(self).wf(),
            final(self).nesting_level == old(self).nesting_level - 1,
            // exactly the bindings declared deeper than the new level are removed, nothing else changes
            ({ let k = final(self).bindings@.len() as int;
               &&& k <= old(self).bindings@.len()
               &&& final(self).bindings@ == old(self).bindings@.subrange(0, k)
               &&& final(self).buffer@.len() <= old(self).buffer@.len()
               &&& final(self).buffer@ == old(self).buffer@.subrange(0, final(self).buffer@.len() as int)
               &&& forall|i: int| 0 <= i < k ==> (#[trigger] old(self).bindings@[i]).level <= final(self).nesting_level
               &&& forall|i: int| k <= i < old(self).bindings@.len() ==> (#[trigger] old(self).bindings@[i]).level > final(self).nesting_level }),
 {
        self.nesting_level -= 1;
        let current_level = self.nesting_level;
        // from the back (most deeply nested scope), look for the first scope that is still valid
        match shim::rposition_ref(self.bindings.as_slice(), |n: &NamespaceEntry| -> (r: bool) ensures r == (n.level <= current_level) { n.level <= current_level }) {
            // none of the namespaces are valid, remove all of them
            None => {
                self.buffer.clear();
                self.bindings.clear();
            }
            // drop all namespaces past the last valid namespace
            Some(last_valid_pos) => {
                proof { assert(self.bindings.len() == self.bindings@.len()); }
                if let Some(len) = self.bindings.get(last_valid_pos + 1).map(|n: &NamespaceEntry| -> (r: usize) ensures r == n.start { n.start }) {
                    self.buffer.truncate(len);
                    self.bindings.truncate(last_valid_pos + 1);
                }
            }
        }
    }
//@end
}

//@extract name::PrefixDeclaration | src/name.rs :: enum PrefixDeclaration | serves=C05
 pub enum PrefixDeclaration<'a> {
    /// XML attribute binds a default namespace. Corresponds to `xmlns` in `xmlns="..."`
    Default,
    /// XML attribute binds a specified prefix to a namespace. Corresponds to a
    /// `prefix` in `xmlns:prefix="..."`, which is stored as payload of this variant.
    Named(&'a [u8]),
}
//@end
//@extract name::PrefixIter | src/name.rs :: struct PrefixIter | serves=C05
 pub struct PrefixIter<'a> {
    pub resolver: &'a NamespaceResolver,
    pub bindings_cursor: usize,
}
//@end
// (the method of `impl Iterator for PrefixIter` is hosted in an inherent impl)
impl<'a> PrefixIter<'a> {
//@extract name::PrefixIter::size_hint | src/name.rs :: impl<'a> Iterator for PrefixIter<'a> :: fn size_hint | serves=C05
    pub fn size_hint(&self) -> (r: (usize, Option<usize>))
        // the subtraction needs the cursor inside the list: true while the two reserved bindings are there (the cursor starts behind
        // them); NOT true after a stray end tag at depth 0 has emptied the list (config allow_unmatched_ends: findings/outside_properties)
        requires self.bindings_cursor <= self.resolver.bindings@.len()
        ensures r.0 == 0, r.1 == Some((self.resolver.bindings@.len() - self.bindings_cursor) as usize)
    {
        // Real count could be less if some namespaces was overridden
        (0, Some(self.resolver.bindings.len() - self.bindings_cursor))
    }
//@end
//@extract name::PrefixIter::next | src/name.rs :: impl<'a> Iterator for PrefixIter<'a> :: fn next | serves=C05
//@rewrite self.resolver.bindings[self.bindings_cursor..] .iter() .any(|ne| ==> shim::any_ref(&self.resolver.bindings[self.bindings_cursor..], |ne: &NamespaceEntry|
    #[verifier::loop_isolation(false)]
    pub fn next(&mut self) -> (r: Option<(PrefixDeclaration<'a>, Namespace<'a>)>)
        requires old(self).resolver.wf()
        ensures
            final(self).resolver == old(self).resolver,
            ({
                let bs = old(self).resolver.bindings@;
                let buf = old(self).resolver.buffer@;
                match r {
                    // the next binding that is in effect: bound and not re-declared later; it is exactly what
                    // resolving its prefix yields (the listing agrees with resolution)
                    Some((pd, ns)) => exists|i: int| old(self).bindings_cursor <= i < bs.len() && final(self).bindings_cursor == i + 1
                        && #[trigger] listed(bs, buf, i)
                        && (forall|j: int| old(self).bindings_cursor <= j < i ==> !listed(bs, buf, j))
                        && ns.0@ == bs[i].spec_value(buf) && pd_view(pd) == bs[i].spec_prefix(buf)
                        && spec_resolve(bs, buf, bs[i].spec_prefix(buf), true) == AbsRes::Bound(ns.0@),
                    None => forall|j: int| old(self).bindings_cursor <= j < bs.len() ==> !listed(bs, buf, j),
                }
            }),
    {
        let ghost bs = self.resolver.bindings@;
        let ghost buf = self.resolver.buffer@;
        let ghost c0 = self.bindings_cursor;
        loop
            invariant
                self.resolver == old(self).resolver, c0 <= self.bindings_cursor,
                forall|j: int| c0 <= j < self.bindings_cursor && j < bs.len() ==> !listed(bs, buf, j),
            decreases bs.len() - self.bindings_cursor
        { match self.resolver.bindings.get(self.bindings_cursor) { Some(namespace_entry) => {
            let ghost i = self.bindings_cursor as int;
            proof { assert(self.resolver.bindings.len() == bs.len()); }
            self.bindings_cursor += 1; // We increment for next read

            // We check if the key has not been overridden by having a look
            // at the namespaces declared after in the array
            let prefix = namespace_entry.prefix(&self.resolver.buffer);
            if shim::any_ref(&self.resolver.bindings[self.bindings_cursor..], |ne: &NamespaceEntry| -> (b: bool)
                    requires ne.start + ne.prefix_len + ne.value_len <= self.resolver.buffer@.len()
                    ensures b == (pfx_view(prefix) == ne.spec_prefix(buf))
                { prefix == ne.prefix(&self.resolver.buffer) })
            {
                proof {
                    let tail = bs.subrange(i + 1, bs.len() as int);
                    let k = choose|k: int| 0 <= k < tail.len() && pfx_view(prefix) == (#[trigger] tail[k]).spec_prefix(buf);
                    assert(bs[i + 1 + k].spec_prefix(buf) == bs[i].spec_prefix(buf));
                    assert(!listed(bs, buf, i));
                }
                continue; // Overridden
            }
            proof {
                let tail = bs.subrange(i + 1, bs.len() as int);
                assert forall|j: int| i < j < bs.len() implies (#[trigger] bs[j]).spec_prefix(buf) != bs[i].spec_prefix(buf) by {
                    assert(tail[j - i - 1] == bs[j]);
                }
            }
            let namespace = if let ResolveResult::Bound(namespace) =
                namespace_entry.namespace(&self.resolver.buffer)
            {
                namespace
            } else {
                proof { assert(!listed(bs, buf, i)); }
                continue; // We don't return unbound namespaces
            };
            proof { assert(listed(bs, buf, i)); lemma_listed_resolves(bs, buf, i); }
            let prefix = if let Some(Prefix(prefix)) = prefix {
                PrefixDeclaration::Named(prefix)
            } else {
                PrefixDeclaration::Default
            };
            return Some((prefix, namespace));
        } _ => { break; } } }
        None // We have exhausted the array
    }
//@end
}

/// the namespace declarations of the element obey the reserved names (push succeeds): a function of the tag alone
pub open spec fn push_ok<'a>(e: BytesStart<'a>) -> bool {
    decls_from(e.buf@, attr_items(State::Next(e.name_len), false, e.buf@), 0) is Ok
}
/// what the namespace layer makes of the plain reader's result `ev`: it hands it on unchanged, except that a Start or
/// Empty tag with a forbidden namespace declaration becomes an error (C14: both serde sources go through here)
pub open spec fn passes<'i>(ev: Result<Event<'i>>, r: Result<Event<'i>>) -> bool {
    match ev {
        Ok(Event::Start(e)) => if push_ok(e) { r == ev } else { r is Err },
        Ok(Event::Empty(e)) => if push_ok(e) { r == ev } else { r is Err },
        _ => r == ev,
    }
}
/// one read of the namespace-aware reader, over the LOGICAL input only (C02): the plain reader's step relation
/// (event_post of T01) followed by `passes`
pub open(crate) spec fn ns_post<'i>(pre: ReaderState, rem: Seq<u8>, brem: Seq<u8>, post: ReaderState, rem2: Seq<u8>, faulted: bool, r: Result<Event<'i>>) -> bool {
    exists|ev: Result<Event<'i>>| #[trigger] passes(ev, r) && event_post(pre, rem, brem, post, rem2, ev, faulted)
        && stack_effect(pre, post, ev) && (ev matches Ok(x) ==> ev_wf(x))
        && (continues(ev) ==> measure(post, rem2) < measure(pre, rem) && post.offset + rem2.len() <= pre.offset + rem.len())
        && rem2.len() <= rem.len()
        && post.config == pre.config
}

/// a fresh reader has no open element
pub proof fn lemma_fresh_stack()
    ensures forall|st: ReaderState| #[trigger] crate::ctor_::fresh_state(st) ==> st.stack().len() == 0
{
    assert forall|st: ReaderState| #[trigger] crate::ctor_::fresh_state(st) implies st.stack().len() == 0 by {
        assert(st.stack() =~= Seq::<Seq<u8>>::empty());
    }
}
impl<R> NsReader<R> {
//@extract ns_reader::NsReader::new | src/reader/ns_reader.rs :: impl<R> NsReader<R> :: fn new | serves=C05,C14
    pub(crate) fn new(reader: Reader<R>) -> (r: Self)
        requires reader.inv(), reader.state.stack().len() == 0,
        // the reader as given, the resolver at level 0 with the reserved bindings, nothing pending: the scope invariant holds
        ensures r.reader == reader, r.inv(), !r.pending_pop, r.ns_resolver.nesting_level == 0,
    {
        proof { Self::lemma_inv_intro_all(); }
        Self {
            reader,
            ns_resolver: NamespaceResolver::default(),
            pending_pop: false,
        }
    }
//@end
//@extract ns_reader::NsReader::from_reader | src/reader/ns_reader.rs :: impl<R> NsReader<R> :: fn from_reader | serves=C14
 pub(crate) fn from_reader(reader: R) -> (r: Self)
        ensures r.reader.reader == reader, crate::ctor_::fresh_state(r.reader.state), r.inv(), !r.pending_pop,
 {
        proof { lemma_fresh_stack(); }
        Self::new(Reader::from_reader(reader))
    }
//@end
//@extract ns_reader::NsReader::config_mut | src/reader/ns_reader.rs :: impl<R> NsReader<R> :: fn config_mut | serves=C14
 pub(crate) fn config_mut(&mut self) -> (r: &mut Config)
        ensures *r == old(self).reader.state.config, final(self).reader.reader == old(self).reader.reader,
            final(self).reader.state == (ReaderState { config: *final(r), ..old(self).reader.state }),
            final(self).ns_resolver == old(self).ns_resolver, final(self).pending_pop == old(self).pending_pop,
 {
        self.reader.config_mut()
    }
//@end
//@extract ns_reader::NsReader::read_event_impl | src/reader/ns_reader.rs :: impl<R> NsReader<R> :: fn read_event_impl | serves=C05
    fn read_event_impl<'i, B>(&mut self, buf: B) -> (r: Result<Event<'i>>)
    where
        R: XmlSource<'i, B>,
        requires
            old(self).inv(),
            !(old(self).reader.state.state is Done) ==> old(self).reader.state.offset + old(self).reader.reader.remaining().len() <= u64::MAX,
            old(self).reader.reader.remaining().len() <= usize::MAX,
            // A-depth; C05 is stated for error-free reads of well-formed documents: stray end tags are not accepted
            old(self).ns_resolver.nesting_level < i32::MAX - 1,
            !old(self).reader.state.config.allow_unmatched_ends,
        ensures
            // the scope discipline is kept by every successful read
            r is Ok ==> final(self).inv(),
            final(self).reader.state.config == old(self).reader.state.config,
            // C14: the result is the plain reader's step on the logical input, passed through the namespace check
            ns_post(old(self).reader.state, old(self).reader.reader.remaining(), old(self).reader.reader.after_bom(),
                final(self).reader.state, final(self).reader.reader.remaining(), final(self).reader.reader.faults() > old(self).reader.reader.faults(), r),
    {
        self.pop();
        let event = self.reader.read_event_impl(buf);
        self.process_event(event)
    }
//@end

//@extract ns_reader::NsReader::pop | src/reader/ns_reader.rs :: impl<R> NsReader<R> :: fn pop | serves=C05
 fn pop(&mut self)
        requires old(self).inv()
        ensures final(self).inv(), !final(self).pending_pop, final(self).reader == old(self).reader,
            final(self).ns_resolver.nesting_level <= old(self).ns_resolver.nesting_level,
 {
        if self.pending_pop {
            self.ns_resolver.pop();
            self.pending_pop = false;
        }
    }
//@end

//@extract ns_reader::NsReader::resolve | src/reader/ns_reader.rs :: impl<R> NsReader<R> :: fn resolve | serves=C05
 pub(crate) fn resolve<'n>(&self, name: QName<'n>, attribute: bool) -> (r: (ResolveResult, LocalName<'n>))
        requires self.ns_resolver.wf()
        // unprefixed attributes are never in the default namespace
        ensures rr_view(r.0) == spec_resolve(self.ns_resolver.bindings@, self.ns_resolver.buffer@, spec_prefix_of(name.0@), !attribute),
 {
        self.ns_resolver.resolve(name, !attribute)
    }
//@end
//@extract ns_reader::NsReader::resolve_element | src/reader/ns_reader.rs :: impl<R> NsReader<R> :: fn resolve_element | serves=C05
 pub(crate) fn resolve_element<'n>(&self, name: QName<'n>) -> (r: (ResolveResult, LocalName<'n>))
        requires self.ns_resolver.wf()
        ensures rr_view(r.0) == spec_resolve(self.ns_resolver.bindings@, self.ns_resolver.buffer@, spec_prefix_of(name.0@), true),
 {
        self.ns_resolver.resolve(name, true)
    }
//@end
//@extract ns_reader::NsReader::resolve_attribute | src/reader/ns_reader.rs :: impl<R> NsReader<R> :: fn resolve_attribute | serves=C05
 pub(crate) fn resolve_attribute<'n>(&self, name: QName<'n>) -> (r: (ResolveResult, LocalName<'n>))
        requires self.ns_resolver.wf()
        ensures rr_view(r.0) == spec_resolve(self.ns_resolver.bindings@, self.ns_resolver.buffer@, spec_prefix_of(name.0@), false),
 {
        self.ns_resolver.resolve(name, false)
    }
//@end

//@extract ns_reader::NsReader::process_event | src/reader/ns_reader.rs :: impl<R> NsReader<R> :: fn process_event | serves=C05 n11=1,2
 fn process_event<'i>(&mut self, event: Result<Event<'i>>) -> (r: Result<Event<'i>>)
        requires !old(self).pending_pop, old(self).ns_resolver.wf(), old(self).ns_resolver.nesting_level < i32::MAX - 1,
            // events handed out by the reader are well-formed values (C03)
            event matches Ok(ev) ==> ev_wf(ev),
        ensures
            final(self).reader == old(self).reader, final(self).ns_resolver.wf(),
            event is Err ==> r is Err,
            r is Ok ==> r == event,
            passes(event, r),
            r is Ok ==> match event {
                Ok(Event::Start(_)) => final(self).ns_resolver.nesting_level == old(self).ns_resolver.nesting_level + 1 && !final(self).pending_pop,
                Ok(Event::Empty(_)) => final(self).ns_resolver.nesting_level == old(self).ns_resolver.nesting_level + 1 && final(self).pending_pop,
                Ok(Event::End(_)) => final(self).ns_resolver.nesting_level == old(self).ns_resolver.nesting_level && final(self).pending_pop,
                _ => final(self).ns_resolver.nesting_level == old(self).ns_resolver.nesting_level && !final(self).pending_pop,
            },
 {
        match event {
            Ok(Event::Start(e)) => {
                match self.ns_resolver.push(&e) { Ok(v__) => v__, Err(e__) => return Err(From::from(e__)) };
                Ok(Event::Start(e))
            }
            Ok(Event::Empty(e)) => {
                match self.ns_resolver.push(&e) { Ok(v__) => v__, Err(e__) => return Err(From::from(e__)) };
                // notify next `read_event_impl()` invocation that it needs to pop this
                // namespace scope
                self.pending_pop = true;
                Ok(Event::Empty(e))
            }
            Ok(Event::End(e)) => {
                // notify next `read_event_impl()` invocation that it needs to pop this
                // namespace scope
                self.pending_pop = true;
                Ok(Event::End(e))
            }
            e => e,
        }
    }
//@end
}

/// the namespace reported with an event: for Start / Empty / End the resolution of the element name (default namespace applies) in
/// the given scopes, `Unbound` for every other event
pub open spec fn resolved_post<'i>(res: NamespaceResolver, ev: Event<'i>, rr: ResolveResult) -> bool {
    match ev {
        Event::Start(e) => rr_view(rr) == spec_resolve(res.bindings@, res.buffer@, spec_prefix_of(e.buf@.subrange(0, e.name_len as int)), true),
        Event::Empty(e) => rr_view(rr) == spec_resolve(res.bindings@, res.buffer@, spec_prefix_of(e.buf@.subrange(0, e.name_len as int)), true),
        Event::End(e) => rr_view(rr) == spec_resolve(res.bindings@, res.buffer@, spec_prefix_of(e.name@), true),
        _ => rr is Unbound,
    }
}
impl NamespaceResolver {
//@extract name::NamespaceResolver::iter | src/name.rs :: impl NamespaceResolver :: fn iter | serves=C05
 pub fn iter(&self) -> (r: PrefixIter)
        ensures r.resolver == self, r.bindings_cursor == 2
 {
        PrefixIter {
            resolver: self,
            // We initialize the cursor to 2 to skip the two default namespaces xml: and xmlns:
            bindings_cursor: 2,
        }
    }
//@end
}
impl<R> NsReader<R> {
//@extract ns_reader::NsReader::resolve_event | src/reader/ns_reader.rs :: impl<R> NsReader<R> :: fn resolve_event | serves=C05
 pub(crate) fn resolve_event<'i>(
        &mut self,
        event: Result<Event<'i>>,
    ) -> (r: Result<(ResolveResult, Event<'i>)>)
        requires event matches Ok(ev) ==> old(self).ns_resolver.wf() && ev_wf(ev),
        // C05: the event is handed on unchanged; a Start, Empty or End event comes with the namespace its (element) name resolves to
        // in the CURRENT scopes -- the default namespace applies --, every other event with `Unbound`; the reader is not touched
        ensures *final(self) == *old(self),
            match event {
                Err(e) => r == Result::<(ResolveResult, Event<'i>)>::Err(e),
                Ok(ev) => r matches Ok(p) && p.1 == ev && (match ev {
                    Event::Start(e) => rr_view(p.0) == spec_resolve(old(self).ns_resolver.bindings@, old(self).ns_resolver.buffer@, spec_prefix_of(e.buf@.subrange(0, e.name_len as int)), true),
                    Event::Empty(e) => rr_view(p.0) == spec_resolve(old(self).ns_resolver.bindings@, old(self).ns_resolver.buffer@, spec_prefix_of(e.buf@.subrange(0, e.name_len as int)), true),
                    Event::End(e) => rr_view(p.0) == spec_resolve(old(self).ns_resolver.bindings@, old(self).ns_resolver.buffer@, spec_prefix_of(e.name@), true),
                    _ => p.0 is Unbound,
                }),
            },
    {
        match event {
            Ok(Event::Start(e)) => Ok((self.ns_resolver.find(e.name()), Event::Start(e))),
            Ok(Event::Empty(e)) => Ok((self.ns_resolver.find(e.name()), Event::Empty(e))),
            Ok(Event::End(e)) => Ok((self.ns_resolver.find(e.name()), Event::End(e))),
            Ok(e) => Ok((ResolveResult::Unbound, e)),
            Err(e) => Err(e),
        }
    }
//@end
//@extract ns_reader::NsReader::prefixes | src/reader/ns_reader.rs :: impl<R> NsReader<R> :: fn prefixes | serves=C05
 pub(crate) fn prefixes(&self) -> (r: PrefixIter)
        // the listing starts behind the two reserved bindings (`xml`, `xmlns`)
        ensures r.resolver == &self.ns_resolver, r.bindings_cursor == 2
 {
        self.ns_resolver.iter()
    }
//@end
}
impl<R: BufRead> NsReader<R> {
//@extract ns_reader::NsReader::read_resolved_event_into | src/reader/ns_reader.rs :: impl<R: BufRead> NsReader<R> :: fn read_resolved_event_into | serves=C05
 pub(crate) fn read_resolved_event_into<'b>(
        &mut self,
        buf: &'b mut Vec<u8>,
    ) -> (r: Result<(ResolveResult, Event<'b>)>)
        requires
            old(self).inv(),
            !(old(self).reader.state.state is Done) ==> old(self).reader.state.offset + old(self).reader.reader.remaining().len() <= u64::MAX,
            old(self).reader.reader.remaining().len() <= usize::MAX,
            // A-depth; C05 is stated for error-free reads of well-formed documents: stray end tags are not accepted
            old(self).ns_resolver.nesting_level < i32::MAX - 1,
            !old(self).reader.state.config.allow_unmatched_ends,
        // C05: the event of read_event* (ns_post), together with the namespace its name resolves to in the scopes in force AFTER that
        // read (resolved_post)
        ensures r is Ok ==> final(self).inv(),
            final(self).reader.state.config == old(self).reader.state.config,
            match r {
                Ok(p) => ns_post(old(self).reader.state, old(self).reader.reader.remaining(), old(self).reader.reader.after_bom(),
                        final(self).reader.state, final(self).reader.reader.remaining(), final(self).reader.reader.faults() > old(self).reader.reader.faults(), Ok(p.1))
                    && resolved_post(final(self).ns_resolver, p.1, p.0),
                Err(e) => ns_post(old(self).reader.state, old(self).reader.reader.remaining(), old(self).reader.reader.after_bom(),
                        final(self).reader.state, final(self).reader.reader.remaining(), final(self).reader.reader.faults() > old(self).reader.reader.faults(), Err(e)),
            },
    {
        let event = self.read_event_impl(buf);
        self.resolve_event(event)
    }
//@end
//@extract ns_reader::NsReader::read_event_into | src/reader/ns_reader.rs :: impl<R: BufRead> NsReader<R> :: fn read_event_into | serves=C05
 pub(crate) fn read_event_into<'b>(&mut self, buf: &'b mut Vec<u8>) -> (r: Result<Event<'b>>)
        requires
            old(self).inv(),
            !(old(self).reader.state.state is Done) ==> old(self).reader.state.offset + old(self).reader.reader.remaining().len() <= u64::MAX,
            old(self).reader.reader.remaining().len() <= usize::MAX,
            // A-depth; C05 is stated for error-free reads of well-formed documents: stray end tags are not accepted
            old(self).ns_resolver.nesting_level < i32::MAX - 1,
            !old(self).reader.state.config.allow_unmatched_ends,
        ensures r is Ok ==> final(self).inv(),
            final(self).reader.state.config == old(self).reader.state.config,
            ns_post(old(self).reader.state, old(self).reader.reader.remaining(), old(self).reader.reader.after_bom(),
                final(self).reader.state, final(self).reader.reader.remaining(), final(self).reader.reader.faults() > old(self).reader.reader.faults(), r),
 {
        self.read_event_impl(buf)
    }
//@end

//@extract ns_reader::NsReader::read_to_end_into | src/reader/ns_reader.rs :: impl<R: BufRead> NsReader<R> :: fn read_to_end_into | serves=C05 n11=1
 pub(crate) fn read_to_end_into(&mut self, end: QName, buf: &mut Vec<u8>) -> (r: Result<Span>)
        requires
            old(self).inv(),
            !(old(self).reader.state.state is Done) ==> old(self).reader.state.offset + old(self).reader.reader.remaining().len() <= u64::MAX,
            old(self).reader.reader.remaining().len() <= usize::MAX,
            // A-depth; C05 is stated for error-free reads of well-formed documents: stray end tags are not accepted
            old(self).ns_resolver.nesting_level < i32::MAX - 1,
            !old(self).reader.state.config.allow_unmatched_ends,
            // the caller skips the element whose Start event it has just received
            skip_domain(old(self).reader.state, end.0@),
        ensures
            // C05: declarations stop applying once their element has ended -- also when its content was skipped
            r is Ok ==> final(self).inv() && final(self).reader.state.stack() == old(self).reader.state.stack().drop_last(),
 {
        // According to the https://www.w3.org/TR/xml11/#dt-etag, end name should
        // match literally the start name. See `Config::check_end_names` documentation
        let span = match self.reader.read_to_end_into(end, buf) { Ok(v__) => v__, Err(e__) => return Err(From::from(e__)) };
        // `read_to_end_into` consumed the end tag, so nobody will see an `End`
        // event for it: leave the namespace scope of the skipped element here
        self.ns_resolver.pop();
        Ok(span)
    }
//@end

// TWINS: the hand-written asynchronous copies (src/reader/async_tokio.rs) of the two functions above, with
// `async` / `.await` erased (A-await) and their names mapped, verified against the SAME annotations.
//@extract ns_reader::NsReader::read_to_end_into#async | src/reader/async_tokio.rs :: impl<R: AsyncBufRead + Unpin> NsReader<R> :: fn read_to_end_into_async | clone_of=ns_reader::NsReader::read_to_end_into rename=read_to_end_into:read_to_end_into__async drop=async,await serves=C05 nocanary=1
//@rewrite fn read_to_end_into_async ==> fn read_to_end_into
//@rewrite self.reader.read_to_end_into_async( ==> self.reader.read_to_end_into(
//@end
//@extract ns_reader::NsReader::read_event_impl#async | src/reader/async_tokio.rs :: impl<R: AsyncBufRead + Unpin> NsReader<R> :: fn read_event_into_async | clone_of=ns_reader::NsReader::read_event_impl rename=read_event_impl:read_event_impl__async drop=async,await serves=C05 nocanary=1
//@rewrite fn read_event_into_async ==> fn read_event_impl
//@rewrite self.reader.read_event_into_async( ==> self.reader.read_event_impl(
//@end
//@extract ns_reader::NsReader::read_resolved_event_into#async | src/reader/async_tokio.rs :: impl<R: AsyncBufRead + Unpin> NsReader<R> :: fn read_resolved_event_into_async | clone_of=ns_reader::NsReader::read_resolved_event_into rename=read_resolved_event_into:read_resolved_event_into__async drop=async,await serves=C05 nocanary=1
//@rewrite fn read_resolved_event_into_async<'ns, 'b> ==> fn read_resolved_event_into<'b>
//@rewrite &'ns mut self, ==> &mut self,
//@rewrite ResolveResult<'ns> ==> ResolveResult
//@rewrite self.read_event_into_async(buf) ==> self.read_event_impl(buf)
//@end
}

impl<'i> NsReader<&'i [u8]> {
//@extract ns_reader::NsReader::from_str | src/reader/ns_reader.rs :: impl<'i> NsReader<&'i [u8]> :: fn from_str | serves=C14
 pub(crate) fn from_str(s: &'i str) -> (r: Self)
        ensures r.reader.reader@ == s.spec_bytes(), crate::ctor_::fresh_state(r.reader.state), r.inv(), !r.pending_pop,
 {
        proof { lemma_fresh_stack(); }
        Self::new(Reader::from_str(s))
    }
//@end
//@extract ns_reader::NsReader::read_resolved_event | src/reader/ns_reader.rs :: impl<'i> NsReader<&'i [u8]> :: fn read_resolved_event | serves=C05
 pub(crate) fn read_resolved_event(&mut self) -> (r: Result<(ResolveResult, Event<'i>)>)
        requires
            old(self).inv(),
            !(old(self).reader.state.state is Done) ==> old(self).reader.state.offset + old(self).reader.reader.remaining().len() <= u64::MAX,
            old(self).reader.reader.remaining().len() <= usize::MAX,
            // A-depth; C05 is stated for error-free reads of well-formed documents: stray end tags are not accepted
            old(self).ns_resolver.nesting_level < i32::MAX - 1,
            !old(self).reader.state.config.allow_unmatched_ends,
        // C05: the event of read_event* (ns_post), together with the namespace its name resolves to in the scopes in force AFTER that
        // read (resolved_post)
        ensures r is Ok ==> final(self).inv(),
            final(self).reader.state.config == old(self).reader.state.config,
            match r {
                Ok(p) => ns_post(old(self).reader.state, old(self).reader.reader.remaining(), old(self).reader.reader.after_bom(),
                        final(self).reader.state, final(self).reader.reader.remaining(), final(self).reader.reader.faults() > old(self).reader.reader.faults(), Ok(p.1))
                    && resolved_post(final(self).ns_resolver, p.1, p.0),
                Err(e) => ns_post(old(self).reader.state, old(self).reader.reader.remaining(), old(self).reader.reader.after_bom(),
                        final(self).reader.state, final(self).reader.reader.remaining(), final(self).reader.reader.faults() > old(self).reader.reader.faults(), Err(e)),
            },
 {
        let event = self.read_event_impl(());
        self.resolve_event(event)
    }
//@end
//@extract ns_reader::NsReader::read_event | src/reader/ns_reader.rs :: impl<'i> NsReader<&'i [u8]> :: fn read_event | serves=C05
 pub(crate) fn read_event(&mut self) -> (r: Result<Event<'i>>)
        requires
            old(self).inv(),
            !(old(self).reader.state.state is Done) ==> old(self).reader.state.offset + old(self).reader.reader.remaining().len() <= u64::MAX,
            old(self).reader.reader.remaining().len() <= usize::MAX,
            // A-depth; C05 is stated for error-free reads of well-formed documents: stray end tags are not accepted
            old(self).ns_resolver.nesting_level < i32::MAX - 1,
            !old(self).reader.state.config.allow_unmatched_ends,
        ensures r is Ok ==> final(self).inv(),
            final(self).reader.state.config == old(self).reader.state.config,
            ns_post(old(self).reader.state, old(self).reader.reader.remaining(), old(self).reader.reader.after_bom(),
                final(self).reader.state, final(self).reader.reader.remaining(), final(self).reader.reader.faults() > old(self).reader.reader.faults(), r),
 {
        self.read_event_impl(())
    }
//@end

//@extract ns_reader::NsReader::read_text | src/reader/ns_reader.rs :: impl<'i> NsReader<&'i [u8]> :: fn read_text | serves=C05,C12
 fn read_text(&mut self, end: QName) -> (r: Result<Cow<'i, str>>)
        requires
            old(self).inv(),
            !(old(self).reader.state.state is Done) ==> old(self).reader.state.offset + old(self).reader.reader.remaining().len() <= u64::MAX,
            old(self).reader.reader.remaining().len() <= usize::MAX,
            // A-depth; C05 is stated for error-free reads of well-formed documents: stray end tags are not accepted
            old(self).ns_resolver.nesting_level < i32::MAX - 1,
            !old(self).reader.state.config.allow_unmatched_ends,
            // the caller skips the element whose Start event it has just received
            skip_domain(old(self).reader.state, end.0@),
            old(self).reader.state.state is InsideText,
        ensures
            // C05: declarations stop applying once their element has ended -- also when its content was skipped
            r is Ok ==> final(self).inv() && final(self).reader.state.stack() == old(self).reader.state.stack().drop_last(),
 {
        let text = self.reader.read_text(end)?;
        // `read_text` consumed the end tag, so nobody will see an `End`
        // event for it: leave the namespace scope of the skipped element here
        self.ns_resolver.pop();
        Ok(text)
    }
//@end

//@extract ns_reader::NsReader::read_to_end | src/reader/ns_reader.rs :: impl<'i> NsReader<&'i [u8]> :: fn read_to_end | serves=C05 n11=1
 pub(crate) fn read_to_end(&mut self, end: QName) -> (r: Result<Span>)
        requires
            old(self).inv(),
            !(old(self).reader.state.state is Done) ==> old(self).reader.state.offset + old(self).reader.reader.remaining().len() <= u64::MAX,
            old(self).reader.reader.remaining().len() <= usize::MAX,
            // A-depth; C05 is stated for error-free reads of well-formed documents: stray end tags are not accepted
            old(self).ns_resolver.nesting_level < i32::MAX - 1,
            !old(self).reader.state.config.allow_unmatched_ends,
            // the caller skips the element whose Start event it has just received
            skip_domain(old(self).reader.state, end.0@),
        ensures
            // C05: declarations stop applying once their element has ended -- also when its content was skipped
            r is Ok ==> final(self).inv() && final(self).reader.state.stack() == old(self).reader.state.stack().drop_last(),
 {
        // According to the https://www.w3.org/TR/xml11/#dt-etag, end name should
        // match literally the start name. See `Config::check_end_names` documentation
        let span = match self.reader.read_to_end(end) { Ok(v__) => v__, Err(e__) => return Err(From::from(e__)) };
        // `read_to_end` consumed the end tag, so nobody will see an `End`
        // event for it: leave the namespace scope of the skipped element here
        self.ns_resolver.pop();
        Ok(span)
    }
//@end
}
// ---- `xsi:nil` (src/events/attributes.rs, Attributes::has_nil; used by the serde deserializer for every Start tag it looks at) ----
/// verified shim for `Iterator::any` over the attribute iterator (N2): C03 / C07 -- it TERMINATES (every item moves the iterator
/// on: `ahead()` decreases) and needs nothing of the tag but the iterator's invariant: malformed and duplicated attributes included
pub fn any_attr<'a, F: Fn(core::result::Result<Attribute<'a>, AttrError>) -> bool>(it: &mut Attributes<'a>, f: F) -> (r: bool)
    requires old(it).inv(), forall|x: core::result::Result<Attribute<'a>, AttrError>| f.requires((x,)),
    ensures final(it).inv(), final(it).bytes == old(it).bytes,
{
    loop
        invariant it.inv(), it.bytes == old(it).bytes, forall|x: core::result::Result<Attribute<'a>, AttrError>| f.requires((x,)),
        decreases it.ahead()
    {
        match it.next() {
            None => { return false; }
            Some(x) => { if f(x) { return true; } }
        }
    }
}
/// std: `AsRef<[u8]> for Cow<[u8]>` hands out the bytes it holds
pub assume_specification<'a, 'b, T: ?Sized + ToOwned> [<Cow<'a, T> as core::convert::AsRef<T>>::as_ref] (c: &'b Cow<'a, T>) -> (r: &'b T)
    ensures r == cow_target(c);
pub axiom fn axiom_cow_mut_bytes_ns()
    ensures forall|c: &Cow<'_, [u8]>| (#[trigger] cow_target(c))@ == c@;
impl<'a> Attribute<'a> {
//@extract attributes::Attribute::as_bool | src/events/attributes.rs :: impl<'a> Attribute<'a> :: fn as_bool | serves=C05,C07 n13=1
 pub fn as_bool(&self) -> (r: Option<bool>)
        // XML Schema boolean: "1" / "true", "0" / "false", nothing else
        ensures r == (if self.value@ =~= seq![0x31u8] || self.value@ =~= seq![0x74u8, 0x72, 0x75, 0x65] { Some(true) }
            else if self.value@ =~= seq![0x30u8] || self.value@ =~= seq![0x66u8, 0x61, 0x6c, 0x73, 0x65] { Some(false) } else { None }),
 {
        proof { axiom_cow_mut_bytes_ns(); axiom_seq_eq_u8(); }
        { let __m13_1 = self.value.as_ref() ; proof { assert(__m13_1@ == self.value@); assert([0x31u8]@ =~= seq![0x31u8]); assert([0x74u8, 0x72, 0x75, 0x65]@ =~= seq![0x74u8, 0x72, 0x75, 0x65]); assert([0x30u8]@ =~= seq![0x30u8]); assert([0x66u8, 0x61, 0x6c, 0x73, 0x65]@ =~= seq![0x66u8, 0x61, 0x6c, 0x73, 0x65]); } if bytes_eq(__m13_1, &[b'1']) || bytes_eq(__m13_1, &[b't', b'r', b'u', b'e']) { Some(true) } else if bytes_eq(__m13_1, &[b'0']) || bytes_eq(__m13_1, &[b'f', b'a', b'l', b's', b'e']) { Some(false) } else { None } }
    }
//@end
}
impl<'a> Attributes<'a> {
//@extract attributes::Attributes::has_nil | src/events/attributes.rs :: impl<'a> Attributes<'a> :: fn has_nil | serves=C05,C07,C14 n13=1
//@rewrite use crate::name::ResolveResult::*; ==> 
//@rewrite self.any(|attr| { ==> any_attr(self, |attr: core::result::Result<Attribute<'a>, AttrError>| {
//@rewrite Bound(Namespace( ==> ResolveResult::Bound(Namespace(
 pub(crate) fn has_nil<R>(&mut self, reader: &NsReader<R>) -> (r: bool)
        // C03 / C07: looking for `xsi:nil` terminates and never panics, whatever the tag contains (errors of the iterator are skipped)
        requires old(self).inv(), reader.ns_resolver.wf(),
            // C14: `xsi:nil` is looked up with the XML attribute rules -- by BOTH event sources (what they hand over is `attributes()`, never the
            // lenient HTML iterator; seed C14_j)
            !old(self).state.html,
        ensures final(self).inv(), final(self).bytes == old(self).bytes,
 {
        any_attr(self, |attr: core::result::Result<Attribute<'a>, AttrError>| {
            if let Ok(attr) = attr {
                match reader.resolve_attribute(attr.key) {
                    (
                        ResolveResult::Bound(Namespace(__b13_1)),
                        LocalName(__b13_2),
                    ) if bytes_eq(__b13_1, &[b'h', b't', b't', b'p', b':', b'/', b'/', b'w', b'w', b'w', b'.', b'w', b'3', b'.', b'o', b'r', b'g', b'/', b'2', b'0', b'0', b'1', b'/', b'X', b'M', b'L', b'S', b'c', b'h', b'e', b'm', b'a', b'-', b'i', b'n', b's', b't', b'a', b'n', b'c', b'e']) && bytes_eq(__b13_2, &[b'n', b'i', b'l']) => attr.as_bool().unwrap_or_default() ,
                    _ => false ,
                }
            } else {
                false
            }
        })
    }
//@end
}
}
