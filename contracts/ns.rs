// ---------------------------------------------------------------------------------------------
// U-ns: NsReader scope discipline (src/reader/ns_reader.rs) and NamespaceResolver (src/name.rs).
// C05: a namespace scope is opened for every Start/Empty event and closed when the element ends,
// also when its content is skipped with read_to_end / read_text.
// ---------------------------------------------------------------------------------------------

pub mod ns_ {
use super::*;
use vstd::prelude::*;
pub type Result<T> = core::result::Result<T, Error>;
pub type Span = core::ops::Range<u64>;

//@extract name::NamespaceEntry | src/name.rs :: struct NamespaceEntry | serves=C05
pub struct NamespaceEntry {
    /// Index of the namespace in the buffer
    pub start: usize,
    /// Length of the prefix
    /// * if greater than zero, then binds this namespace to the slice
    ///   `[start..start + prefix_len]` in the buffer.
    /// * else defines the current default namespace.
    pub prefix_len: usize,
    /// The length of a namespace name (the URI) of this namespace declaration.
    /// Name started just after prefix and extend for `value_len` bytes.
    ///
    /// The XML standard [specifies] that an empty namespace value 'removes' a namespace declaration
    /// for the extent of its scope. For prefix declarations that's not very interesting, but it is
    /// vital for default namespace declarations. With `xmlns=""` you can revert back to the default
    /// behaviour of leaving unqualified element names unqualified.
    ///
    /// [specifies]: https://www.w3.org/TR/xml-names11/#scoping
    pub value_len: usize,
    /// Level of nesting at which this namespace was declared. The declaring element is included,
    /// i.e., a declaration on the document root has `level = 1`.
    /// This is used to pop the namespace when the element gets closed.
    pub level: i32,
}
//@end

//@extract name::NamespaceResolver | src/name.rs :: struct NamespaceResolver | serves=C05
 pub struct NamespaceResolver {
    /// Buffer that contains names of namespace prefixes (the part between `xmlns:`
    /// and an `=`) and namespace values.
    pub buffer: Vec<u8>,
    /// A stack of namespace bindings to prefixes that currently in scope
    pub bindings: Vec<NamespaceEntry>,
    /// The number of open tags at the moment. We need to keep track of this to know which namespace
    /// declarations to remove when we encounter an `End` event.
    pub nesting_level: i32,
}
//@end

//@extract ns_reader::NsReader | src/reader/ns_reader.rs :: struct NsReader | serves=C05
 pub struct NsReader<R> {
    /// An XML reader
    pub(super) reader: Reader<R>,
    /// A buffer to manage namespaces
    pub(super) ns_resolver: NamespaceResolver,
    /// We cannot pop data from the namespace stack until returned `Empty` or `End`
    /// event will be processed by the user, so we only mark that we should that
    /// in the next [`Self::read_event_impl()`] call.
    pub pending_pop: bool,
}
//@end

impl NamespaceResolver {
    /// assumed contract (Attributes iteration is outside the Verus subset, see C11): whatever the
    /// attributes declare, the nesting level is incremented first -- also when a reserved-prefix error is returned
    #[verifier::external_body]
    pub fn push(&mut self, start: &BytesStart) -> (r: core::result::Result<(), NamespaceError>)
        requires old(self).nesting_level < i32::MAX, old(self).wf()
        ensures final(self).wf(), final(self).nesting_level == old(self).nesting_level + 1,
            // bindings already in scope are untouched; whatever is added belongs to the new level
            final(self).bindings@.len() >= old(self).bindings@.len(),
            final(self).bindings@.subrange(0, old(self).bindings@.len() as int) == old(self).bindings@,
            forall|i: int| old(self).bindings@.len() <= i < final(self).bindings@.len() ==> (#[trigger] final(self).bindings@[i]).level == final(self).nesting_level,
    { unimplemented!() }

//@extract name::NamespaceResolver::pop | src/name.rs :: impl NamespaceResolver :: fn pop | serves=C05
//@rewrite self.bindings.iter().rposition(|n| ==> shim::rposition_ref(self.bindings.as_slice(), |n: &NamespaceEntry|
 pub fn pop(&mut self)
        // (a stray end tag accepted under allow_unmatched_ends would drive the level below zero: outside C05's domain)
        requires old(self).wf(), old(self).nesting_level >= 1,
        ensures
            final(self).wf(),
            final(self).nesting_level == old(self).nesting_level - 1,
            // exactly the bindings declared deeper than the new level are removed, nothing else changes
            ({ let k = final(self).bindings@.len() as int;
               &&& k <= old(self).bindings@.len()
               &&& final(self).bindings@ == old(self).bindings@.subrange(0, k)
               &&& final(self).buffer@.len() <= old(self).buffer@.len()
               &&& final(self).buffer@ == old(self).buffer@.subrange(0, final(self).buffer@.len() as int)
               &&& forall|i: int| 0 <= i < k ==> (#[trigger] old(self).bindings@[i]).level <= final(self).nesting_level
               &&& forall|i: int| k <= i < old(self).bindings@.len() ==> (#[trigger] old(self).bindings@[i]).level > final(self).nesting_level }),
 {
        self.nesting_level -= 1;
        let current_level = self.nesting_level;
        // from the back (most deeply nested scope), look for the first scope that is still valid
        match shim::rposition_ref(self.bindings.as_slice(), |n: &NamespaceEntry| -> (r: bool) ensures r == (n.level <= current_level) { n.level <= current_level }) {
            // none of the namespaces are valid, remove all of them
            None => {
                self.buffer.clear();
                self.bindings.clear();
            }
            // drop all namespaces past the last valid namespace
            Some(last_valid_pos) => {
                proof { assert(self.bindings.len() == self.bindings@.len()); }
                if let Some(len) = self.bindings.get(last_valid_pos + 1).map(|n: &NamespaceEntry| -> (r: usize) ensures r == n.start { n.start }) {
                    self.buffer.truncate(len);
                    self.bindings.truncate(last_valid_pos + 1);
                }
            }
        }
    }
//@end
}

impl<R> NsReader<R> {
//@extract ns_reader::NsReader::read_event_impl | src/reader/ns_reader.rs :: impl<R> NsReader<R> :: fn read_event_impl | serves=C05
    fn read_event_impl<'i, B>(&mut self, buf: B) -> (r: Result<Event<'i>>)
    where
        R: XmlSource<'i, B>,
        requires
            old(self).inv(),
            !(old(self).reader.state.state is Done) ==> old(self).reader.state.offset + old(self).reader.reader.remaining().len() <= u64::MAX,
            old(self).reader.reader.remaining().len() <= usize::MAX,
            // A-depth; C05 is stated for error-free reads of well-formed documents: stray end tags are not accepted
            old(self).ns_resolver.nesting_level < i32::MAX - 1,
            !old(self).reader.state.config.allow_unmatched_ends,
        ensures
            // the scope discipline is kept by every successful read
            r is Ok ==> final(self).inv(),
            final(self).reader.state.config == old(self).reader.state.config,
    {
        self.pop();
        let event = self.reader.read_event_impl(buf);
        self.process_event(event)
    }
//@end

//@extract ns_reader::NsReader::pop | src/reader/ns_reader.rs :: impl<R> NsReader<R> :: fn pop | serves=C05
 fn pop(&mut self)
        requires old(self).inv()
        ensures final(self).inv(), !final(self).pending_pop, final(self).reader == old(self).reader,
            final(self).ns_resolver.nesting_level <= old(self).ns_resolver.nesting_level,
 {
        if self.pending_pop {
            self.ns_resolver.pop();
            self.pending_pop = false;
        }
    }
//@end

//@extract ns_reader::NsReader::process_event | src/reader/ns_reader.rs :: impl<R> NsReader<R> :: fn process_event | serves=C05 n11=1,2
 fn process_event<'i>(&mut self, event: Result<Event<'i>>) -> (r: Result<Event<'i>>)
        requires !old(self).pending_pop, old(self).ns_resolver.wf(), old(self).ns_resolver.nesting_level < i32::MAX - 1,
        ensures
            final(self).reader == old(self).reader, final(self).ns_resolver.wf(),
            event is Err ==> r is Err,
            r is Ok ==> r == event,
            r is Ok ==> match event {
                Ok(Event::Start(_)) => final(self).ns_resolver.nesting_level == old(self).ns_resolver.nesting_level + 1 && !final(self).pending_pop,
                Ok(Event::Empty(_)) => final(self).ns_resolver.nesting_level == old(self).ns_resolver.nesting_level + 1 && final(self).pending_pop,
                Ok(Event::End(_)) => final(self).ns_resolver.nesting_level == old(self).ns_resolver.nesting_level && final(self).pending_pop,
                _ => final(self).ns_resolver.nesting_level == old(self).ns_resolver.nesting_level && !final(self).pending_pop,
            },
 {
        match event {
            Ok(Event::Start(e)) => {
                match self.ns_resolver.push(&e) { Ok(v__) => v__, Err(e__) => return Err(From::from(e__)) };
                Ok(Event::Start(e))
            }
            Ok(Event::Empty(e)) => {
                match self.ns_resolver.push(&e) { Ok(v__) => v__, Err(e__) => return Err(From::from(e__)) };
                // notify next `read_event_impl()` invocation that it needs to pop this
                // namespace scope
                self.pending_pop = true;
                Ok(Event::Empty(e))
            }
            Ok(Event::End(e)) => {
                // notify next `read_event_impl()` invocation that it needs to pop this
                // namespace scope
                self.pending_pop = true;
                Ok(Event::End(e))
            }
            e => e,
        }
    }
//@end
}

impl<R: BufRead> NsReader<R> {
//@extract ns_reader::NsReader::read_event_into | src/reader/ns_reader.rs :: impl<R: BufRead> NsReader<R> :: fn read_event_into | serves=C05
 fn read_event_into<'b>(&mut self, buf: &'b mut Vec<u8>) -> (r: Result<Event<'b>>)
        requires
            old(self).inv(),
            !(old(self).reader.state.state is Done) ==> old(self).reader.state.offset + old(self).reader.reader.remaining().len() <= u64::MAX,
            old(self).reader.reader.remaining().len() <= usize::MAX,
            // A-depth; C05 is stated for error-free reads of well-formed documents: stray end tags are not accepted
            old(self).ns_resolver.nesting_level < i32::MAX - 1,
            !old(self).reader.state.config.allow_unmatched_ends,
        ensures r is Ok ==> final(self).inv(),
 {
        self.read_event_impl(buf)
    }
//@end

//@extract ns_reader::NsReader::read_to_end_into | src/reader/ns_reader.rs :: impl<R: BufRead> NsReader<R> :: fn read_to_end_into | serves=C05 n11=1
 fn read_to_end_into(&mut self, end: QName, buf: &mut Vec<u8>) -> (r: Result<Span>)
        requires
            old(self).inv(),
            !(old(self).reader.state.state is Done) ==> old(self).reader.state.offset + old(self).reader.reader.remaining().len() <= u64::MAX,
            old(self).reader.reader.remaining().len() <= usize::MAX,
            // A-depth; C05 is stated for error-free reads of well-formed documents: stray end tags are not accepted
            old(self).ns_resolver.nesting_level < i32::MAX - 1,
            !old(self).reader.state.config.allow_unmatched_ends,
            // the caller skips the element whose Start event it has just received
            skip_domain(old(self).reader.state, end.0@),
        ensures
            // C05: declarations stop applying once their element has ended -- also when its content was skipped
            r is Ok ==> final(self).inv() && final(self).reader.state.stack() == old(self).reader.state.stack().drop_last(),
 {
        // According to the https://www.w3.org/TR/xml11/#dt-etag, end name should
        // match literally the start name. See `Config::check_end_names` documentation
        let span = match self.reader.read_to_end_into(end, buf) { Ok(v__) => v__, Err(e__) => return Err(From::from(e__)) };
        // `read_to_end_into` consumed the end tag, so nobody will see an `End`
        // event for it: leave the namespace scope of the skipped element here
        self.ns_resolver.pop();
        Ok(span)
    }
//@end
}

impl<'i> NsReader<&'i [u8]> {
//@extract ns_reader::NsReader::read_event | src/reader/ns_reader.rs :: impl<'i> NsReader<&'i [u8]> :: fn read_event | serves=C05
 fn read_event(&mut self) -> (r: Result<Event<'i>>)
        requires
            old(self).inv(),
            !(old(self).reader.state.state is Done) ==> old(self).reader.state.offset + old(self).reader.reader.remaining().len() <= u64::MAX,
            old(self).reader.reader.remaining().len() <= usize::MAX,
            // A-depth; C05 is stated for error-free reads of well-formed documents: stray end tags are not accepted
            old(self).ns_resolver.nesting_level < i32::MAX - 1,
            !old(self).reader.state.config.allow_unmatched_ends,
        ensures r is Ok ==> final(self).inv(),
 {
        self.read_event_impl(())
    }
//@end

//@extract ns_reader::NsReader::read_to_end | src/reader/ns_reader.rs :: impl<'i> NsReader<&'i [u8]> :: fn read_to_end | serves=C05 n11=1
 fn read_to_end(&mut self, end: QName) -> (r: Result<Span>)
        requires
            old(self).inv(),
            !(old(self).reader.state.state is Done) ==> old(self).reader.state.offset + old(self).reader.reader.remaining().len() <= u64::MAX,
            old(self).reader.reader.remaining().len() <= usize::MAX,
            // A-depth; C05 is stated for error-free reads of well-formed documents: stray end tags are not accepted
            old(self).ns_resolver.nesting_level < i32::MAX - 1,
            !old(self).reader.state.config.allow_unmatched_ends,
            // the caller skips the element whose Start event it has just received
            skip_domain(old(self).reader.state, end.0@),
        ensures
            // C05: declarations stop applying once their element has ended -- also when its content was skipped
            r is Ok ==> final(self).inv() && final(self).reader.state.stack() == old(self).reader.state.stack().drop_last(),
 {
        // According to the https://www.w3.org/TR/xml11/#dt-etag, end name should
        // match literally the start name. See `Config::check_end_names` documentation
        let span = match self.reader.read_to_end(end) { Ok(v__) => v__, Err(e__) => return Err(From::from(e__)) };
        // `read_to_end` consumed the end tag, so nobody will see an `End`
        // event for it: leave the namespace scope of the skipped element here
        self.ns_resolver.pop();
        Ok(span)
    }
//@end
}
}
