// ---------------------------------------------------------------------------------------------
// Construction of readers (baseline features): a fresh reader is in the initial state with the
// documented default configuration, whatever the source. C14: from_str and from_reader start alike.
// ---------------------------------------------------------------------------------------------
pub mod ctor_ {
use super::*;
use vstd::prelude::*;
use vstd::string::*;

/// the documented defaults of `Config`
pub open spec fn default_config(c: Config) -> bool {
    !c.allow_unmatched_ends && !c.check_comments && c.check_end_names && !c.expand_empty_elements
        && c.trim_markup_names_in_closing_tags && !c.trim_text_start && !c.trim_text_end
}
/// a reader that has not read anything: initial state, nothing open, default configuration
pub open spec fn fresh_state(st: ReaderState) -> bool {
    st.state is Init && st.offset == 0 && st.last_error_offset == 0 && st.opened_buffer@.len() == 0 && st.opened_starts@.len() == 0
        && default_config(st.config)
}
impl Default for Config {
//@extract reader::Config::default#ctor | src/reader/mod.rs :: impl Default for Config :: fn default | serves=C14,C16
    fn default() -> (r: Self)
        ensures default_config(r)
    {
        Self {
            allow_unmatched_ends: false,
            check_comments: false,
            check_end_names: true,
            expand_empty_elements: false,
            trim_markup_names_in_closing_tags: true,
            trim_text_start: false,
            trim_text_end: false,
        }
    }
//@end
}
impl Default for ReaderState {
//@extract state::ReaderState::default#ctor | src/reader/state.rs :: impl Default for ReaderState :: fn default | serves=C14
    fn default() -> (r: Self)
        ensures fresh_state(r)
    {
        Self {
            offset: 0,
            last_error_offset: 0,
            state: ParseState::Init,
            config: Config::default(),
            opened_buffer: Vec::new(),
            opened_starts: Vec::new(),
        }
    }
//@end
}
impl<R> Reader<R> {
//@extract reader::Reader::from_reader#ctor | src/reader/mod.rs :: impl<R> Reader<R> :: fn from_reader | serves=C14
 pub fn from_reader(reader: R) -> (r: Self)
        // whatever the source: the initial state, the default configuration, the invariant
        ensures r.reader == reader, fresh_state(r.state), r.inv()
 {
        Self {
            reader,
            state: ReaderState::default(),
        }
    }
//@end
}
impl<'a> Reader<&'a [u8]> {
//@extract slice_reader::Reader::from_str#ctor | src/reader/slice_reader.rs :: impl<'a> Reader<&'a [u8]> :: fn from_str | serves=C14
 pub fn from_str(s: &'a str) -> (r: Self)
        // the source is the bytes of the string
        ensures r.reader@ == s.spec_bytes(), fresh_state(r.state), r.inv()
 {

        Self::from_reader(s.as_bytes())
    }
//@end
}
}
