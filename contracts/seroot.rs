// ---------------------------------------------------------------------------------------------
// The root serializer of src/se/mod.rs (unit sese). C13: the root tag -- given by the caller or taken
// from the type name -- becomes a tag only after XmlName::try_from; C19: the same classifications.
// The struct is called `Serializer` like the (model of the) serde trait; as in the real file the
// trait is reached through the path `ser::`.
// ---------------------------------------------------------------------------------------------
pub mod ser_root_ {
use super::*;
use vstd::prelude::*;
use vstd::string::*;
use core::result::Result;
use crate::writer_::Indentation;
use crate::se_::{XmlName, SeError, is_xml_name};
use crate::seesc_::{QuoteLevel, QuoteTarget};
use crate::sec_::{Write, Serialize, ContentSerializer, ElementSerializer, Struct, Map, Tuple, SimpleSeq, Indent, WriteResult, TEXT_KEY, errmsg_, errstr_, BSeq, tag_empty, ind_ok, tag_open, tag_close, bool_text, disp, char_bytes};
use crate::seesc_::p_list;
use crate::escfn_::spec_escape;
pub mod ser { pub use crate::sec_::{Serializer, Serialize}; }
use crate::sec_::Serializer as _;

/// std: `Option<Result<T, E>>::transpose` (documented table)
pub assume_specification<T, E>[ Option::<Result<T, E>>::transpose ](o: Option<Result<T, E>>) -> (r: Result<Option<T>, E>)
    ensures match o { None => r == Result::<Option<T>, E>::Ok(None), Some(Ok(x)) => r == Result::<Option<T>, E>::Ok(Some(x)), Some(Err(e)) => r == Result::<Option<T>, E>::Err(e) };

//@extract se::Serializer | src/se/mod.rs :: struct Serializer | serves=C13,C19 features=serialize
 pub struct Serializer<'w, 'r, W: Write> {
    pub ser: ContentSerializer<'w, 'r, W>,
    /// Name of the root tag. If not specified, deduced from the structure name
    pub root_tag: Option<XmlName<'r>>,
}
//@end
impl<'w, 'r, W: Write> Serializer<'w, 'r, W> {
//@extract se::Serializer::new | src/se/mod.rs :: impl<'w, 'r, W: Write> Serializer<'w, 'r, W> :: fn new | serves=C13,C19 features=serialize
 pub fn new(writer: &'w mut W) -> (r: Self)
        // no root tag, no indentation, nothing written yet, the same writer
        ensures r.ok(), r.root_tag is None, r.ser.indent is None, !r.ser.write_indent, r.ser.allow_primitive, !r.ser.expand_empty_elements,
            r.ser.level is Partial, (*r.ser.writer).out() == (*old(writer)).out(), *final(r.ser.writer) == *final(writer),
 {
        Self {
            ser: ContentSerializer {
                writer,
                level: QuoteLevel::Partial,
                indent: Indent::None,
                write_indent: false,
                allow_primitive: true,
                expand_empty_elements: false,
            },
            root_tag: None,
        }
    }
//@end
//@extract se::Serializer::with_root | src/se/mod.rs :: impl<'w, 'r, W: Write> Serializer<'w, 'r, W> :: fn with_root | serves=C13 features=serialize
 pub fn with_root(writer: &'w mut W, root_tag: Option<&'r str>) -> (r: Result<Self, SeError>)
        ensures
            // C13: a root tag given by the caller is accepted only if it is a legal XML name
            (r is Ok) == (root_tag matches Some(t) ==> is_xml_name(t@)),
            r matches Ok(x) ==> x.ok() && (match root_tag { Some(t) => x.root_tag matches Some(k) && k.0@ == t@, None => x.root_tag is None })
                && (*x.ser.writer).out() == (*old(writer)).out() && *final(x.ser.writer) == *final(writer),
 {
        Ok(Self {
            ser: ContentSerializer {
                writer,
                level: QuoteLevel::Partial,
                indent: Indent::None,
                write_indent: false,
                allow_primitive: true,
                expand_empty_elements: false,
            },
            root_tag: root_tag.map(|tag: &'r str| -> (q: Result<XmlName<'r>, SeError>) ensures (q is Ok) == is_xml_name(tag@), q matches Ok(x) ==> x.0@ == tag@ { XmlName::try_from(tag) }).transpose()?,
        })
    }
//@end
//@extract se::Serializer::expand_empty_elements | src/se/mod.rs :: impl<'w, 'r, W: Write> Serializer<'w, 'r, W> :: fn expand_empty_elements | serves=C13 features=serialize
 pub fn expand_empty_elements(&mut self, expand: bool) -> (r: &mut Self)
        ensures r.ser.expand_empty_elements == expand, r.root_tag == old(self).root_tag, r.ser.indent == old(self).ser.indent,
            *final(self) == *final(r),
 {
        self.ser.expand_empty_elements = expand;
        self
    }
//@end
//@extract se::Serializer::indent | src/se/mod.rs :: impl<'w, 'r, W: Write> Serializer<'w, 'r, W> :: fn indent | serves=C19 features=serialize
 pub fn indent(&mut self, indent_char: char, indent_size: usize) -> (r: &mut Self)
        // C19: a fresh indentation at level 0
        ensures r.ser.indent.wf(), r.ser.indent.st() matches Some(i) && i.current_indent_len == 0 && i.indent_size == indent_size && i.indent_char == indent_char as u8,
            r.root_tag == old(self).root_tag, *final(self) == *final(r),
 {
        self.ser.indent = Indent::Owned(Indentation::new(indent_char as u8, indent_size));
        self
    }
//@end
//@extract se::Serializer::set_quote_level | src/se/mod.rs :: impl<'w, 'r, W: Write> Serializer<'w, 'r, W> :: fn set_quote_level | serves=C13 features=serialize
 pub fn set_quote_level(&mut self, level: QuoteLevel) -> (r: &mut Self)
        ensures r.ser.level == level, r.root_tag == old(self).root_tag, r.ser.indent == old(self).ser.indent, *final(self) == *final(r),
 {
        self.ser.level = level;
        self
    }
//@end
//@extract se::Serializer::set_indent | src/se/mod.rs :: impl<'w, 'r, W: Write> Serializer<'w, 'r, W> :: fn set_indent | serves=C19 features=serialize
 pub fn set_indent(&mut self, indent: Indent<'r>) -> (r: &mut Self)
        ensures r.ser.indent == indent, r.root_tag == old(self).root_tag, *final(self) == *final(r),
 {
        self.ser.indent = indent;
        self
    }
//@end
//@extract se::Serializer::ser | src/se/mod.rs :: impl<'w, 'r, W: Write> Serializer<'w, 'r, W> :: fn ser | serves=C13 features=serialize n15=1
    /// Creates actual serializer or returns an error if root tag is not defined.
    /// In that case `err` contains the name of type that cannot be serialized.
    pub fn ser(self, err: &str) -> (r: Result<ElementSerializer<'w, 'r, W>, SeError>)
        // C13: without a root tag there is no name to write: an error, never an invented tag
        ensures (r is Ok) == (self.root_tag is Some),
            r matches Ok(x) ==> Some(x.key) == self.root_tag && x.ser == self.ser,
    {
        if let Some(key) = self.root_tag {
            Ok(ElementSerializer { ser: self.ser, key })
        } else {
            Err(SeError::Unsupported(
                errmsg_(),
            ))
        }
    }
//@end
//@extract se::Serializer::ser_name | src/se/mod.rs :: impl<'w, 'r, W: Write> Serializer<'w, 'r, W> :: fn ser_name | serves=C13 features=serialize
    /// Creates actual serializer using root tag or a specified `key` if root tag
    /// is not defined. Returns an error if root tag is not defined and a `key`
    /// does not conform [XML rules](XmlName::try_from) for names.
    pub fn ser_name(self, key: &'static str) -> (r: Result<ElementSerializer<'w, 'r, W>, SeError>)
        // C13: the root tag if there is one, else the type name -- which must then be a legal XML name
        ensures (r is Ok) == (self.root_tag is Some || is_xml_name(key@)),
            r matches Ok(x) ==> x.ser == self.ser && (match self.root_tag { Some(k) => x.key == k, None => x.key.0@ == key@ }),
    {
        Ok(ElementSerializer {
            ser: self.ser,
            key: match self.root_tag {
                Some(key) => key,
                None => XmlName::try_from(key)?,
            },
        })
    }
//@end
}
/// the text of an error message (the type name `concat!`ed by the macro `forward!`): unspecified
#[verifier::external_body]
pub fn errs_() -> &'static str { unimplemented!() }
impl<'w, 'r, W: Write> ser::Serializer for Serializer<'w, 'r, W> {
    type Ok = WriteResult;
    type Error = SeError;
    type SerializeSeq = ElementSerializer<'w, 'r, W>;
    type SerializeStruct = Struct<'w, 'r, W>;
    type SerializeMap = Map<'w, 'r, W>;
    /// the indentation is in order and a root tag, if given, was validated (with_root)
    open spec fn ok(&self) -> bool { ind_ok(self.ser.indent) && (self.root_tag matches Some(k) ==> is_xml_name(k.0@)) }
//@extract se::Serializer::serialize_none | src/se/mod.rs :: impl<'w, 'r, W: Write> ser::Serializer for Serializer<'w, 'r, W> :: fn serialize_none | serves=C19 features=serialize
    fn serialize_none(self) -> (r: Result<Self::Ok, Self::Error>)
        ensures r matches Ok(x) && x is SensitiveNothing && *final(self.ser.writer) == *old(self.ser.writer)
    {
        // Do not write indent after `Option` field with `None` value, because
        // this can be `Option<String>`. Unfortunately, we do not known what the
        // type the option contains, so have no chance to adapt our behavior to it.
        // The safe variant is not to write indent
        Ok(WriteResult::SensitiveNothing)
    }
//@end
//@extract se::Serializer::serialize_unit | src/se/mod.rs :: impl<'w, 'r, W: Write> ser::Serializer for Serializer<'w, 'r, W> :: fn serialize_unit | serves=C13 features=serialize
    fn serialize_unit(self) -> (r: Result<Self::Ok, Self::Error>)
        // `<root/>`, only with a root tag
        ensures r matches Ok(x) ==> x is Element && (self.root_tag matches Some(k)
            && (*final(self.ser.writer)).out() == (*old(self.ser.writer)).out() + self.ser.pre() + tag_empty(k.0.spec_bytes(), self.ser.expand_empty_elements)),
    {
        self.ser("`()`")?.serialize_unit()
    }
//@end
//@extract se::Serializer::serialize_unit_struct | src/se/mod.rs :: impl<'w, 'r, W: Write> ser::Serializer for Serializer<'w, 'r, W> :: fn serialize_unit_struct | serves=C13 features=serialize
    fn serialize_unit_struct(self, name: &'static str) -> (r: Result<Self::Ok, Self::Error>)
        // `<root/>` or `<Name/>` -- the latter only if the type name is a legal XML name
        ensures r matches Ok(x) ==> x is Element && (self.root_tag is Some || is_xml_name(name@))
            && (*final(self.ser.writer)).out() == (*old(self.ser.writer)).out() + self.ser.pre()
                + tag_empty((match self.root_tag { Some(k) => k.0.spec_bytes(), None => name.spec_bytes() }), self.ser.expand_empty_elements),
    {
        self.ser_name(name)?.serialize_unit_struct(name)
    }
//@end
//@extract se::Serializer::serialize_unit_variant | src/se/mod.rs :: impl<'w, 'r, W: Write> ser::Serializer for Serializer<'w, 'r, W> :: fn serialize_unit_variant | serves=C13 features=serialize n15=1
    fn serialize_unit_variant(
        self,
        name: &'static str,
        _variant_index: u32,
        variant: &'static str,
    ) -> (r: Result<Self::Ok, Self::Error>)
        ensures r matches Ok(x) ==> variant@ != "$text"@ && is_xml_name(variant@) && x is Element
            && (*final(self.ser.writer)).out() == (*old(self.ser.writer)).out() + self.ser.pre() + tag_empty(variant.spec_bytes(), self.ser.expand_empty_elements),
    {
        if variant == TEXT_KEY {
            // We should write some text but we don't known what text to write
            Err(SeError::Unsupported(
                errmsg_(),
            ))
        } else {
            let name = XmlName::try_from(variant)?;
            self.ser.write_empty(name)
        }
    }
//@end
//@extract se::Serializer::serialize_str | src/se/mod.rs :: impl<'w, 'r, W: Write> ser::Serializer for Serializer<'w, 'r, W> :: invoke forward :: fn serialize_str | serves=C13 features=serialize
//@rewrite &concat!("`", stringify!(&str), "`") ==> errs_()
        fn serialize_str(self, value: &str) -> (r: Result<Self::Ok, Self::Error>)
            // a string at the top level is an element named by the root tag -- an error without one; the empty string is `<root/>`
            ensures r is Ok ==> self.root_tag is Some, r matches Ok(x) ==> x is Element,
                value.spec_bytes().len() == 0 && r is Ok ==> (self.root_tag matches Some(k)
                    && (*final(self.ser.writer)).out() == (*old(self.ser.writer)).out() + self.ser.pre() + tag_empty(k.0.spec_bytes(), self.ser.expand_empty_elements)),
        {
            self.ser(errs_())?.serialize_str(value)
        }
//@end
//@extract se::Serializer::serialize_bool | src/se/mod.rs :: impl<'w, 'r, W: Write> ser::Serializer for Serializer<'w, 'r, W> :: invoke forward :: fn serialize_bool | serves=C13,C19 features=serialize
//@rewrite &concat!("`", stringify!(bool), "`") ==> errs_()
        fn serialize_bool(self, value: bool) -> (r: Result<Self::Ok, Self::Error>)
            ensures // a primitive at the top level is an element named by the root tag -- an error without one
                r is Ok ==> self.root_tag is Some,
                r matches Ok(x) ==> x is Element && (self.root_tag matches Some(k)
                    && (*final(self.ser.writer)).out() == (*old(self.ser.writer)).out() + self.ser.pre() + tag_open(k.0.spec_bytes()) + bool_text(value) + tag_close(k.0.spec_bytes())),
        {
            self.ser(errs_())?.serialize_bool(value)
        }
//@end
//@extract se::Serializer::serialize_i8 | src/se/mod.rs :: impl<'w, 'r, W: Write> ser::Serializer for Serializer<'w, 'r, W> :: invoke forward :: fn serialize_i8 | serves=C13,C19 features=serialize
//@rewrite &concat!("`", stringify!(i8), "`") ==> errs_()
        fn serialize_i8(self, value: i8) -> (r: Result<Self::Ok, Self::Error>)
            ensures // a primitive at the top level is an element named by the root tag -- an error without one
                r is Ok ==> self.root_tag is Some,
                r matches Ok(x) ==> x is Element && (self.root_tag matches Some(k)
                    && (*final(self.ser.writer)).out() == (*old(self.ser.writer)).out() + self.ser.pre() + tag_open(k.0.spec_bytes()) + disp(value) + tag_close(k.0.spec_bytes())),
        {
            self.ser(errs_())?.serialize_i8(value)
        }
//@end
//@extract se::Serializer::serialize_i16 | src/se/mod.rs :: impl<'w, 'r, W: Write> ser::Serializer for Serializer<'w, 'r, W> :: invoke forward :: fn serialize_i16 | serves=C13,C19 features=serialize
//@rewrite &concat!("`", stringify!(i16), "`") ==> errs_()
        fn serialize_i16(self, value: i16) -> (r: Result<Self::Ok, Self::Error>)
            ensures // a primitive at the top level is an element named by the root tag -- an error without one
                r is Ok ==> self.root_tag is Some,
                r matches Ok(x) ==> x is Element && (self.root_tag matches Some(k)
                    && (*final(self.ser.writer)).out() == (*old(self.ser.writer)).out() + self.ser.pre() + tag_open(k.0.spec_bytes()) + disp(value) + tag_close(k.0.spec_bytes())),
        {
            self.ser(errs_())?.serialize_i16(value)
        }
//@end
//@extract se::Serializer::serialize_i32 | src/se/mod.rs :: impl<'w, 'r, W: Write> ser::Serializer for Serializer<'w, 'r, W> :: invoke forward :: fn serialize_i32 | serves=C13,C19 features=serialize
//@rewrite &concat!("`", stringify!(i32), "`") ==> errs_()
        fn serialize_i32(self, value: i32) -> (r: Result<Self::Ok, Self::Error>)
            ensures // a primitive at the top level is an element named by the root tag -- an error without one
                r is Ok ==> self.root_tag is Some,
                r matches Ok(x) ==> x is Element && (self.root_tag matches Some(k)
                    && (*final(self.ser.writer)).out() == (*old(self.ser.writer)).out() + self.ser.pre() + tag_open(k.0.spec_bytes()) + disp(value) + tag_close(k.0.spec_bytes())),
        {
            self.ser(errs_())?.serialize_i32(value)
        }
//@end
//@extract se::Serializer::serialize_i64 | src/se/mod.rs :: impl<'w, 'r, W: Write> ser::Serializer for Serializer<'w, 'r, W> :: invoke forward :: fn serialize_i64 | serves=C13,C19 features=serialize
//@rewrite &concat!("`", stringify!(i64), "`") ==> errs_()
        fn serialize_i64(self, value: i64) -> (r: Result<Self::Ok, Self::Error>)
            ensures // a primitive at the top level is an element named by the root tag -- an error without one
                r is Ok ==> self.root_tag is Some,
                r matches Ok(x) ==> x is Element && (self.root_tag matches Some(k)
                    && (*final(self.ser.writer)).out() == (*old(self.ser.writer)).out() + self.ser.pre() + tag_open(k.0.spec_bytes()) + disp(value) + tag_close(k.0.spec_bytes())),
        {
            self.ser(errs_())?.serialize_i64(value)
        }
//@end
//@extract se::Serializer::serialize_i128 | src/se/mod.rs :: impl<'w, 'r, W: Write> ser::Serializer for Serializer<'w, 'r, W> :: invoke serde_if_integer128 :: invoke forward :: fn serialize_i128 | serves=C13,C19 features=serialize
//@rewrite &concat!("`", stringify!(i128), "`") ==> errs_()
        fn serialize_i128(self, value: i128) -> (r: Result<Self::Ok, Self::Error>)
            ensures // a primitive at the top level is an element named by the root tag -- an error without one
                r is Ok ==> self.root_tag is Some,
                r matches Ok(x) ==> x is Element && (self.root_tag matches Some(k)
                    && (*final(self.ser.writer)).out() == (*old(self.ser.writer)).out() + self.ser.pre() + tag_open(k.0.spec_bytes()) + disp(value) + tag_close(k.0.spec_bytes())),
        {
            self.ser(errs_())?.serialize_i128(value)
        }
//@end
//@extract se::Serializer::serialize_u8 | src/se/mod.rs :: impl<'w, 'r, W: Write> ser::Serializer for Serializer<'w, 'r, W> :: invoke forward :: fn serialize_u8 | serves=C13,C19 features=serialize
//@rewrite &concat!("`", stringify!(u8), "`") ==> errs_()
        fn serialize_u8(self, value: u8) -> (r: Result<Self::Ok, Self::Error>)
            ensures // a primitive at the top level is an element named by the root tag -- an error without one
                r is Ok ==> self.root_tag is Some,
                r matches Ok(x) ==> x is Element && (self.root_tag matches Some(k)
                    && (*final(self.ser.writer)).out() == (*old(self.ser.writer)).out() + self.ser.pre() + tag_open(k.0.spec_bytes()) + disp(value) + tag_close(k.0.spec_bytes())),
        {
            self.ser(errs_())?.serialize_u8(value)
        }
//@end
//@extract se::Serializer::serialize_u16 | src/se/mod.rs :: impl<'w, 'r, W: Write> ser::Serializer for Serializer<'w, 'r, W> :: invoke forward :: fn serialize_u16 | serves=C13,C19 features=serialize
//@rewrite &concat!("`", stringify!(u16), "`") ==> errs_()
        fn serialize_u16(self, value: u16) -> (r: Result<Self::Ok, Self::Error>)
            ensures // a primitive at the top level is an element named by the root tag -- an error without one
                r is Ok ==> self.root_tag is Some,
                r matches Ok(x) ==> x is Element && (self.root_tag matches Some(k)
                    && (*final(self.ser.writer)).out() == (*old(self.ser.writer)).out() + self.ser.pre() + tag_open(k.0.spec_bytes()) + disp(value) + tag_close(k.0.spec_bytes())),
        {
            self.ser(errs_())?.serialize_u16(value)
        }
//@end
//@extract se::Serializer::serialize_u32 | src/se/mod.rs :: impl<'w, 'r, W: Write> ser::Serializer for Serializer<'w, 'r, W> :: invoke forward :: fn serialize_u32 | serves=C13,C19 features=serialize
//@rewrite &concat!("`", stringify!(u32), "`") ==> errs_()
        fn serialize_u32(self, value: u32) -> (r: Result<Self::Ok, Self::Error>)
            ensures // a primitive at the top level is an element named by the root tag -- an error without one
                r is Ok ==> self.root_tag is Some,
                r matches Ok(x) ==> x is Element && (self.root_tag matches Some(k)
                    && (*final(self.ser.writer)).out() == (*old(self.ser.writer)).out() + self.ser.pre() + tag_open(k.0.spec_bytes()) + disp(value) + tag_close(k.0.spec_bytes())),
        {
            self.ser(errs_())?.serialize_u32(value)
        }
//@end
//@extract se::Serializer::serialize_u64 | src/se/mod.rs :: impl<'w, 'r, W: Write> ser::Serializer for Serializer<'w, 'r, W> :: invoke forward :: fn serialize_u64 | serves=C13,C19 features=serialize
//@rewrite &concat!("`", stringify!(u64), "`") ==> errs_()
        fn serialize_u64(self, value: u64) -> (r: Result<Self::Ok, Self::Error>)
            ensures // a primitive at the top level is an element named by the root tag -- an error without one
                r is Ok ==> self.root_tag is Some,
                r matches Ok(x) ==> x is Element && (self.root_tag matches Some(k)
                    && (*final(self.ser.writer)).out() == (*old(self.ser.writer)).out() + self.ser.pre() + tag_open(k.0.spec_bytes()) + disp(value) + tag_close(k.0.spec_bytes())),
        {
            self.ser(errs_())?.serialize_u64(value)
        }
//@end
//@extract se::Serializer::serialize_u128 | src/se/mod.rs :: impl<'w, 'r, W: Write> ser::Serializer for Serializer<'w, 'r, W> :: invoke serde_if_integer128 :: invoke forward :: fn serialize_u128 | serves=C13,C19 features=serialize
//@rewrite &concat!("`", stringify!(u128), "`") ==> errs_()
        fn serialize_u128(self, value: u128) -> (r: Result<Self::Ok, Self::Error>)
            ensures // a primitive at the top level is an element named by the root tag -- an error without one
                r is Ok ==> self.root_tag is Some,
                r matches Ok(x) ==> x is Element && (self.root_tag matches Some(k)
                    && (*final(self.ser.writer)).out() == (*old(self.ser.writer)).out() + self.ser.pre() + tag_open(k.0.spec_bytes()) + disp(value) + tag_close(k.0.spec_bytes())),
        {
            self.ser(errs_())?.serialize_u128(value)
        }
//@end
//@extract se::Serializer::serialize_f32 | src/se/mod.rs :: impl<'w, 'r, W: Write> ser::Serializer for Serializer<'w, 'r, W> :: invoke forward :: fn serialize_f32 | serves=C13,C19 features=serialize
//@rewrite &concat!("`", stringify!(f32), "`") ==> errs_()
        fn serialize_f32(self, value: f32) -> (r: Result<Self::Ok, Self::Error>)
            ensures // a primitive at the top level is an element named by the root tag -- an error without one
                r is Ok ==> self.root_tag is Some,
                r matches Ok(x) ==> x is Element && (self.root_tag matches Some(k)
                    && (*final(self.ser.writer)).out() == (*old(self.ser.writer)).out() + self.ser.pre() + tag_open(k.0.spec_bytes()) + disp(value) + tag_close(k.0.spec_bytes())),
        {
            self.ser(errs_())?.serialize_f32(value)
        }
//@end
//@extract se::Serializer::serialize_f64 | src/se/mod.rs :: impl<'w, 'r, W: Write> ser::Serializer for Serializer<'w, 'r, W> :: invoke forward :: fn serialize_f64 | serves=C13,C19 features=serialize
//@rewrite &concat!("`", stringify!(f64), "`") ==> errs_()
        fn serialize_f64(self, value: f64) -> (r: Result<Self::Ok, Self::Error>)
            ensures // a primitive at the top level is an element named by the root tag -- an error without one
                r is Ok ==> self.root_tag is Some,
                r matches Ok(x) ==> x is Element && (self.root_tag matches Some(k)
                    && (*final(self.ser.writer)).out() == (*old(self.ser.writer)).out() + self.ser.pre() + tag_open(k.0.spec_bytes()) + disp(value) + tag_close(k.0.spec_bytes())),
        {
            self.ser(errs_())?.serialize_f64(value)
        }
//@end
//@extract se::Serializer::serialize_char | src/se/mod.rs :: impl<'w, 'r, W: Write> ser::Serializer for Serializer<'w, 'r, W> :: invoke forward :: fn serialize_char | serves=C13,C19 features=serialize
//@rewrite &concat!("`", stringify!(char), "`") ==> errs_()
        fn serialize_char(self, value: char) -> (r: Result<Self::Ok, Self::Error>)
            ensures // a primitive at the top level is an element named by the root tag -- an error without one
                r is Ok ==> self.root_tag is Some,
                r matches Ok(x) ==> x is Element && (self.root_tag matches Some(k)
                    && (*final(self.ser.writer)).out() == (*old(self.ser.writer)).out() + self.ser.pre() + tag_open(k.0.spec_bytes()) + spec_escape(char_bytes(value), p_list(QuoteTarget::Text, self.ser.level)) + tag_close(k.0.spec_bytes())),
        {
            self.ser(errs_())?.serialize_char(value)
        }
//@end
//@extract se::Serializer::serialize_bytes | src/se/mod.rs :: impl<'w, 'r, W: Write> ser::Serializer for Serializer<'w, 'r, W> :: invoke forward :: fn serialize_bytes | serves=C13,C19 features=serialize
//@rewrite &concat!("`", stringify!(&[u8]), "`") ==> errs_()
        fn serialize_bytes(self, value: &[u8]) -> (r: Result<Self::Ok, Self::Error>)
            ensures r is Err,
        {
            self.ser(errs_())?.serialize_bytes(value)
        }
//@end
//@extract se::Serializer::serialize_seq | src/se/mod.rs :: impl<'w, 'r, W: Write> ser::Serializer for Serializer<'w, 'r, W> :: fn serialize_seq | serves=C13 features=serialize
    fn serialize_seq(self, len: Option<usize>) -> (r: Result<Self::SerializeSeq, Self::Error>)
        ensures r matches Ok(q) ==> Some(q.key) == self.root_tag && q.ser == self.ser
    {
        self.ser("sequence")?.serialize_seq(len)
    }
//@end
//@extract se::Serializer::serialize_struct | src/se/mod.rs :: impl<'w, 'r, W: Write> ser::Serializer for Serializer<'w, 'r, W> :: fn serialize_struct | serves=C13 features=serialize
    fn serialize_struct(
        self,
        name: &'static str,
        len: usize,
    ) -> (r: Result<Self::SerializeStruct, Self::Error>)
        // the document element: `<root` or `<Name` -- the latter only if the type name is a legal XML name
        ensures r matches Ok(st) ==> (self.root_tag is Some || is_xml_name(name@)) && st.children@.len() == 0 && st.write_indent
            && (match self.root_tag { Some(k) => st.ser.key == k, None => st.ser.key.0@ == name@ })
            && (*st.ser.ser.writer).out() == (*old(self.ser.writer)).out() + self.ser.pre() + seq![0x3cu8] + st.ser.key.0.spec_bytes()
            && *final(st.ser.ser.writer) == *final(self.ser.writer),
    {
        self.ser_name(name)?.serialize_struct(name, len)
    }
//@end
//@extract se::Serializer::serialize_map | src/se/mod.rs :: impl<'w, 'r, W: Write> ser::Serializer for Serializer<'w, 'r, W> :: fn serialize_map | serves=C13 features=serialize
    fn serialize_map(self, len: Option<usize>) -> (r: Result<Self::SerializeMap, Self::Error>)
        ensures r matches Ok(m) ==> self.root_tag matches Some(k) && m.ser.ser.key == k && m.key is None
    {
        self.ser("map")?.serialize_map(len)
    }
//@end
}
// the tuple / struct-variant forms of the root serializer (associated types the model trait does not carry: inherent)
impl<'w, 'r, W: Write> Serializer<'w, 'r, W> {
//@extract se::Serializer::serialize_tuple | src/se/mod.rs :: impl<'w, 'r, W: Write> ser::Serializer for Serializer<'w, 'r, W> :: fn serialize_tuple | serves=C13 features=serialize
//@rewrite Result<Self::SerializeTuple, Self::Error> ==> Result<ElementSerializer<'w, 'r, W>, SeError>
    pub fn serialize_tuple(self, len: usize) -> (r: Result<ElementSerializer<'w, 'r, W>, SeError>)
        requires self.ok()
        // every element of a top-level tuple is an element named by the root tag -- an error without one
        ensures r matches Ok(q) ==> Some(q.key) == self.root_tag && q.ser == self.ser
    {
        self.ser("unnamed tuple")?.serialize_tuple(len)
    }
//@end
//@extract se::Serializer::serialize_tuple_struct | src/se/mod.rs :: impl<'w, 'r, W: Write> ser::Serializer for Serializer<'w, 'r, W> :: fn serialize_tuple_struct | serves=C13 features=serialize
//@rewrite Result<Self::SerializeTupleStruct, Self::Error> ==> Result<ElementSerializer<'w, 'r, W>, SeError>
    pub fn serialize_tuple_struct(
        self,
        name: &'static str,
        len: usize,
    ) -> (r: Result<ElementSerializer<'w, 'r, W>, SeError>)
        requires self.ok()
        // ... named by the root tag or else the type name, only if that is a legal XML name
        ensures r matches Ok(q) ==> q.ser == self.ser && (self.root_tag is Some || is_xml_name(name@))
            && (match self.root_tag { Some(k) => q.key == k, None => q.key.0@ == name@ })
    {
        self.ser_name(name)?.serialize_tuple_struct(name, len)
    }
//@end
//@extract se::Serializer::serialize_tuple_variant | src/se/mod.rs :: impl<'w, 'r, W: Write> ser::Serializer for Serializer<'w, 'r, W> :: fn serialize_tuple_variant | serves=C13 features=serialize
//@rewrite Result<Self::SerializeTupleVariant, Self::Error> ==> Result<Tuple<'w, 'r, W>, SeError>
//@rewrite .map(Tuple::Text) ==> .map(|q__: SimpleSeq<&'w mut W>| Tuple::Text(q__))
//@rewrite .map(Tuple::Element) ==> .map(|q__: ElementSerializer<'w, 'r, W>| Tuple::Element(q__))
    pub fn serialize_tuple_variant(
        self,
        name: &'static str,
        _variant_index: u32,
        variant: &'static str,
        len: usize,
    ) -> (r: Result<Tuple<'w, 'r, W>, SeError>)
        requires self.ok()
        ensures
            // C13: a tuple variant at the top level: elements named by the variant -- only if that is a legal XML name --, or, for
            // `$text`, an xs:list written with the Text escaping rules and the level in force
            r matches Ok(Tuple::Element(e)) ==> variant@ != "$text"@ && is_xml_name(variant@) && e.key.0@ == variant@ && e.ser == self.ser,
            r matches Ok(Tuple::Text(q)) ==> variant@ == "$text"@ && q.target is Text && q.level == self.ser.level && q.is_empty
                && (*q.writer).out() == (*old(self.ser.writer)).out() && *final(q.writer) == *final(self.ser.writer),
    {
        if variant == TEXT_KEY {
            self.ser
                .into_simple_type_serializer()?
                .serialize_tuple_struct(name, len)
                .map(|q__: SimpleSeq<&'w mut W>| -> (o: Tuple<'w, 'r, W>) ensures o == Tuple::Text(q__) { Tuple::Text(q__) })
        } else {
            let ser = ElementSerializer {
                ser: self.ser,
                key: XmlName::try_from(variant)?,
            };
            ser.serialize_tuple_struct(name, len).map(|q__: ElementSerializer<'w, 'r, W>| -> (o: Tuple<'w, 'r, W>) ensures o == Tuple::Element(q__) { Tuple::Element(q__) })
        }
    }
//@end
//@extract se::Serializer::serialize_struct_variant | src/se/mod.rs :: impl<'w, 'r, W: Write> ser::Serializer for Serializer<'w, 'r, W> :: fn serialize_struct_variant | serves=C13 features=serialize n15=1
//@rewrite Result<Self::SerializeStructVariant, Self::Error> ==> Result<Struct<'w, 'r, W>, SeError>
    pub fn serialize_struct_variant(
        self,
        name: &'static str,
        _variant_index: u32,
        variant: &'static str,
        len: usize,
    ) -> (r: Result<Struct<'w, 'r, W>, SeError>)
        requires self.ok()
        ensures
            // C13: a struct variant at the top level is the document element named by the variant -- only if that is a legal XML name
            r matches Ok(st) ==> variant@ != "$text"@ && is_xml_name(variant@) && st.ser.key.0@ == variant@
                && st.children@.len() == 0 && st.write_indent
                && (*st.ser.ser.writer).out() == (*old(self.ser.writer)).out() + self.ser.pre() + seq![0x3cu8] + variant.spec_bytes()
                && *final(st.ser.ser.writer) == *final(self.ser.writer),
    {
        if variant == TEXT_KEY {
            Err(SeError::Unsupported(
                errmsg_(),
            ))
        } else {
            let ser = ElementSerializer {
                ser: self.ser,
                key: XmlName::try_from(variant)?,
            };
            ser.serialize_struct(name, len)
        }
    }
//@end
}
// generic over `T: Serialize`: inherent (see the model traits in secontent.rs)
impl<'w, 'r, W: Write> Serializer<'w, 'r, W> {
//@extract se::Serializer::serialize_some | src/se/mod.rs :: impl<'w, 'r, W: Write> ser::Serializer for Serializer<'w, 'r, W> :: fn serialize_some | serves=C13 features=serialize
//@rewrite Result<Self::Ok, Self::Error> ==> Result<WriteResult, SeError>
    pub fn serialize_some<T: ?Sized + Serialize>(self, value: &T) -> (r: Result<WriteResult, SeError>)
        requires self.ok()
    {
        value.serialize(self)
    }
//@end
//@extract se::Serializer::serialize_newtype_struct | src/se/mod.rs :: impl<'w, 'r, W: Write> ser::Serializer for Serializer<'w, 'r, W> :: fn serialize_newtype_struct | serves=C13 features=serialize
//@rewrite Result<Self::Ok, Self::Error> ==> Result<WriteResult, SeError>
    fn serialize_newtype_struct<T: ?Sized + Serialize>(
        self,
        name: &'static str,
        value: &T,
    ) -> (r: Result<WriteResult, SeError>)
        requires self.ok()
        ensures r is Ok ==> self.root_tag is Some || is_xml_name(name@)
    {
        self.ser_name(name)?.serialize_newtype_struct(name, value)
    }
//@end
//@extract se::Serializer::serialize_newtype_variant | src/se/mod.rs :: impl<'w, 'r, W: Write> ser::Serializer for Serializer<'w, 'r, W> :: fn serialize_newtype_variant | serves=C13,C19 features=serialize
//@rewrite Result<Self::Ok, Self::Error> ==> Result<WriteResult, SeError>
    fn serialize_newtype_variant<T: ?Sized + Serialize>(
        self,
        _name: &'static str,
        _variant_index: u32,
        variant: &'static str,
        value: &T,
    ) -> (r: Result<WriteResult, SeError>)
        requires self.ok()
        ensures r matches Ok(x) ==> if variant@ == "$text"@ { x is SensitiveText && self.ser.allow_primitive } else { is_xml_name(variant@) },
    {
        if variant == TEXT_KEY {
            value.serialize(self.ser.into_simple_type_serializer()?)?;
            // Do not write indent after `$text` variant because it may be interpreted as
            // part of content when deserialize
            Ok(WriteResult::SensitiveText)
        } else {
            let ser = ElementSerializer {
                ser: self.ser,
                key: XmlName::try_from(variant)?,
            };
            value.serialize(ser)
        }
    }
//@end
}

// ---- the public entry points: the serializer handed to the value is a fresh root serializer ----
//@extract se::to_writer | src/se/mod.rs :: fn to_writer | serves=C13 features=serialize
 pub fn to_writer<W, T>(mut writer: W, value: &T) -> Result<WriteResult, SeError>
where
    W: Write,
    T: ?Sized + Serialize,
{
    value.serialize(Serializer::new(&mut writer))
}
//@end
//@extract se::to_string | src/se/mod.rs :: fn to_string | serves=C13 features=serialize
 pub fn to_string<T>(value: &T) -> Result<String, SeError>
where
    T: ?Sized + Serialize,
{
    let mut buffer = String::new();
    to_writer(&mut buffer, value)?;
    Ok(buffer)
}
//@end
//@extract se::to_writer_with_root | src/se/mod.rs :: fn to_writer_with_root | serves=C13 features=serialize
 pub fn to_writer_with_root<W, T>(
    mut writer: W,
    root_tag: &str,
    value: &T,
) -> (r: Result<WriteResult, SeError>)
where
    W: Write,
    T: ?Sized + Serialize,
    // C13: an illegal root tag is an error before anything is serialized
    ensures r is Ok ==> is_xml_name(root_tag@),
{
    value.serialize(Serializer::with_root(&mut writer, Some(root_tag))?)
}
//@end
//@extract se::to_string_with_root | src/se/mod.rs :: fn to_string_with_root | serves=C13 features=serialize
 pub fn to_string_with_root<T>(root_tag: &str, value: &T) -> (r: Result<String, SeError>)
where
    T: ?Sized + Serialize,
    ensures r is Ok ==> is_xml_name(root_tag@),
{
    let mut buffer = String::new();
    to_writer_with_root(&mut buffer, root_tag, value)?;
    Ok(buffer)
}
//@end

// ---- the adapter from std::io::Write to std::fmt::Write behind to_utf8_io_writer / Writer::write_serializable ----
// C13/C19: the serializer's contracts speak about what the fmt sink has received; for a byte sink that is only true if a
// successful `write_str` has delivered ALL the bytes (A-sink: write_all does, one `write` need not)
//@extract writer::ToFmtWrite | src/writer.rs :: struct ToFmtWrite | serves=C13,C19 features=serialize
 struct ToFmtWrite<T>(pub T);
//@end
/// std: the unit struct `std::fmt::Error` (vstd declares the type without its constructor)
#[verifier::external_body]
pub fn fmt_error_() -> core::fmt::Error { core::fmt::Error }
impl<T> Write for ToFmtWrite<T>
where
    T: crate::Write,
{
    closed spec fn out(&self) -> BSeq { self.0.out() }
//@extract writer::ToFmtWrite::write_str | src/writer.rs :: impl<T> std::fmt::Write for ToFmtWrite<T> where T: std::io::Write, :: fn write_str | serves=C13,C19 features=serialize
//@rewrite std::fmt::Result ==> Result<(), core::fmt::Error>
//@rewrite |_c| std::fmt::Error ==> |_c| fmt_error_()
    fn write_str(&mut self, s: &str) -> Result<(), core::fmt::Error> {
        self.0.write_all(s.as_bytes()).map_err(|_c| fmt_error_())
    }
//@end
    /// std: the provided method `fmt::Write::write_char` is `self.write_str(c.encode_utf8(&mut [0; 4]))`
    #[verifier::external_body]
    fn write_char(&mut self, c: char) -> (r: Result<(), core::fmt::Error>) { unimplemented!() }
}
//@extract se::to_utf8_io_writer | src/se/mod.rs :: fn to_utf8_io_writer | serves=C13 features=serialize
//@rewrite W: std::io::Write ==> W: crate::Write
 fn to_utf8_io_writer<W, T>(writer: W, value: &T) -> Result<WriteResult, SeError>
where
    W: crate::Write,
    T: ?Sized + Serialize,
{
    value.serialize(Serializer::new(&mut ToFmtWrite(writer)))
}
//@end
// ---- the bridge from the event writer to the serde serializer (src/writer.rs) ----
/// src/errors.rs: `impl From<io::Error> for SeError { Self::Io(Arc::new(e)) }` -- the transcription of SeError leaves the Io variant out
impl vstd::std_specs::convert::FromSpecImpl<io::Error> for SeError {
    open spec fn obeys_from_spec() -> bool { false }
    open spec fn from_spec(e: io::Error) -> Self { arbitrary() }
}
impl From<io::Error> for SeError {
    #[verifier::external_body]
    fn from(e: io::Error) -> Self { unimplemented!() }
}
impl<W: crate::Write> crate::writer_::Writer<W> {
//@extract writer::Writer::write_serializable | src/writer.rs :: impl<W: Write> Writer<W> :: fn write_serializable | serves=C13,C19 features=serialize
//@rewrite use crate::se::{Indent, Serializer}; ==> 
 pub fn write_serializable<T: Serialize>(
        &mut self,
        tag_name: &str,
        content: &T,
    ) -> (r: Result<(), SeError>)
        requires old(self).inv()
        // C13 / C19: the value is serialized by a root serializer over THIS writer's sink (through the io->fmt adapter), with the tag
        // name validated as an XML name and the writer's own indentation state borrowed -- a serializer that satisfies its invariant
        // (`Serialize::serialize` requires it); an illegal tag name is an error
        ensures r is Ok ==> is_xml_name(tag_name@),
    {
        self.write_indent()?;
        let mut fmt = ToFmtWrite(&mut self.writer);
        let mut serializer = Serializer::with_root(&mut fmt, Some(tag_name))?;

        if let Some(indent) = &mut self.indent {
            serializer.set_indent(Indent::Borrow(indent));
        }

        content.serialize(serializer)?;

        Ok(())
    }
//@end
}
}
