// ---------------------------------------------------------------------------------------------
// Reference `memchr` (trusted contract, verified implementation).
// Assumption A-memchr: the real `memchr` crate satisfies these contracts: the iterators yield, in
// increasing order, exactly the indices whose byte equals one of the needles.
// ---------------------------------------------------------------------------------------------
pub mod memchr {
    use vstd::prelude::*;

    pub open spec fn is_needle3(n1: u8, n2: u8, n3: u8, b: u8) -> bool { b == n1 || b == n2 || b == n3 }

    pub struct Memchr3<'h> { pub n1: u8, pub n2: u8, pub n3: u8, pub hay: &'h [u8], pub pos: usize }

    impl<'h> Memchr3<'h> {
        pub open spec fn wf(&self) -> bool { self.pos <= self.hay@.len() }
        pub open spec fn needle(&self, b: u8) -> bool { is_needle3(self.n1, self.n2, self.n3, b) }
        pub fn next(&mut self) -> (r: Option<usize>)
            requires old(self).wf()
            ensures
                final(self).wf(), final(self).hay == old(self).hay,
                final(self).n1 == old(self).n1, final(self).n2 == old(self).n2, final(self).n3 == old(self).n3,
                match r {
                    Some(i) => old(self).pos <= i < old(self).hay@.len()
                        && old(self).needle(old(self).hay@[i as int])
                        && final(self).pos == i + 1
                        && forall|j: int| old(self).pos <= j < i ==> !old(self).needle(#[trigger] old(self).hay@[j]),
                    None => final(self).pos == old(self).hay@.len()
                        && forall|j: int| old(self).pos <= j < old(self).hay@.len() ==> !old(self).needle(#[trigger] old(self).hay@[j]),
                }
        {
            while self.pos < self.hay.len()
                invariant self.wf(), self.hay == old(self).hay, self.n1 == old(self).n1, self.n2 == old(self).n2, self.n3 == old(self).n3,
                    old(self).pos <= self.pos,
                    forall|j: int| old(self).pos <= j < self.pos ==> !self.needle(#[trigger] self.hay@[j]),
                decreases self.hay@.len() - self.pos
            {
                let p = self.pos;
                self.pos = p + 1;
                let b = self.hay[p];
                if b == self.n1 || b == self.n2 || b == self.n3 { return Some(p); }
            }
            None
        }
    }

    pub fn memchr3_iter<'h>(n1: u8, n2: u8, n3: u8, hay: &'h [u8]) -> (r: Memchr3<'h>)
        ensures r.pos == 0, r.hay == hay, r.n1 == n1, r.n2 == n2, r.n3 == n3, r.wf()
    { Memchr3 { n1, n2, n3, hay, pos: 0 } }

    pub fn memchr2_iter<'h>(n1: u8, n2: u8, hay: &'h [u8]) -> (r: Memchr3<'h>)
        ensures r.pos == 0, r.hay == hay, r.n1 == n1, r.n2 == n2, r.n3 == n2, r.wf()
    { Memchr3 { n1, n2, n3: n2, hay, pos: 0 } }

    pub fn memchr_iter<'h>(n1: u8, hay: &'h [u8]) -> (r: Memchr3<'h>)
        ensures r.pos == 0, r.hay == hay, r.n1 == n1, r.n2 == n1, r.n3 == n1, r.wf()
    { Memchr3 { n1, n2: n1, n3: n1, hay, pos: 0 } }

    /// first index of `needle` in `hay`
    pub fn memchr(needle: u8, hay: &[u8]) -> (r: Option<usize>)
        ensures match r {
            Some(i) => i < hay@.len() && hay@[i as int] == needle && forall|j: int| 0 <= j < i ==> #[trigger] hay@[j] != needle,
            None => forall|j: int| 0 <= j < hay@.len() ==> #[trigger] hay@[j] != needle,
        }
    {
        let mut it = memchr_iter(needle, hay);
        it.next()
    }

    pub fn memchr2(n1: u8, n2: u8, hay: &[u8]) -> (r: Option<usize>)
        ensures match r {
            Some(i) => i < hay@.len() && (hay@[i as int] == n1 || hay@[i as int] == n2)
                && forall|j: int| 0 <= j < i ==> (#[trigger] hay@[j] != n1 && hay@[j] != n2),
            None => forall|j: int| 0 <= j < hay@.len() ==> (#[trigger] hay@[j] != n1 && hay@[j] != n2),
        }
    {
        let mut it = memchr2_iter(n1, n2, hay);
        it.next()
    }
}

pub use memchr::memchr;
