// ---------------------------------------------------------------------------------------------
// Types shared by the reader units.
//  * hand transcriptions (trusted, listed in the evidence): io shim, Error (the variants the
//    verified functions construct), EncodingError, Decoder (decode is an assumed, uninterpreted contract)
//  * extracted declarations: Config, ParseState, ReaderState, the event structs and Event
// ---------------------------------------------------------------------------------------------
pub mod io {
    use vstd::prelude::*;
    #[derive(Clone, Copy)]
    pub enum ErrorKind { Interrupted, Other }
    impl vstd::std_specs::cmp::PartialEqSpecImpl for ErrorKind {
        open spec fn obeys_eq_spec() -> bool { true }
        open spec fn eq_spec(&self, o: &Self) -> bool { *self == *o }
    }
    impl PartialEq for ErrorKind {
        fn eq(&self, o: &Self) -> (r: bool)
            ensures r == (*self == *o)
        {
            match (self, o) { (ErrorKind::Interrupted, ErrorKind::Interrupted) => true, (ErrorKind::Other, ErrorKind::Other) => true, _ => false }
        }
    }
    /// model of std::io::Error: only its kind is observable to the verified code
    pub struct Error { pub k: ErrorKind }
    impl Error { pub fn kind(&self) -> (r: ErrorKind) ensures r == self.k { self.k } }
    pub type Result<T> = core::result::Result<T, Error>;
}

pub struct EncodingError { pub opaque: u8 }
pub mod encoding {
    use vstd::prelude::*;
//@extract encoding::UTF8_BOM | src/encoding.rs :: const UTF8_BOM | serves=C08,C17,C18
    // Unicode: the UTF-8 encoding of U+FEFF
    pub exec const UTF8_BOM: &'static [u8]
        ensures UTF8_BOM@.len() == 3, UTF8_BOM@[0] == 0xEF, UTF8_BOM@[1] == 0xBB, UTF8_BOM@[2] == 0xBF
    { &[0xEF, 0xBB, 0xBF] }
//@end
//@if encoding
    pub use crate::encdetect_::{detect_encoding, UTF16_BE_BOM, UTF16_LE_BOM};
//@endif
}

pub enum IllFormedError {
    MissingDeclVersion(Option<String>),
    MissingDoctypeName,
    MissingEndTag(String),
    UnmatchedEndTag(String),
    MismatchedEndTag {
        expected: String,
        found: String,
    },
    DoubleHyphenInComment,
}

pub enum Error {
    Io(std::sync::Arc<io::Error>),
    Syntax(SyntaxError),
    IllFormed(IllFormedError),
    Encoding(EncodingError),
    Namespace(NamespaceError),
}
impl vstd::std_specs::convert::FromSpecImpl<SyntaxError> for Error {
    open spec fn obeys_from_spec() -> bool { true }
    open spec fn from_spec(e: SyntaxError) -> Self { Error::Syntax(e) }
}
impl vstd::std_specs::convert::FromSpecImpl<IllFormedError> for Error {
    open spec fn obeys_from_spec() -> bool { true }
    open spec fn from_spec(e: IllFormedError) -> Self { Error::IllFormed(e) }
}
pub use io::Error as IoError;
pub use std::sync::Arc;
pub use core::ops::Deref;
impl vstd::std_specs::convert::FromSpecImpl<IoError> for Error {
    open spec fn obeys_from_spec() -> bool { false }
    open spec fn from_spec(e: IoError) -> Self { arbitrary() }
}
impl Error {
    /// assumed contract (String/Cow conversions are outside the verified subset): an ill-formedness or an encoding error
    #[verifier::external_body]
    pub fn missed_end(name: QName, decoder: Decoder) -> (r: Self)
        ensures r is IllFormed || r is Encoding
    { unimplemented!() }
}
impl From<IoError> for Error {
//@extract errors::From<IoError>::from | src/errors.rs :: impl From<IoError> for Error :: fn from | serves=C18
    fn from(error: IoError) -> (r: Error)
        ensures r is Io
    {
        Self::Io(Arc::new(error))
    }
//@end
}
impl vstd::std_specs::convert::FromSpecImpl<NamespaceError> for Error {
    open spec fn obeys_from_spec() -> bool { true }
    open spec fn from_spec(e: NamespaceError) -> Self { Error::Namespace(e) }
}
impl From<NamespaceError> for Error {
//@extract errors::From<NamespaceError>::from | src/errors.rs :: impl From<NamespaceError> for Error :: fn from | serves=C05
    fn from(error: NamespaceError) -> Self {
        Self::Namespace(error)
    }
//@end
}
impl vstd::std_specs::convert::FromSpecImpl<EncodingError> for Error {
    open spec fn obeys_from_spec() -> bool { true }
    open spec fn from_spec(e: EncodingError) -> Self { Error::Encoding(e) }
}
impl From<EncodingError> for Error {
//@extract errors::From<EncodingError>::from | src/errors.rs :: impl From<EncodingError> for Error :: fn from | serves=C12
    fn from(error: EncodingError) -> Error {
        Self::Encoding(error)
    }
//@end
}
impl From<SyntaxError> for Error {
//@extract errors::From<SyntaxError>::from | src/errors.rs :: impl From<SyntaxError> for Error :: fn from | serves=C01,C03
    fn from(error: SyntaxError) -> (r: Self)
    {
        Self::Syntax(error)
    }
//@end
}
impl From<IllFormedError> for Error {
//@extract errors::From<IllFormedError>::from | src/errors.rs :: impl From<IllFormedError> for Error :: fn from | serves=C04
    fn from(error: IllFormedError) -> (r: Self)
    {
        Self::IllFormed(error)
    }
//@end
}

/// `Decoder::decode` is outside the verified code (std::str::from_utf8 / encoding_rs): its result is an
/// uninterpreted function of the bytes.
//@extract encoding::Decoder | src/encoding.rs :: struct Decoder | serves=C01,C17
 #[derive(Clone, Copy)]
 pub struct Decoder {
}
//@end
pub uninterp spec fn spec_decode<'b>(d: Decoder, bytes: Seq<u8>) -> core::result::Result<Cow<'b, str>, EncodingError>;
impl Decoder {
//@extract encoding::Decoder::utf8 | src/encoding.rs :: impl Decoder :: fn utf8 | serves=C09
 pub fn utf8() -> (r: Self) {
        Decoder {
        }
    }
//@end
}
impl Decoder {
    #[verifier::external_body]
    pub fn decode<'b>(&self, bytes: &'b [u8]) -> (r: core::result::Result<Cow<'b, str>, EncodingError>)
        ensures r == spec_decode::<'b>(*self, bytes@)
    { unimplemented!() }
}

//@extract reader::Config | src/reader/mod.rs :: struct Config | serves=C04,C16
 pub struct Config {
    /// Whether unmatched closing tag names should be allowed. Unless enabled,
    /// in case of a dangling end tag, the [`Error::IllFormed(UnmatchedEndTag)`]
    /// is returned from read methods.
    ///
    /// When set to `true`, it won't check if a closing tag has a corresponding
    /// opening tag at all. For example, `<a></a></b>` will be permitted.
    ///
    /// Note that the emitted [`End`] event will not be modified if this is enabled,
    /// ie. it will contain the data of the unmatched end tag.
    ///
    /// Note, that setting this to `true` will lead to additional allocates that
    /// needed to store tag name for an [`End`] event.
    ///
    /// Default: `false`
    ///
    /// [`Error::IllFormed(UnmatchedEndTag)`]: crate::errors::IllFormedError::UnmatchedEndTag
    /// [`End`]: crate::events::Event::End
    pub allow_unmatched_ends: bool,

    /// Whether comments should be validated. If enabled, in case of invalid comment
    /// [`Error::IllFormed(DoubleHyphenInComment)`] is returned from read methods.
    ///
    /// When set to `true`, every [`Comment`] event will be checked for not
    /// containing `--`, which [is not allowed] in XML comments. Most of the time
    /// we don't want comments at all so we don't really care about comment
    /// correctness, thus the default value is `false` to improve performance.
    ///
    /// Default: `false`
    ///
    /// [`Error::IllFormed(DoubleHyphenInComment)`]: crate::errors::IllFormedError::DoubleHyphenInComment
    /// [`Comment`]: crate::events::Event::Comment
    /// [is not allowed]: https://www.w3.org/TR/xml11/#sec-comments
    pub check_comments: bool,

    /// Whether mismatched closing tag names should be detected. If enabled, in
    /// case of mismatch the [`Error::IllFormed(MismatchedEndTag)`] is returned from
    /// read methods.
    ///
    /// Note, that start and end tags [should match literally][spec], they cannot
    /// have different prefixes even if both prefixes resolve to the same namespace.
    /// The XML
    ///
    /// ```xml
    /// <outer xmlns="namespace" xmlns:p="namespace">
    /// </p:outer>
    /// ```
    ///
    /// is not valid, even though semantically the start tag is the same as the
    /// end tag. The reason is that namespaces are an extension of the original
    /// XML specification (without namespaces) and it should be backward-compatible.
    ///
    /// When set to `false`, it won't check if a closing tag matches the corresponding
    /// opening tag. For example, `<mytag></different_tag>` will be permitted.
    ///
    /// If the XML is known to be sane (already processed, etc.) this saves extra time.
    ///
    /// Note that the emitted [`End`] event will not be modified if this is disabled,
    /// ie. it will contain the data of the mismatched end tag.
    ///
    /// Note, that setting this to `true` will lead to additional allocates that
    /// needed to store tag name for an [`End`] event. However if [`expand_empty_elements`]
    /// is also set, only one additional allocation will be performed that support
    /// both these options.
    ///
    /// Default: `true`
    ///
    /// [`Error::IllFormed(MismatchedEndTag)`]: crate::errors::IllFormedError::MismatchedEndTag
    /// [spec]: https://www.w3.org/TR/xml11/#dt-etag
    /// [`End`]: crate::events::Event::End
    /// [`expand_empty_elements`]: Self::expand_empty_elements
    pub check_end_names: bool,

    /// Whether empty elements should be split into an `Open` and a `Close` event.
    ///
    /// When set to `true`, all [`Empty`] events produced by a self-closing tag
    /// like `<tag/>` are expanded into a [`Start`] event followed by an [`End`]
    /// event. When set to `false` (the default), those tags are represented by
    /// an [`Empty`] event instead.
    ///
    /// Note, that setting this to `true` will lead to additional allocates that
    /// needed to store tag name for an [`End`] event. However if [`check_end_names`]
    /// is also set, only one additional allocation will be performed that support
    /// both these options.
    ///
    /// Default: `false`
    ///
    /// [`Empty`]: crate::events::Event::Empty
    /// [`Start`]: crate::events::Event::Start
    /// [`End`]: crate::events::Event::End
    /// [`check_end_names`]: Self::check_end_names
    pub expand_empty_elements: bool,

    /// Whether trailing whitespace after the markup name are trimmed in closing
    /// tags `</a >`.
    ///
    /// If `true` the emitted [`End`] event is stripped of trailing whitespace
    /// after the markup name.
    ///
    /// Note that if set to `false` and [`check_end_names`] is `true` the comparison
    /// of markup names is going to fail erroneously if a closing tag contains
    /// trailing whitespace.
    ///
    /// Default: `true`
    ///
    /// [`End`]: crate::events::Event::End
    /// [`check_end_names`]: Self::check_end_names
    pub trim_markup_names_in_closing_tags: bool,

    /// Whether whitespace before character data should be removed.
    ///
    /// When set to `true`, leading whitespace is trimmed in [`Text`] events.
    /// If after that the event is empty it will not be pushed.
    ///
    /// Default: `false`
    ///
    /// <div style="background:rgba(80, 240, 100, 0.20);padding:0.75em;">
    ///
    /// WARNING: With this option every text events will be trimmed which is
    /// incorrect behavior when text events delimited by comments, processing
    /// instructions or CDATA sections. To correctly trim data manually apply
    /// [`BytesText::inplace_trim_start`] and [`BytesText::inplace_trim_end`]
    /// only to necessary events.
    /// </div>
    ///
    /// [`Text`]: crate::events::Event::Text
    /// [`BytesText::inplace_trim_start`]: crate::events::BytesText::inplace_trim_start
    /// [`BytesText::inplace_trim_end`]: crate::events::BytesText::inplace_trim_end
    pub trim_text_start: bool,

    /// Whether whitespace after character data should be removed.
    ///
    /// When set to `true`, trailing whitespace is trimmed in [`Text`] events.
    /// If after that the event is empty it will not be pushed.
    ///
    /// Default: `false`
    ///
    /// <div style="background:rgba(80, 240, 100, 0.20);padding:0.75em;">
    ///
    /// WARNING: With this option every text events will be trimmed which is
    /// incorrect behavior when text events delimited by comments, processing
    /// instructions or CDATA sections. To correctly trim data manually apply
    /// [`BytesText::inplace_trim_start`] and [`BytesText::inplace_trim_end`]
    /// only to necessary events.
    /// </div>
    ///
    /// [`Text`]: crate::events::Event::Text
    /// [`BytesText::inplace_trim_start`]: crate::events::BytesText::inplace_trim_start
    /// [`BytesText::inplace_trim_end`]: crate::events::BytesText::inplace_trim_end
    pub trim_text_end: bool,
}
//@end
impl Config {
//@extract reader::Config::trim_text | src/reader/mod.rs :: impl Config :: fn trim_text | serves=C12,C16
 pub fn trim_text(&mut self, trim: bool)
        // documented: sets BOTH trimming switches, nothing else
        ensures *final(self) == (Config { trim_text_start: trim, trim_text_end: trim, ..*old(self) })
 {
        self.trim_text_start = trim;
        self.trim_text_end = trim;
    }
//@end
//@extract reader::Config::enable_all_checks | src/reader/mod.rs :: impl Config :: fn enable_all_checks | serves=C04,C16
 pub fn enable_all_checks(&mut self, enable: bool)
        ensures *final(self) == (Config { check_comments: enable, check_end_names: enable, ..*old(self) })
 {
        self.check_comments = enable;
        self.check_end_names = enable;
    }
//@end
}

//@extract reader::ParseState | src/reader/mod.rs :: enum ParseState | serves=C01,C03
pub enum ParseState {
    /// Initial state in which reader stay after creation. Transition from that
    /// state could produce a `Text`, `Decl`, `Comment` or `Start` event. The next
    /// state is always `InsideMarkup`. The reader will never return to this state. The
    /// event emitted during transition to `InsideMarkup` is a `StartEvent` if the
    /// first symbol not `<`, otherwise no event are emitted.
    Init,
    /// State after seeing the `<` symbol. Depending on the next symbol all other
    /// events could be generated.
    ///
    /// After generating one event the reader moves to the `InsideText` state.
    InsideMarkup,
    /// State in which reader searches the `<` symbol of a markup. All bytes before
    /// that symbol will be returned in the [`Event::Text`] event. After that
    /// the reader moves to the `InsideMarkup` state.
    InsideText,
    /// This state is used only if option [`expand_empty_elements`] is set to `true`.
    /// Reader enters to this state when it is in a `InsideText` state and emits an
    /// [`Event::Start`] event. The next event emitted will be an [`Event::End`],
    /// after which reader returned to the `InsideText` state.
    ///
    /// [`expand_empty_elements`]: Config::expand_empty_elements
    InsideEmpty,
    /// Reader enters this state when `Eof` event generated or an error occurred.
    /// This is the last state, the reader stay in it forever.
    Done,
}
//@end

//@extract state::ReaderState | src/reader/state.rs :: struct ReaderState | serves=C01,C03,C04,C17
 pub struct ReaderState {
    /// Number of bytes read from the source of data since the reader was created
    pub offset: u64,
    /// A snapshot of an `offset` of the last error returned. It can be less than
    /// `offset`, because some errors conveniently report at earlier position,
    /// and changing `offset` is not possible, because `Error::IllFormed` errors
    /// are recoverable.
    pub last_error_offset: u64,
    /// Defines how to process next byte
    pub state: ParseState,
    /// User-defined settings that affect parsing
    pub config: Config,
    /// All currently Started elements which didn't have a matching
    /// End element yet.
    ///
    /// For an XML
    ///
    /// ```xml
    /// <root><one/><inner attr="value">|<tag></inner></root>
    /// ```
    /// when cursor at the `|` position buffer contains:
    ///
    /// ```text
    /// rootinner
    /// ^   ^
    /// ```
    ///
    /// The `^` symbols shows which positions stored in the [`Self::opened_starts`]
    /// (0 and 4 in that case).
    pub opened_buffer: Vec<u8>,
    /// Opened name start indexes into [`Self::opened_buffer`]. See documentation
    /// for that field for details
    pub opened_starts: Vec<usize>,
}
//@end

//@extract name::QName | src/name.rs :: struct QName | serves=C01
 #[derive(Clone, Copy)]
 pub struct QName<'a>(pub &'a [u8]);
//@end

/// `#[derive(PartialEq)]` of QName, written out (trusted transcription of the derive): compares the bytes
impl<'a> vstd::std_specs::cmp::PartialEqSpecImpl for QName<'a> {
    open spec fn obeys_eq_spec() -> bool { true }
    open spec fn eq_spec(&self, o: &Self) -> bool { self.0@ == o.0@ }
}
impl<'a> PartialEq for QName<'a> {
    fn eq(&self, o: &Self) -> (r: bool)
        ensures r == (self.0@ == o.0@)
    {
        let r = self.0 == o.0;
        proof { if r { assert(self.0@ =~= o.0@); } }
        r
    }
}
//@extract events::BytesStart | src/events/mod.rs :: struct BytesStart | serves=C01
//@rewrite-all pub(crate) ==> pub
 pub struct BytesStart<'a> {
    /// content of the element, before any utf8 conversion
    pub buf: Cow<'a, [u8]>,
    /// end of the element name, the name starts at that the start of `buf`
    pub name_len: usize,
}
//@end
//@extract events::BytesEnd | src/events/mod.rs :: struct BytesEnd | serves=C01
 pub struct BytesEnd<'a> {
    pub name: Cow<'a, [u8]>,
}
//@end
//@extract events::BytesText | src/events/mod.rs :: struct BytesText | serves=C01
 pub struct BytesText<'a> {
    /// Escaped then encoded content of the event. Content is encoded in the XML
    /// document encoding when event comes from the reader and should be in the
    /// document encoding when event passed to the writer
    pub content: Cow<'a, [u8]>,
    /// Encoding in which the `content` is stored inside the event
    pub decoder: Decoder,
}
//@end
//@extract events::BytesCData | src/events/mod.rs :: struct BytesCData | serves=C01
 pub struct BytesCData<'a> {
    pub content: Cow<'a, [u8]>,
    /// Encoding in which the `content` is stored inside the event
    pub decoder: Decoder,
}
//@end
//@extract events::BytesPI | src/events/mod.rs :: struct BytesPI | serves=C01
 pub struct BytesPI<'a> {
    pub content: BytesStart<'a>,
}
//@end
//@extract events::BytesDecl | src/events/mod.rs :: struct BytesDecl | serves=C01
 pub struct BytesDecl<'a> {
    pub content: BytesStart<'a>,
}
//@end
//@extract events::Event | src/events/mod.rs :: enum Event | serves=C01
 pub enum Event<'a> {
    /// Start tag (with attributes) `<tag attr="value">`.
    Start(BytesStart<'a>),
    /// End tag `</tag>`.
    End(BytesEnd<'a>),
    /// Empty element tag (with attributes) `<tag attr="value" />`.
    Empty(BytesStart<'a>),
    /// Escaped character data between tags.
    Text(BytesText<'a>),
    /// Unescaped character data stored in `<![CDATA[...]]>`.
    CData(BytesCData<'a>),
    /// Comment `<!-- ... -->`.
    Comment(BytesText<'a>),
    /// XML declaration `<?xml ...?>`.
    Decl(BytesDecl<'a>),
    /// Processing instruction `<?...?>`.
    PI(BytesPI<'a>),
    /// Document type definition data (DTD) stored in `<!DOCTYPE ...>`.
    DocType(BytesText<'a>),
    /// End of XML document.
    Eof,
}
//@end

impl<'a> BytesStart<'a> {
//@extract events::BytesStart::wrap | src/events/mod.rs :: impl<'a> BytesStart<'a> :: fn wrap | serves=C01,C03
 fn wrap(content: &'a [u8], name_len: usize) -> (r: Self)
        ensures r.buf@ == content@, r.name_len == name_len, r.buf == Cow::<'a, [u8]>::Borrowed(content)
    {
        BytesStart {
            buf: Cow::Borrowed(content),
            name_len,
        }
    }
//@end
//@extract events::BytesStart::name | src/events/mod.rs :: impl<'a> BytesStart<'a> :: fn name | serves=C01,C03,C04
 fn name(&self) -> (r: QName)
        requires self.name_len <= self.buf@.len()
        ensures r.0@ == self.buf@.subrange(0, self.name_len as int)
    {
        proof { axiom_cow_bytes(&self.buf); }
        QName(&self.buf[..self.name_len])
    }
//@end
//@extract events::BytesStart::attributes_raw | src/events/mod.rs :: impl<'a> BytesStart<'a> :: fn attributes_raw | serves=C03
 fn attributes_raw(&self) -> (r: &[u8])
        requires self.name_len <= self.buf@.len()
        ensures r@ == self.buf@.subrange(self.name_len as int, self.buf@.len() as int)
    {
        proof { axiom_cow_bytes(&self.buf); }
        &self.buf[self.name_len..]
    }
//@end
}
impl<'a> BytesEnd<'a> {
//@extract events::BytesEnd::wrap | src/events/mod.rs :: impl<'a> BytesEnd<'a> :: fn wrap | serves=C01,C04
 fn wrap(name: Cow<'a, [u8]>) -> (r: Self)
        ensures r.name == name
    {
        BytesEnd { name }
    }
//@end
//@extract events::BytesEnd::name | src/events/mod.rs :: impl<'a> BytesEnd<'a> :: fn name | serves=C01,C03
 fn name(&self) -> (r: QName)
        ensures r.0@ == self.name@
    {
        proof { axiom_cow_bytes(&self.name); }
        QName(&self.name)
    }
//@end
}
impl<'a> BytesText<'a> {
//@extract events::BytesText::wrap | src/events/mod.rs :: impl<'a> BytesText<'a> :: fn wrap | serves=C01
 fn wrap<C: Into<Cow<'a, [u8]>>>(content: C, decoder: Decoder) -> (r: Self)
        ensures call_ensures(<C as Into<Cow<'a, [u8]>>>::into, (content,), r.content), r.decoder == decoder
    {
        Self {
            content: content.into(),
            decoder,
        }
    }
//@end
}
//@extract events::BytesText::Deref | src/events/mod.rs :: impl<'a> Deref for BytesText<'a> | serves=C03
impl<'a> Deref for BytesText<'a> {
    type Target = [u8];

    fn deref(&self) -> (r: &[u8])
        ensures r@ == self.content@
    {
        proof { axiom_cow_bytes(&self.content); }
        &self.content
    }
}
//@end
impl<'a> BytesCData<'a> {
//@extract events::BytesCData::wrap | src/events/mod.rs :: impl<'a> BytesCData<'a> :: fn wrap | serves=C01
 fn wrap<C: Into<Cow<'a, [u8]>>>(content: C, decoder: Decoder) -> (r: Self)
        ensures call_ensures(<C as Into<Cow<'a, [u8]>>>::into, (content,), r.content), r.decoder == decoder
    {
        Self {
            content: content.into(),
            decoder,
        }
    }
//@end
}
impl<'a> BytesPI<'a> {
//@extract events::BytesPI::wrap | src/events/mod.rs :: impl<'a> BytesPI<'a> :: fn wrap | serves=C01
 fn wrap(content: &'a [u8], target_len: usize) -> (r: Self)
        ensures r.content.buf@ == content@, r.content.name_len == target_len, r.content.buf == Cow::<'a, [u8]>::Borrowed(content)
    {
        Self {
            content: BytesStart::wrap(content, target_len),
        }
    }
//@end
//@extract events::BytesPI::target | src/events/mod.rs :: impl<'a> BytesPI<'a> :: fn target | serves=C03
 fn target(&self) -> (r: &[u8])
        requires self.content.name_len <= self.content.buf@.len()
        ensures r@ == self.content.buf@.subrange(0, self.content.name_len as int)
    {
        self.content.name().0
    }
//@end
//@extract events::BytesPI::content | src/events/mod.rs :: impl<'a> BytesPI<'a> :: fn content | serves=C03
 fn content(&self) -> (r: &[u8])
        requires self.content.name_len <= self.content.buf@.len()
        ensures r@ == self.content.buf@.subrange(self.content.name_len as int, self.content.buf@.len() as int)
    {
        self.content.attributes_raw()
    }
//@end
}
impl<'a> BytesDecl<'a> {
//@extract events::BytesDecl::from_start | src/events/mod.rs :: impl<'a> BytesDecl<'a> :: fn from_start | serves=C01
 fn from_start(start: BytesStart<'a>) -> (r: Self)
        ensures r.content == start
    {
        Self { content: start }
    }
//@end
}

// ---- `Deref<Target = [u8]>` of the event types: exactly the stored bytes (C08, C09, C19; used by the writer and by comparisons) ----
//@extract events::BytesStart::Deref | src/events/mod.rs :: impl<'a> Deref for BytesStart<'a> | serves=C08,C09,C19
impl<'a> Deref for BytesStart<'a> {
    type Target = [u8];

    fn deref(&self) -> (r: &[u8])
        ensures r@ == self.buf@
    {
        proof { axiom_cow_bytes(&self.buf); }
        &self.buf
    }
}
//@end
//@extract events::BytesEnd::Deref | src/events/mod.rs :: impl<'a> Deref for BytesEnd<'a> | serves=C08,C09,C19
impl<'a> Deref for BytesEnd<'a> {
    type Target = [u8];

    fn deref(&self) -> (r: &[u8])
        ensures r@ == self.name@
    {
        proof { axiom_cow_bytes(&self.name); }
        &self.name
    }
}
//@end
//@extract events::BytesCData::Deref | src/events/mod.rs :: impl<'a> Deref for BytesCData<'a> | serves=C08,C09,C19
impl<'a> Deref for BytesCData<'a> {
    type Target = [u8];

    fn deref(&self) -> (r: &[u8])
        ensures r@ == self.content@
    {
        proof { axiom_cow_bytes(&self.content); }
        &self.content
    }
}
//@end
//@extract events::BytesPI::Deref | src/events/mod.rs :: impl<'a> Deref for BytesPI<'a> | serves=C08,C09,C19
impl<'a> Deref for BytesPI<'a> {
    type Target = [u8];

    fn deref(&self) -> (r: &[u8])
        ensures r@ == self.content.buf@
    {
        &self.content
    }
}
//@end
//@extract events::BytesDecl::Deref | src/events/mod.rs :: impl<'a> Deref for BytesDecl<'a> | serves=C08,C09,C19
impl<'a> Deref for BytesDecl<'a> {
    type Target = [u8];

    fn deref(&self) -> (r: &[u8])
        ensures r@ == self.content.buf@
    {
        &self.content
    }
}
//@end
