// ---------------------------------------------------------------------------------------------
// U-seescape (C13 "no string payload -- text, attribute value, list item -- can introduce markup"): the two
// escaping tables of the serializer, `escape_item` and `escape_list` (src/se/simple_type.rs), on the real text.
// Each arm calls the verified `_escape` with a byte test; the contract fixes the table from the documentation of
// QuoteLevel / QuoteTarget and `lemma_payload_safe` draws the consequence.
// ---------------------------------------------------------------------------------------------
pub mod seesc_ {
use super::*;
use vstd::prelude::*;
use vstd::string::*;
use vstd::utf8::*;
use escfn_::{_escape, spec_escape, escapable, cow_str_bytes, lemma_escaped_clean, ref_tail_byte, esc_one};

//@extract se::QuoteLevel | src/se/mod.rs :: enum QuoteLevel | serves=C13 features=serialize
 #[derive(Clone, Copy)]
 pub enum QuoteLevel {
    /// Performs escaping, escape all characters that could have special meaning
    /// in the XML. This mode is compatible with SGML specification.
    ///
    /// Characters that will be replaced:
    ///
    /// Original | Replacement
    /// ---------|------------
    /// `<`      | `&lt;`
    /// `>`      | `&gt;`
    /// `&`      | `&amp;`
    /// `"`      | `&quot;`
    /// `'`      | `&apos;`
    Full,
    /// Performs escaping that is compatible with SGML specification.
    ///
    /// This level adds escaping of `>` to the `Minimal` level, which is [required]
    /// for compatibility with SGML.
    ///
    /// Characters that will be replaced:
    ///
    /// Original | Replacement
    /// ---------|------------
    /// `<`      | `&lt;`
    /// `>`      | `&gt;`
    /// `&`      | `&amp;`
    ///
    /// [required]: https://www.w3.org/TR/xml11/#syntax
    Partial,
    /// Performs the minimal possible escaping, escape only strictly necessary
    /// characters.
    ///
    /// Characters that will be replaced:
    ///
    /// Original | Replacement
    /// ---------|------------
    /// `<`      | `&lt;`
    /// `&`      | `&amp;`
    Minimal,
}
//@end
//@extract simple_type::QuoteTarget | src/se/simple_type.rs :: enum QuoteTarget | serves=C13 features=serialize
 #[derive(Clone, Copy)]
 pub enum QuoteTarget {
    /// Escape data for a text content. No additional escape symbols
    Text,
    /// Escape data for a double-quoted attribute. `"` always escaped
    DoubleQAttr,
    /// Escape data for a single-quoted attribute. `'` always escaped
    SingleQAttr,
}
//@end

/// the characters that MUST be replaced in a payload written to `target` at `level` (documentation of QuoteLevel:
/// Full = < > & ' " ; Partial = < > & ; Minimal = < & ; an attribute value additionally its own quote)
pub open spec fn must_escape(target: QuoteTarget, level: QuoteLevel, b: u8) -> bool {
    ||| b == 0x26 || b == 0x3c
    ||| (b == 0x3e && !(level is Minimal))
    ||| ((b == 0x27 || b == 0x22) && level is Full)
    ||| (b == 0x22 && target is DoubleQAttr)
    ||| (b == 0x27 && target is SingleQAttr)
}
/// an item of a space-separated list additionally has its whitespace replaced (it would split the item)
pub open spec fn must_escape_item(target: QuoteTarget, level: QuoteLevel, b: u8) -> bool {
    must_escape(target, level, b) || b == 0x20 || b == 0x0d || b == 0x0a || b == 0x09
}
pub open spec fn p_list(target: QuoteTarget, level: QuoteLevel) -> spec_fn(u8) -> bool { |b: u8| must_escape(target, level, b) }
pub open spec fn p_item(target: QuoteTarget, level: QuoteLevel) -> spec_fn(u8) -> bool { |b: u8| must_escape_item(target, level, b) }

/// C13: an escaped payload cannot introduce markup: it holds no '<', every '&' opens a reference written by the
/// escaping, and it does not hold the quote that delimits the attribute value it is written into
pub proof fn lemma_payload_safe(s: Seq<u8>, target: QuoteTarget, level: QuoteLevel, item: bool)
    ensures ({
        let out = spec_escape(s, if item { p_item(target, level) } else { p_list(target, level) });
        forall|k: int| 0 <= k < out.len() ==> {
            &&& #[trigger] out[k] != 0x3c
            &&& (target is DoubleQAttr ==> out[k] != 0x22)
            &&& (target is SingleQAttr ==> out[k] != 0x27)
            &&& (item ==> out[k] != 0x20 && out[k] != 0x09 && out[k] != 0x0a && out[k] != 0x0d)
        }
    })
{
    let p = if item { p_item(target, level) } else { p_list(target, level) };
    lemma_escaped_clean(s, p);
    let out = spec_escape(s, p);
    assert forall|k: int| 0 <= k < out.len() implies {
            &&& #[trigger] out[k] != 0x3c
            &&& (target is DoubleQAttr ==> out[k] != 0x22)
            &&& (target is SingleQAttr ==> out[k] != 0x27)
            &&& (item ==> out[k] != 0x20 && out[k] != 0x09 && out[k] != 0x0a && out[k] != 0x0d)
        } by {
        let c = out[k];
        if c == 0x3c { assert(p(c)); }
        if target is DoubleQAttr && c == 0x22 { assert(p(c)); }
        if target is SingleQAttr && c == 0x27 { assert(p(c)); }
        if item && (c == 0x20 || c == 0x09 || c == 0x0a || c == 0x0d) { assert(p(c)); }
    }
}

//@extract simple_type::escape_item | src/se/simple_type.rs :: fn escape_item | serves=C13 features=serialize
//@rewrite-all _escape(value, ==> _escape(Cow::Borrowed(value),
/// Escapes atomic value that could be part of a `xs:list`. All whitespace characters
/// additionally escaped
pub fn escape_item(value: &str, target: QuoteTarget, level: QuoteLevel) -> (r: Cow<str>)
    // C13: exactly the bytes the table demands are replaced by references (QuoteLevel / QuoteTarget documentation)
    ensures cow_str_bytes(r) == spec_escape(value.spec_bytes(), p_item(target, level)),
{
    use QuoteLevel::*;
    use QuoteTarget::*;

    match (target, level) {
        (_, Full) => _escape(Cow::Borrowed(value), |ch: u8| -> (x: bool) ensures x == must_escape_item(target, level, ch) { match ch {
            // Spaces used as delimiters of list items, cannot be used in the item
            b' ' | b'\r' | b'\n' | b'\t' => true,
            // Required characters to escape
            b'&' | b'<' | b'>' | b'\'' | b'\"' => true,
            _ => false,
        } }),
        //----------------------------------------------------------------------
        (Text, Partial) => _escape(Cow::Borrowed(value), |ch: u8| -> (x: bool) ensures x == must_escape_item(target, level, ch) { match ch {
            // Spaces used as delimiters of list items, cannot be used in the item
            b' ' | b'\r' | b'\n' | b'\t' => true,
            // Required characters to escape
            b'&' | b'<' | b'>' => true,
            _ => false,
        } }),
        (Text, Minimal) => _escape(Cow::Borrowed(value), |ch: u8| -> (x: bool) ensures x == must_escape_item(target, level, ch) { match ch {
            // Spaces used as delimiters of list items, cannot be used in the item
            b' ' | b'\r' | b'\n' | b'\t' => true,
            // Required characters to escape
            b'&' | b'<' => true,
            _ => false,
        } }),
        //----------------------------------------------------------------------
        (DoubleQAttr, Partial) => _escape(Cow::Borrowed(value), |ch: u8| -> (x: bool) ensures x == must_escape_item(target, level, ch) { match ch {
            // Spaces used as delimiters of list items, cannot be used in the item
            b' ' | b'\r' | b'\n' | b'\t' => true,
            // Required characters to escape
            b'&' | b'<' | b'>' => true,
            // Double quoted attribute should escape quote
            b'"' => true,
            _ => false,
        } }),
        (DoubleQAttr, Minimal) => _escape(Cow::Borrowed(value), |ch: u8| -> (x: bool) ensures x == must_escape_item(target, level, ch) { match ch {
            // Spaces used as delimiters of list items, cannot be used in the item
            b' ' | b'\r' | b'\n' | b'\t' => true,
            // Required characters to escape
            b'&' | b'<' => true,
            // Double quoted attribute should escape quote
            b'"' => true,
            _ => false,
        } }),
        //----------------------------------------------------------------------
        (SingleQAttr, Partial) => _escape(Cow::Borrowed(value), |ch: u8| -> (x: bool) ensures x == must_escape_item(target, level, ch) { match ch {
            // Spaces used as delimiters of list items
            b' ' | b'\r' | b'\n' | b'\t' => true,
            // Required characters to escape
            b'&' | b'<' | b'>' => true,
            // Single quoted attribute should escape quote
            b'\'' => true,
            _ => false,
        } }),
        (SingleQAttr, Minimal) => _escape(Cow::Borrowed(value), |ch: u8| -> (x: bool) ensures x == must_escape_item(target, level, ch) { match ch {
            // Spaces used as delimiters of list items
            b' ' | b'\r' | b'\n' | b'\t' => true,
            // Required characters to escape
            b'&' | b'<' => true,
            // Single quoted attribute should escape quote
            b'\'' => true,
            _ => false,
        } }),
    }
}
//@end
//@extract simple_type::escape_list | src/se/simple_type.rs :: fn escape_list | serves=C13 features=serialize
//@rewrite-all _escape(value, ==> _escape(Cow::Borrowed(value),
/// Escapes XSD simple type value
pub fn escape_list(value: &str, target: QuoteTarget, level: QuoteLevel) -> (r: Cow<str>)
    // C13: exactly the bytes the table demands are replaced by references (QuoteLevel / QuoteTarget documentation)
    ensures cow_str_bytes(r) == spec_escape(value.spec_bytes(), p_list(target, level)),
{
    use QuoteLevel::*;
    use QuoteTarget::*;

    match (target, level) {
        (_, Full) => _escape(Cow::Borrowed(value), |ch: u8| -> (x: bool) ensures x == must_escape(target, level, ch) { match ch {
            // Required characters to escape
            b'&' | b'<' | b'>' | b'\'' | b'\"' => true,
            _ => false,
        } }),
        //----------------------------------------------------------------------
        (Text, Partial) => _escape(Cow::Borrowed(value), |ch: u8| -> (x: bool) ensures x == must_escape(target, level, ch) { match ch {
            // Required characters to escape
            b'&' | b'<' | b'>' => true,
            _ => false,
        } }),
        (Text, Minimal) => _escape(Cow::Borrowed(value), |ch: u8| -> (x: bool) ensures x == must_escape(target, level, ch) { match ch {
            // Required characters to escape
            b'&' | b'<' => true,
            _ => false,
        } }),
        //----------------------------------------------------------------------
        (DoubleQAttr, Partial) => _escape(Cow::Borrowed(value), |ch: u8| -> (x: bool) ensures x == must_escape(target, level, ch) { match ch {
            // Required characters to escape
            b'&' | b'<' | b'>' => true,
            // Double quoted attribute should escape quote
            b'"' => true,
            _ => false,
        } }),
        (DoubleQAttr, Minimal) => _escape(Cow::Borrowed(value), |ch: u8| -> (x: bool) ensures x == must_escape(target, level, ch) { match ch {
            // Required characters to escape
            b'&' | b'<' => true,
            // Double quoted attribute should escape quote
            b'"' => true,
            _ => false,
        } }),
        //----------------------------------------------------------------------
        (SingleQAttr, Partial) => _escape(Cow::Borrowed(value), |ch: u8| -> (x: bool) ensures x == must_escape(target, level, ch) { match ch {
            // Required characters to escape
            b'&' | b'<' | b'>' => true,
            // Single quoted attribute should escape quote
            b'\'' => true,
            _ => false,
        } }),
        (SingleQAttr, Minimal) => _escape(Cow::Borrowed(value), |ch: u8| -> (x: bool) ensures x == must_escape(target, level, ch) { match ch {
            // Required characters to escape
            b'&' | b'<' => true,
            // Single quoted attribute should escape quote
            b'\'' => true,
            _ => false,
        } }),
    }
}
//@end
}
