// ---------------------------------------------------------------------------------------------
// Model of std::io::BufRead / tokio::io::AsyncBufRead (trusted, A-bufread): the documented contract.
//   * fill_buf returns a prefix of the bytes not yet consumed, empty only at end of input
//     (how long the prefix is, is up to the reader: ALL chunkings are covered);
//   * or Err(Interrupted) -- finitely many times in a row (ghost budget; needed for termination only);
//   * or any other error (counted in nfaults);
//   * consume(amt) requires amt <= the length of the buffer last returned by fill_buf.
// ---------------------------------------------------------------------------------------------
pub trait BufRead {
    /// bytes not yet consumed
    spec fn rest(&self) -> Seq<u8>;
    /// number of bytes of `rest` currently held in the reader's buffer (returned by the last fill_buf)
    spec fn avail(&self) -> nat;
    /// how many more times the reader may answer Interrupted (finite; ghost)
    spec fn budget(&self) -> nat;
    /// number of non-interrupt errors returned so far
    spec fn nfaults(&self) -> nat;
    /// prophecy: the length of the piece that the next fill_buf that is not interrupted will return
    /// (by definition an interrupted attempt does not change it)
    spec fn next_len(&self) -> nat;

    fn fill_buf(&mut self) -> (r: io::Result<&[u8]>)
        ensures
            final(self).rest() == old(self).rest(),
            match r {
                Ok(n) => {
                    &&& n@.len() <= old(self).rest().len() && n@ == old(self).rest().subrange(0, n@.len() as int)
                    &&& n@.len() == 0 ==> old(self).rest().len() == 0
                    &&& final(self).avail() == n@.len() && n@.len() == old(self).next_len()
                    &&& final(self).budget() == old(self).budget() && final(self).nfaults() == old(self).nfaults()
                },
                Err(e) => {
                    &&& final(self).avail() == 0
                    &&& if e.k == io::ErrorKind::Interrupted {
                            final(self).budget() < old(self).budget() && final(self).nfaults() == old(self).nfaults()
                                && final(self).next_len() == old(self).next_len()
                        } else {
                            final(self).budget() == old(self).budget() && final(self).nfaults() == old(self).nfaults() + 1
                        }
                },
            };

    fn consume(&mut self, amt: usize)
        requires amt <= old(self).avail(),
        ensures
            final(self).rest() == old(self).rest().subrange(amt as int, old(self).rest().len() as int),
            final(self).avail() == old(self).avail() - amt,
            final(self).budget() == old(self).budget(), final(self).nfaults() == old(self).nfaults();

    /// avail never exceeds what is left
    proof fn avail_bound(&self)
        ensures self.avail() <= self.rest().len();
}
