// ---------------------------------------------------------------------------------------------
// `Error::missed_end` (src/errors.rs), real text. The other units use the assumed contract of the model in types.rs
// (`r is IllFormed || r is Encoding`); here the real function is verified against that clause AND against the
// stronger one C12 / C04 need: the name reported as missing is the decoding of the name that was asked for.
// The region is a second copy under another name (declared rewrite of the function name) because the model
// of types.rs is part of this unit too.
// ---------------------------------------------------------------------------------------------
pub mod missed_ {
use super::*;
use vstd::prelude::*;
verus! {
/// std: `impl From<Cow<str>> for String` is `into_owned`: the same characters
pub assume_specification<'a>[ <String as From<Cow<'a, str>>>::from ](c: Cow<'a, str>) -> (r: String)
    ensures r@ == c@;
impl Error {
//@extract errors::Error::missed_end#real | src/errors.rs :: impl Error :: fn missed_end | serves=C12,C04,C05
//@rewrite fn missed_end ==> fn missed_end__real
 fn missed_end__real(name: QName, decoder: Decoder) -> (r: Self)
        ensures
            // the clause the model in types.rs assumes
            r is IllFormed || r is Encoding,
            // C12 / C04: the end tag reported as missing is the (decoded) name that was asked for -- or the decoding error itself
            match spec_decode(decoder, name.0@) {
                Ok(n) => r matches Error::IllFormed(IllFormedError::MissingEndTag(s)) && s@ == n@,
                Err(e) => r == Error::Encoding(e),
            },
    {
        match decoder.decode(name.as_ref()) {
            Ok(name) => IllFormedError::MissingEndTag(name.into()).into(),
            Err(err) => err.into(),
        }
    }
//@end
}
} // verus!
}
