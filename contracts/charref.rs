// ---------------------------------------------------------------------------------------------
// U-charref: numeric character references (src/escape.rs parse_number / from_str_radix). C10:
// "&#N;" / "&#xH;" of a valid non-zero scalar value gives exactly that character; zero, surrogates,
// out-of-range values, signs, empty or garbage digit strings are errors.
// The digit grammar below is written from XML production [66] CharRef ::= '&#' [0-9]+ ';' | '&#x' [0-9a-fA-F]+ ';'
// ---------------------------------------------------------------------------------------------
pub mod escape_ {
use super::*;
use vstd::prelude::*;
use vstd::string::StringSliceAdditionalSpecFns;
use core::num::ParseIntError;

#[verifier::external_type_specification]
#[verifier::external_body]
pub struct ExParseIntError(core::num::ParseIntError);

/// value of one digit in the given radix, if it is one
pub open spec fn digit_val(b: u8, radix: u32) -> Option<nat> {
    if 0x30 <= b <= 0x39 { Some((b - 0x30) as nat) }
    else if radix == 16 && 0x61 <= b <= 0x66 { Some((b - 0x61 + 10) as nat) }
    else if radix == 16 && 0x41 <= b <= 0x46 { Some((b - 0x41 + 10) as nat) }
    else { None }
}
/// value of a non-empty string of digits (unbounded), None for empty strings and non-digits
pub open spec fn digits_value(s: Seq<u8>, radix: u32) -> Option<nat> decreases s.len() {
    if s.len() == 0 { None }
    else if s.len() == 1 { digit_val(s[0], radix) }
    else {
        match (digits_value(s.drop_last(), radix), digit_val(s.last(), radix)) {
            (Some(v), Some(d)) => Some(v * (radix as nat) + d),
            _ => None,
        }
    }
}
/// the first byte of a digit string is a digit
pub proof fn lemma_first_digit(s: Seq<u8>, radix: u32)
    requires s.len() > 0
    ensures digits_value(s, radix) is Some ==> digit_val(s[0], radix) is Some
    decreases s.len()
{
    if s.len() > 1 { lemma_first_digit(s.drop_last(), radix); }
}
/// Unicode scalar value
pub open spec fn is_scalar(v: nat) -> bool { v < 0xD800 || (0xE000 <= v <= 0x10FFFF) }

/// documented behaviour of u32::from_str_radix (radix 10 / 16): an optional '+', then digits; the value must fit
pub open spec fn std_parse_u32(bytes: Seq<u8>, radix: u32) -> Option<u32> {
    let b = if bytes.len() > 0 && bytes[0] == 0x2b { bytes.subrange(1, bytes.len() as int) } else { bytes };
    match digits_value(b, radix) {
        Some(v) => if v <= u32::MAX { Some(v as u32) } else { None },
        None => None,
    }
}
pub assume_specification[ u32::from_str_radix ](src: &str, radix: u32) -> (r: core::result::Result<u32, core::num::ParseIntError>)
    requires radix == 10 || radix == 16
    ensures match r {
        Ok(v) => std_parse_u32(src.spec_bytes(), radix) == Some(v),
        Err(_) => std_parse_u32(src.spec_bytes(), radix) is None,
    };
pub assume_specification[ core::char::from_u32 ](i: u32) -> (r: Option<char>)
    ensures match r { Some(c) => is_scalar(i as nat) && c as u32 == i, None => !is_scalar(i as nat) };

pub mod strshim2 {
    use vstd::prelude::*;
    use vstd::string::StringSliceAdditionalSpecFns;
    /// assumed contract of `s.strip_prefix(c)` for an ASCII character c
    #[verifier::external_body]
    pub fn strip_prefix_char<'a>(s: &'a str, c: char) -> (r: Option<&'a str>)
        requires (c as u32) < 0x80
        ensures match r {
            Some(rest) => s.spec_bytes().len() > 0 && s.spec_bytes()[0] == c as u8 && rest.spec_bytes() == s.spec_bytes().subrange(1, s.spec_bytes().len() as int),
            None => !(s.spec_bytes().len() > 0 && s.spec_bytes()[0] == c as u8),
        }
    { s.strip_prefix(c) }
}

/// the digits of a character reference body and their radix
pub open spec fn charref_digits(num: Seq<u8>) -> (Seq<u8>, u32) {
    if num.len() > 0 && num[0] == 0x78 { (num.subrange(1, num.len() as int), 16u32) } else { (num, 10u32) }
}

//@extract escape::ParseCharRefError | src/escape.rs :: enum ParseCharRefError | serves=C10
 pub enum ParseCharRefError {
    /// Number contains sign character (`+` or `-`) which is not allowed.
    UnexpectedSign,
    /// Number cannot be parsed due to non-number characters or a numeric overflow.
    InvalidNumber(ParseIntError),
    /// Character reference represents not a valid unicode codepoint.
    InvalidCodepoint(u32),
    /// Character reference expanded to a not permitted character for an XML.
    ///
    /// Currently, only `0x0` character produces this error.
    IllegalCharacter(u32),
}
//@end

//@extract escape::parse_number | src/escape.rs :: fn parse_number | serves=C10
//@rewrite num.strip_prefix( ==> strshim2::strip_prefix_char(num,
pub fn parse_number(num: &str) -> (r: Result<char, ParseCharRefError>)
    ensures ({
        let (digits, radix) = charref_digits(num.spec_bytes());
        match digits_value(digits, radix) {
            // C10: a valid non-zero scalar value gives exactly that character ...
            Some(v) => if v != 0 && is_scalar(v) { r matches Ok(c) && c as u32 == v }
                       // ... zero, surrogates and out-of-range values are errors
                       else if v == 0 { r matches Err(ParseCharRefError::IllegalCharacter(_)) }
                       else if v <= u32::MAX { r matches Err(ParseCharRefError::InvalidCodepoint(_)) }
                       else { r is Err },
            // signs, empty and garbage digit strings are errors
            None => r is Err,
        }
    })
{
    let code = if let Some(hex) = strshim2::strip_prefix_char(num, 'x') {
        from_str_radix(hex, 16)?
    } else {
        from_str_radix(num, 10)?
    };
    if code == 0 {
        return Err(ParseCharRefError::IllegalCharacter(code));
    }
    match std::char::from_u32(code) {
        Some(c) => Ok(c),
        None => Err(ParseCharRefError::InvalidCodepoint(code)),
    }
}
//@end

//@extract escape::from_str_radix | src/escape.rs :: fn from_str_radix | serves=C10
//@rewrite .map_err(ParseCharRefError::InvalidNumber) ==> .map_err(|e| ParseCharRefError::InvalidNumber(e))
pub fn from_str_radix(src: &str, radix: u32) -> (r: Result<u32, ParseCharRefError>)
    requires radix == 10 || radix == 16
    ensures match r {
        Ok(v) => digits_value(src.spec_bytes(), radix) == Some(v as nat),
        Err(_) => !(digits_value(src.spec_bytes(), radix) matches Some(v) && v <= u32::MAX),
    }
{
    proof {
        // a leading sign is not a digit, so a digit string never starts with one
        if src.spec_bytes().len() > 0 { lemma_first_digit(src.spec_bytes(), radix); }
    }
    match src.as_bytes().first().copied() {
        // We should not allow sign numbers, but u32::from_str_radix will accept `+`.
        // We also handle `-` to be consistent in returned errors
        Some(b'+') | Some(b'-') => Err(ParseCharRefError::UnexpectedSign),
        _ => u32::from_str_radix(src, radix).map_err(|e| ParseCharRefError::InvalidNumber(e)),
    }
}
//@end
}
