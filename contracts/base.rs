// ---------------------------------------------------------------------------------------------
// Shared vocabulary: error enums (transcribed type declarations of src/errors.rs, only the
// variants the verified functions construct), XML whitespace, trusted size axioms.
// ---------------------------------------------------------------------------------------------
pub enum SyntaxError {
    InvalidBangMarkup,
    UnclosedPIOrXmlDecl,
    UnclosedComment,
    UnclosedDoctype,
    UnclosedCData,
    UnclosedTag,
}

/// hand transcription of src/name.rs NamespaceError
pub enum NamespaceError {
    UnknownPrefix(Vec<u8>),
    InvalidXmlPrefixBind(Vec<u8>),
    InvalidXmlnsPrefixBind(Vec<u8>),
    InvalidPrefixForXml(Vec<u8>),
    InvalidPrefixForXmlns(Vec<u8>),
}

/// A-size (trusted): a Rust slice never has more than isize::MAX elements.
pub axiom fn axiom_slice_len<T>(s: &[T])
    ensures s@.len() <= usize::MAX;

/// XML whitespace, production [3] S ::= (#x20 | #x9 | #xD | #xA)+
pub open spec fn is_ws(b: u8) -> bool { b == 0x20 || b == 0x09 || b == 0x0d || b == 0x0a }

/// length of the longest whitespace-free prefix (the "name" of an element-like content)
pub open spec fn spec_name_len(s: Seq<u8>) -> nat decreases s.len() {
    if s.len() == 0 || is_ws(s[0]) { 0 } else { 1 + spec_name_len(s.subrange(1, s.len() as int)) }
}

/// helper of normalisation N13: equality of byte slices (verified; a module of its own so that the units that
/// verify only their own modules name it in `verify_modules`)
pub mod n13_ {
use vstd::prelude::*;
pub fn bytes_eq(a: &[u8], b: &[u8]) -> (r: bool)
    ensures r == (a@ == b@)
{
    if a.len() != b.len() { return false; }
    let mut i = 0;
    while i < a.len()
        invariant i <= a@.len(), a@.len() == b@.len(), forall|j: int| 0 <= j < i ==> a@[j] == b@[j],
        decreases a@.len() - i
    {
        if a[i] != b[i] { return false; }
        i = i + 1;
    }
    proof { assert(a@ =~= b@); }
    true
}
}
pub use n13_::bytes_eq;
