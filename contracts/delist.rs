// ---------------------------------------------------------------------------------------------
// U-delist (feature `serialize`): items of an xs:list (src/de/simple_type.rs, ListIter). C14 mechanism:
// the content of a list comes borrowed from the input (from_str), borrowed from an event buffer or
// owned (from_reader); ListIter::next_element_seed hands the seed the SAME item -- the next run of
// non-space bytes, with the same `escaped` flag -- and keeps the SAME rest, however it is held.
// ---------------------------------------------------------------------------------------------
pub mod delist_ {
use super::*;
use vstd::prelude::*;
use vstd::string::*;
use vstd::utf8::*;
use core::result::Result;
use crate::dekey_::{CowRef, DeError, cowref_str, cowref_bytes};
use core::ops::Range;
use crate::memchr::memchr;
use crate::escfn_::lemma_ascii_boundaries;

/// assumed (std documentation of `str::split_at`): with `mid` on a character boundary, the two halves
pub mod shim_l {
    use vstd::prelude::*;
    use vstd::string::*;
    #[verifier::external_body]
    pub fn split_at<'a>(s: &'a str, mid: usize) -> (r: (&'a str, &'a str))
        requires mid <= s.spec_bytes().len(), vstd::utf8::is_char_boundary(s.spec_bytes(), mid as int),
        ensures r.0.spec_bytes() == s.spec_bytes().subrange(0, mid as int), r.1.spec_bytes() == s.spec_bytes().subrange(mid as int, s.spec_bytes().len() as int)
    { s.split_at(mid) }
}

//@extract de::simple_type::Content | src/de/simple_type.rs :: enum Content | serves=C14 features=serialize
////////////////////////////////////////////////////////////////////////////////////////////////////

/// A version of [`Cow`] that can borrow from two different buffers, one of them
/// is a deserializer input, and conceptually contains only part of owned data.
///
/// # Lifetimes
/// - `'de` -- lifetime of the data that deserializer borrow from the parsed input
/// - `'a` -- lifetime of the data that owned by a deserializer
pub enum Content<'de, 'a> {
    /// An input borrowed from the parsed data
    Input(&'de str),
    /// An input borrowed from the buffer owned by another deserializer
    Slice(&'a str),
    /// An input taken from an external deserializer, owned by that deserializer.
    /// Only part of this data, located after offset represented by `usize`, used
    /// to deserialize data, the other is a garbage that can't be dropped because
    /// we do not want to make reallocations if they will not required.
    Owned(String, usize),
}
//@end
/// the bytes a content stands for -- whichever way it is held
pub open spec fn content_bytes<'de, 'a>(c: Content<'de, 'a>) -> Seq<u8> {
    match c {
        Content::Input(s) => s.spec_bytes(),
        Content::Slice(s) => s.spec_bytes(),
        Content::Owned(s, off) => encode_utf8(s@).subrange(off as int, encode_utf8(s@).len() as int),
    }
}
/// representation invariant: the offset of an owned content lies on a character boundary
pub open spec fn content_wf<'de, 'a>(c: Content<'de, 'a>) -> bool {
    c matches Content::Owned(s, off) ==> off <= encode_utf8(s@).len() && is_char_boundary(encode_utf8(s@), off as int)
}
impl<'de, 'a> Content<'de, 'a> {
//@extract de::simple_type::Content::as_str | src/de/simple_type.rs :: impl<'de, 'a> Content<'de, 'a> :: fn as_str | serves=C14 features=serialize
//@rewrite s.split_at(*offset).1 ==> shim_l::split_at(s, *offset).1
    /// Returns string representation of the content
    pub fn as_str(&self) -> (r: &str)
        requires content_wf(*self)
        ensures r.spec_bytes() == content_bytes(*self)
    {
        match self {
            Content::Input(s) => s,
            Content::Slice(s) => s,
            Content::Owned(s, offset) => shim_l::split_at(s, *offset).1,
        }
    }
//@end
}

//@extract de::simple_type::AtomicDeserializer | src/de/simple_type.rs :: struct AtomicDeserializer | serves=C14 features=serialize
/// A deserializer that handles ordinary [simple type definition][item] with
/// `{variety} = atomic`, or an ordinary [simple type] definition with
/// `{variety} = union` whose basic members are all atomic.
///
/// This deserializer can deserialize only primitive types:
/// - numbers
/// - booleans
/// - strings
/// - units
/// - options
/// - unit variants of enums
///
/// Identifiers represented as strings and deserialized accordingly.
///
/// Deserialization of all other types will provide a string and in most cases
/// the deserialization will fail because visitor does not expect that.
///
/// The `Owned` variant of the content acts as a storage for data, allocated by
/// an external deserializer that pass it via [`ListIter`].
///
/// [item]: https://www.w3.org/TR/xmlschema11-1/#std-item_type_definition
/// [simple type]: https://www.w3.org/TR/xmlschema11-1/#Simple_Type_Definition
pub struct AtomicDeserializer<'de, 'a> {
    /// Content of the attribute value, text content or CDATA content
    pub content: CowRef<'de, 'a, str>,
    /// If `true`, `content` in an escaped form and should be unescaped before use
    pub escaped: bool,
}
//@end
/// Model of serde::de::DeserializeSeed (A-serde-det): what a seed makes of an item deserializer is a FUNCTION of the
/// seed and of what the deserializer holds -- the item's bytes and the `escaped` flag --, not of how the item is held
/// (borrowed from the input, from a buffer, or owned). This is the determinism C14 is stated under. `D` is
/// monomorphised to AtomicDeserializer, the only deserializer ListIter hands out.
pub trait DeserializeSeed<'de>: Sized {
    type Value;
    spec fn seed_out(self, item: Seq<u8>, escaped: bool) -> Result<Self::Value, DeError>;
    fn deserialize<'a>(self, deserializer: AtomicDeserializer<'de, 'a>) -> (r: Result<Self::Value, DeError>)
        ensures r == self.seed_out(encode_utf8(cowref_str(deserializer.content)), deserializer.escaped);
}

// ---- the grammar of an xs:list: items separated by one or more spaces ----
pub open spec fn skip_spaces(s: Seq<u8>) -> Seq<u8> decreases s.len() {
    if s.len() > 0 && s[0] == 0x20 { skip_spaces(s.subrange(1, s.len() as int)) } else { s }
}
pub open spec fn item_len(s: Seq<u8>) -> nat decreases s.len() {
    if s.len() == 0 || s[0] == 0x20 { 0 } else { 1 + item_len(s.subrange(1, s.len() as int)) }
}
pub proof fn lemma_skip(s: Seq<u8>, k: int)
    requires 0 <= k <= s.len(), forall|j: int| 0 <= j < k ==> s[j] == 0x20, k == s.len() || s[k] != 0x20,
    ensures skip_spaces(s) == s.subrange(k, s.len() as int)
    decreases k
{
    if k == 0 { assert(s.subrange(0, s.len() as int) =~= s); }
    else {
        let t = s.subrange(1, s.len() as int);
        assert forall|j: int| 0 <= j < k - 1 implies t[j] == 0x20 by { assert(t[j] == s[j + 1]); }
        lemma_skip(t, k - 1);
        assert(t.subrange(k - 1, t.len() as int) =~= s.subrange(k, s.len() as int));
    }
}
pub proof fn lemma_item(s: Seq<u8>, k: int)
    requires 0 <= k <= s.len(), forall|j: int| 0 <= j < k ==> s[j] != 0x20, k == s.len() || s[k] == 0x20,
    ensures item_len(s) == k
    decreases k
{
    if k > 0 {
        let t = s.subrange(1, s.len() as int);
        assert forall|j: int| 0 <= j < k - 1 implies t[j] != 0x20 by { assert(t[j] == s[j + 1]); }
        lemma_item(t, k - 1);
    }
}
/// C14: what the next call yields, as a function of the BYTES of the content only
pub open spec fn map_some<V>(r: Result<V, DeError>) -> Result<Option<V>, DeError> {
    match r { Ok(v) => Ok(Some(v)), Err(e) => Err(e) }
}

//@extract de::simple_type::ListIter | src/de/simple_type.rs :: struct ListIter | serves=C14 features=serialize
////////////////////////////////////////////////////////////////////////////////////////////////////

/// Iterator over string sub-slices delimited by one or several spaces.
/// Contains decoded value of the `simpleType`.
/// Iteration ends when list contains `None`.
pub struct ListIter<'de, 'a> {
    /// If `Some`, contains unconsumed data of the list
    pub content: Option<Content<'de, 'a>>,
    /// If `true`, `content` in escaped form and should be unescaped before use
    pub escaped: bool,
}
//@end
impl<'de, 'a> ListIter<'de, 'a> {
//@extract de::simple_type::ListIter::next_element_seed | src/de/simple_type.rs :: impl<'de, 'a> SeqAccess<'de> for ListIter<'de, 'a> :: fn next_element_seed | serves=C14 features=serialize
//@rewrite const DELIMITER: u8 = b' '; ==> let DELIMITER: u8 = b' ';
//@rewrite string.as_bytes().iter().position(|ch| *ch != DELIMITER) ==> shim::position_ref(string.as_bytes(), |ch: &u8| *ch != DELIMITER)
//@rewrite-all s.split_at( ==> shim_l::split_at(&s,
//@rewrite .map(Some) ==> .map(|v__: T::Value| Some(v__))
    pub fn next_element_seed<T>(&mut self, seed: T) -> (r: Result<Option<T::Value>, DeError>)
    where
        T: DeserializeSeed<'de>,
        // owned content only arises from a transcoding decoder, i.e. outside the UTF-8 documents C14 speaks about (and the
        // arm for it hands out wrong items: findings/outside_properties)
        requires !(old(self).content matches Some(Content::Owned(_, _))),
        ensures
            final(self).escaped == old(self).escaped, !(final(self).content matches Some(Content::Owned(_, _))),
            // C14: the item, the flag and the rest are functions of the BYTES of the content: the next run of non-space
            // bytes goes to the seed with the list's `escaped` flag; what follows it is kept; a list of spaces is exhausted
            match old(self).content {
                None => r == Result::<Option<T::Value>, DeError>::Ok(None) && final(self).content is None,
                Some(c) => {
                    let t = skip_spaces(content_bytes(c));
                    if t.len() == 0 { r == Result::<Option<T::Value>, DeError>::Ok(None) && final(self).content is None }
                    else {
                        let n = item_len(t) as int;
                        &&& r == map_some(seed.seed_out(t.subrange(0, n), old(self).escaped))
                        &&& if n == t.len() { final(self).content is None }
                            else { final(self).content matches Some(c2) && content_bytes(c2) == t.subrange(n, t.len() as int) }
                    }
                },
            },
    {
        let ghost c0 = self.content;
        let ghost esc = self.escaped;
        if let Some(mut content) = self.content.take() {
            let DELIMITER: u8 = b' ';

            loop
                invariant
                    DELIMITER == 0x20, self.content is None, self.escaped == esc, c0 matches Some(cc) && skip_spaces(content_bytes(cc)) == skip_spaces(content_bytes(content)),
                    !(content is Owned), esc == old(self).escaped, c0 == old(self).content,
                decreases content_bytes(content).len()
            {
                let string = content.as_str();
                let ghost sb = string.spec_bytes();
                proof {
                    encode_utf8_valid_utf8(string@);
                    if sb.len() == 0 { assert(skip_spaces(sb) =~= sb); }
                }
                if string.is_empty() {
                    return Ok(None);
                }
                return match memchr(DELIMITER, string.as_bytes()) {
                    // No delimiters in the `content`, deserialize it as a whole atomic
                    None => { proof { lemma_skip(sb, 0); lemma_item(sb, sb.len() as int); assert(sb.subrange(0, sb.len() as int) =~= sb); } match content {
                        Content::Input(s) => seed.deserialize(AtomicDeserializer {
                            content: CowRef::Input(s),
                            escaped: self.escaped,
                        }),
                        Content::Slice(s) => seed.deserialize(AtomicDeserializer {
                            content: CowRef::Slice(s),
                            escaped: self.escaped,
                        }),
                        Content::Owned(s, 0) => seed.deserialize(AtomicDeserializer {
                            content: CowRef::Owned(s),
                            escaped: self.escaped,
                        }),
                        Content::Owned(s, offset) => seed.deserialize(AtomicDeserializer {
                            content: CowRef::Slice(shim_l::split_at(&s,offset).1),
                            escaped: self.escaped,
                        }),
                    } },
                    // `content` started with a space, skip them all
                    Some(0) => {
                        // Skip all spaces
                        let start = shim::position_ref(string.as_bytes(), |ch: &u8| -> (x: bool) ensures x == (*ch != 0x20) { *ch != DELIMITER });
                        proof {
                            match start {
                                None => { lemma_skip(sb, sb.len() as int); assert(sb.subrange(sb.len() as int, sb.len() as int) =~= Seq::<u8>::empty()); }
                                Some(k) => { lemma_skip(sb, k as int); lemma_ascii_boundaries(sb, k as int - 1); lemma_skip(sb.subrange(k as int, sb.len() as int), 0); assert(sb.subrange(k as int, sb.len() as int).subrange(0, sb.len() - k) =~= sb.subrange(k as int, sb.len() as int)); }
                            }
                        }
                        content = match (start, content) {
                            // We cannot find any non-space character, so string contains only spaces
                            (None, _) => return Ok(None),
                            // Borrow result from input or deserializer depending on the initial borrowing
                            (Some(start), Content::Input(s)) => Content::Input(shim_l::split_at(&s,start).1),
                            (Some(start), Content::Slice(s)) => Content::Slice(shim_l::split_at(&s,start).1),
                            // Skip additional bytes if we own data
                            (Some(start), Content::Owned(s, skip)) => {
                                Content::Owned(s, skip + start)
                            }
                        };
                        continue;
                    }
                    // `content` started from an atomic
                    Some(end) => { proof {
                            lemma_skip(sb, 0); assert(sb.subrange(0, sb.len() as int) =~= sb);
                            lemma_item(sb, end as int);
                            lemma_ascii_boundaries(sb, end as int);
                        } match content {
                        // Borrow for the next iteration from input or deserializer depending on
                        // the initial borrowing
                        Content::Input(s) => {
                            let (item, rest) = shim_l::split_at(&s,end);
                            self.content = Some(Content::Input(rest));

                            seed.deserialize(AtomicDeserializer {
                                content: CowRef::Input(item),
                                escaped: self.escaped,
                            })
                        }
                        Content::Slice(s) => {
                            let (item, rest) = shim_l::split_at(&s,end);
                            self.content = Some(Content::Slice(rest));

                            seed.deserialize(AtomicDeserializer {
                                content: CowRef::Slice(item),
                                escaped: self.escaped,
                            })
                        }
                        // Skip additional bytes if we own data for next iteration, but deserialize from
                        // the borrowed data from our buffer
                        Content::Owned(s, skip) => {
                            let item = shim_l::split_at(&s,skip + end).0;
                            let result = seed.deserialize(AtomicDeserializer {
                                content: CowRef::Slice(item),
                                escaped: self.escaped,
                            });

                            self.content = Some(Content::Owned(s, skip + end));

                            result
                        }
                    } },
                }
                .map(|v__: T::Value| -> (o: Option<T::Value>) ensures o == Some(v__) { Some(v__) });
            }
        }
        Ok(None)
    }
//@end
//@extract de::simple_type::ListIter::next_element_seed#total | src/de/simple_type.rs :: impl<'de, 'a> SeqAccess<'de> for ListIter<'de, 'a> :: fn next_element_seed | serves=C07 features=serialize
//@rewrite fn next_element_seed ==> fn next_element_seed_total
//@rewrite const DELIMITER: u8 = b' '; ==> let DELIMITER: u8 = b' ';
//@rewrite string.as_bytes().iter().position(|ch| *ch != DELIMITER) ==> shim::position_ref(string.as_bytes(), |ch: &u8| *ch != DELIMITER)
//@rewrite-all s.split_at( ==> shim_l::split_at(&s,
//@rewrite .map(Some) ==> .map(|v__: T::Value| Some(v__))
    pub fn next_element_seed_total<T>(&mut self, seed: T) -> (r: Result<Option<T::Value>, DeError>)
    where
        T: DeserializeSeed<'de>,
        // C07 (never a panic, bounded time), for EVERY way the content is held -- owned content included: every `split_at` is at a
        // character boundary inside the string, the offset of owned content stays on one, and a call that leaves content behind
        // has made it strictly shorter (so a consumer that asks until `None` stops after at most as many items as there are bytes)
        requires old(self).content matches Some(c) ==> content_wf(c),
            // A-size: the byte length of a String fits usize
            old(self).content matches Some(Content::Owned(s, _)) ==> encode_utf8(s@).len() <= usize::MAX,
        ensures
            final(self).escaped == old(self).escaped,
            final(self).content matches Some(c2) ==> content_wf(c2)
                && (old(self).content matches Some(c) && content_bytes(c2).len() < content_bytes(c).len()),
    {
        let ghost c0 = self.content;
        let ghost esc = self.escaped;
        if let Some(mut content) = self.content.take() {
            let DELIMITER: u8 = b' ';

            loop
                invariant
                    DELIMITER == 0x20, self.content is None, self.escaped == esc, esc == old(self).escaped, c0 == old(self).content,
                    content_wf(content), c0 matches Some(cc) && content_bytes(content).len() <= content_bytes(cc).len(),
                    content matches Content::Owned(s, _) ==> encode_utf8(s@).len() <= usize::MAX,
                decreases content_bytes(content).len()
            {
                let string = content.as_str();
                let ghost sb = string.spec_bytes();
                proof {
                    encode_utf8_valid_utf8(string@);
                    if content is Owned { encode_utf8_valid_utf8(content->Owned_0@); }
                }
                if string.is_empty() {
                    return Ok(None);
                }
                return match memchr(DELIMITER, string.as_bytes()) {
                    // No delimiters in the `content`, deserialize it as a whole atomic
                    None => { match content {
                        Content::Input(s) => seed.deserialize(AtomicDeserializer {
                            content: CowRef::Input(s),
                            escaped: self.escaped,
                        }),
                        Content::Slice(s) => seed.deserialize(AtomicDeserializer {
                            content: CowRef::Slice(s),
                            escaped: self.escaped,
                        }),
                        Content::Owned(s, 0) => seed.deserialize(AtomicDeserializer {
                            content: CowRef::Owned(s),
                            escaped: self.escaped,
                        }),
                        Content::Owned(s, offset) => seed.deserialize(AtomicDeserializer {
                            content: CowRef::Slice(shim_l::split_at(&s,offset).1),
                            escaped: self.escaped,
                        }),
                    } },
                    // `content` started with a space, skip them all
                    Some(0) => {
                        // Skip all spaces
                        let start = shim::position_ref(string.as_bytes(), |ch: &u8| -> (x: bool) ensures x == (*ch != 0x20) { *ch != DELIMITER });
                        proof {
                            if let Some(k) = start {
                                // the byte in front of the first non-space is a space (ASCII): the position behind it is a boundary --
                                // in the string and, for owned content, in the whole buffer
                                assert(k >= 1);
                                lemma_ascii_boundaries(sb, k as int - 1);
                                if content is Owned {
                                    let w = encode_utf8(content->Owned_0@); let off = content->Owned_1;
                                    assert(w[off + k - 1] == sb[k as int - 1]);
                                    lemma_ascii_boundaries(w, off + k - 1);
                                    assert(w.subrange(off + k, w.len() as int).len() < sb.len());
                                }
                            }
                        }
                        content = match (start, content) {
                            // We cannot find any non-space character, so string contains only spaces
                            (None, _) => return Ok(None),
                            // Borrow result from input or deserializer depending on the initial borrowing
                            (Some(start), Content::Input(s)) => Content::Input(shim_l::split_at(&s,start).1),
                            (Some(start), Content::Slice(s)) => Content::Slice(shim_l::split_at(&s,start).1),
                            // Skip additional bytes if we own data
                            (Some(start), Content::Owned(s, skip)) => {
                                Content::Owned(s, skip + start)
                            }
                        };
                        continue;
                    }
                    // `content` started from an atomic
                    Some(end) => { proof {
                            assert(end >= 1);
                            lemma_ascii_boundaries(sb, end as int);
                            if content is Owned {
                                let w = encode_utf8(content->Owned_0@); let off = content->Owned_1;
                                assert(w[off + end] == sb[end as int]);
                                lemma_ascii_boundaries(w, off + end);
                                assert(w.subrange(off + end, w.len() as int).len() < sb.len());
                            }
                        } match content {
                        // Borrow for the next iteration from input or deserializer depending on
                        // the initial borrowing
                        Content::Input(s) => {
                            let (item, rest) = shim_l::split_at(&s,end);
                            self.content = Some(Content::Input(rest));

                            seed.deserialize(AtomicDeserializer {
                                content: CowRef::Input(item),
                                escaped: self.escaped,
                            })
                        }
                        Content::Slice(s) => {
                            let (item, rest) = shim_l::split_at(&s,end);
                            self.content = Some(Content::Slice(rest));

                            seed.deserialize(AtomicDeserializer {
                                content: CowRef::Slice(item),
                                escaped: self.escaped,
                            })
                        }
                        // Skip additional bytes if we own data for next iteration, but deserialize from
                        // the borrowed data from our buffer
                        Content::Owned(s, skip) => {
                            let item = shim_l::split_at(&s,skip + end).0;
                            let result = seed.deserialize(AtomicDeserializer {
                                content: CowRef::Slice(item),
                                escaped: self.escaped,
                            });

                            self.content = Some(Content::Owned(s, skip + end));

                            result
                        }
                    } },
                }
                .map(|v__: T::Value| -> (o: Option<T::Value>) ensures o == Some(v__) { Some(v__) });
            }
        }
        Ok(None)
    }
//@end
}

// ---- the value a list (or any simple type) is read from: attribute values and text content ----
/// std: `String::into_bytes` gives the UTF-8 bytes of the string
pub assume_specification[ String::into_bytes ](s: String) -> (v: Vec<u8>)
    ensures v@ == encode_utf8(s@);
//@extract de::simple_type::SimpleTypeDeserializer | src/de/simple_type.rs :: struct SimpleTypeDeserializer | serves=C14 features=serialize
 pub struct SimpleTypeDeserializer<'de, 'a> {
    /// - In case of attribute contains escaped attribute value
    /// - In case of text contains unescaped text value
    pub content: CowRef<'de, 'a, [u8]>,
    /// If `true`, `content` in escaped form and should be unescaped before use
    pub escaped: bool,
    /// Decoder used to deserialize string data, numeric and boolean data.
    /// Not used for deserializing raw byte buffers
    pub decoder: Decoder,
}
//@end
impl<'de, 'a> SimpleTypeDeserializer<'de, 'a> {
//@extract de::simple_type::SimpleTypeDeserializer::from_text | src/de/simple_type.rs :: impl<'de, 'a> SimpleTypeDeserializer<'de, 'a> :: fn from_text | serves=C14 features=serialize
 pub fn from_text(text: Cow<'de, str>) -> (r: Self)
        // C14: a text borrowed from the input (from_str) and an owned one (from_reader) give the same bytes, never escaped
        ensures cowref_bytes(r.content) == encode_utf8(text@), !r.escaped, !(r.content is Slice),
 {
        let content = match text {
            Cow::Borrowed(slice) => CowRef::Input(slice.as_bytes()),
            Cow::Owned(content) => CowRef::Owned(content.into_bytes()),
        };
        Self::new(content, false, Decoder::utf8())
    }
//@end
//@extract de::simple_type::SimpleTypeDeserializer::from_part | src/de/simple_type.rs :: impl<'de, 'a> SimpleTypeDeserializer<'de, 'a> :: fn from_part | serves=C14 features=serialize
 fn from_part(
        value: &'a Cow<'de, [u8]>,
        range: Range<usize>,
        escaped: bool,
        decoder: Decoder,
    ) -> (r: Self)
        requires range.start <= range.end <= value@.len(),
        // C14: the same part of an attribute value whether the event borrows (from_str) or owns (from_reader) its bytes
        ensures cowref_bytes(r.content) == value@.subrange(range.start as int, range.end as int), r.escaped == escaped, r.decoder == decoder,
            !(r.content is Owned),
    {
        proof { axiom_cow_bytes(value); }
        let content = match value {
            Cow::Borrowed(slice) => CowRef::Input(&slice[range]),
            Cow::Owned(slice) => CowRef::Slice(&slice[range]),
        };
        Self::new(content, escaped, decoder)
    }
//@end
//@extract de::simple_type::SimpleTypeDeserializer::new | src/de/simple_type.rs :: impl<'de, 'a> SimpleTypeDeserializer<'de, 'a> :: fn new | serves=C14 features=serialize
 pub fn new(content: CowRef<'de, 'a, [u8]>, escaped: bool, decoder: Decoder) -> (r: Self)
        ensures r.content == content, r.escaped == escaped, r.decoder == decoder
 {
        Self {
            content,
            escaped,
            decoder,
        }
    }
//@end
//@extract de::simple_type::SimpleTypeDeserializer::decode | src/de/simple_type.rs :: impl<'de, 'a> SimpleTypeDeserializer<'de, 'a> :: fn decode | serves=C14 features=serialize n11=@decode
    pub fn decode<'b>(&'b self) -> (r: Result<CowRef<'de, 'b, str>, DeError>)
        // C14: ONE result however the bytes are held: their decoding, or the decoding error
        ensures match spec_decode::<'b>(self.decoder, cowref_bytes(self.content)) {
            Ok(c) => r matches Ok(q) && cowref_str(q) == c@,
            Err(e) => r is Err,
        },
    {
        Ok(match self.content {
            CowRef::Input(content) => match match self.decoder.decode(content) { Ok(v__) => v__, Err(e__) => return Err(From::from(e__)) } {
                Cow::Borrowed(content) => CowRef::Input(content),
                Cow::Owned(content) => CowRef::Owned(content),
            },
            CowRef::Slice(content) => match match self.decoder.decode(content) { Ok(v__) => v__, Err(e__) => return Err(From::from(e__)) } {
                Cow::Borrowed(content) => CowRef::Slice(content),
                Cow::Owned(content) => CowRef::Owned(content),
            },
            CowRef::Owned(ref content) => match match self.decoder.decode(content) { Ok(v__) => v__, Err(e__) => return Err(From::from(e__)) } {
                Cow::Borrowed(content) => CowRef::Slice(content),
                Cow::Owned(content) => CowRef::Owned(content),
            },
        })
    }
//@end
}
}
