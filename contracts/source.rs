// ---------------------------------------------------------------------------------------------
// U-slice: the XmlSource trait (the contract every source must satisfy) and its implementation
// for in-memory slices. Real text; the contract is written from C01/C02/C18:
//   every helper's result, position delta and remaining input are a function of the bytes that
//   remain (never of how they are delivered); an I/O error is returned iff the source failed.
// ---------------------------------------------------------------------------------------------
//@extract reader::ReadTextResult | src/reader/mod.rs :: enum ReadTextResult | serves=C01,C02
////////////////////////////////////////////////////////////////////////////////////////////////////

/// Result of an attempt to read XML textual data from the reader.
pub enum ReadTextResult<'r, B> {
    /// Start of markup (`<` character) was found in the first byte.
    /// Contains buffer that should be returned back to the next iteration cycle
    /// to satisfy borrow checker requirements.
    Markup(B),
    /// Contains text block up to start of markup (`<` character).
    UpToMarkup(&'r [u8]),
    /// Contains text block up to EOF, start of markup (`<` character) was not found.
    UpToEof(&'r [u8]),
    /// IO error occurred.
    Err(io::Error),
}
//@end

//@extract reader::XmlSource | src/reader/mod.rs :: trait XmlSource | serves=C01,C02,C03,C08,C12,C16,C17,C18
/// Represents an input for a reader that can return borrowed data.
///
/// There are two implementors of this trait: generic one that read data from
/// `Self`, copies some part of it into a provided buffer of type `B` and then
/// returns data that borrow from that buffer.
///
/// The other implementor is for `&[u8]` and instead of copying data returns
/// borrowed data from `Self` instead. This implementation allows zero-copy
/// deserialization.
///
/// # Parameters
/// - `'r`: lifetime of a buffer from which events will borrow
/// - `B`: a type of a buffer that can be used to store data read from `Self` and
///   from which events can borrow
pub trait XmlSource<'r, B> {
    /// the bytes this source has not delivered yet
    spec fn remaining(&self) -> Seq<u8>;
    /// number of (non-interrupt) I/O errors the underlying reader has returned so far
    spec fn faults(&self) -> nat;
    /// number of bytes of `remaining` that are available without another refill
    spec fn buffered(&self) -> nat;
    /// what `remaining` will be once the byte-order-mark sniff has run: the sniff sees the first piece of
    /// the input only (C02), so this depends on the source -- but it is a function of the source state
    spec fn after_bom(&self) -> Seq<u8>;
    proof fn law_after_bom(&self)
        ensures self.after_bom() == self.remaining() || self.after_bom() == strip_bom(self.remaining());

//@if encoding
    /// the encoding (0 = UTF-8, 1 = UTF-16BE, 2 = UTF-16LE) the sniff will report: that of the first piece
    spec fn bom_enc(&self) -> Option<u8>;

    /// Determines encoding from the start of input and removes BOM if it is present
    fn detect_encoding(&mut self) -> (r: io::Result<Option<&'static Encoding>>)
        ensures
            (r is Err) == (final(self).faults() > old(self).faults()), final(self).faults() >= old(self).faults(), final(self).remaining().len() <= old(self).remaining().len(),
            match r {
                // the sniff may see only the first piece of the input: a BOM is either removed or left in place
                Ok(e) => final(self).remaining() == old(self).after_bom() && match e {
                    Some(enc) => old(self).bom_enc() == Some(enc.id),
                    None => old(self).bom_enc() is None,
                },
                Err(_) => final(self).remaining() == old(self).remaining(),
            };
//@else
    /// Removes UTF-8 BOM if it is present
    fn remove_utf8_bom(&mut self) -> (r: io::Result<()>)
        ensures
            (r is Err) == (final(self).faults() > old(self).faults()), final(self).faults() >= old(self).faults(), final(self).remaining().len() <= old(self).remaining().len(),
            match r {
                // the sniff may see only the first piece of the input: a BOM is either removed or left in place
                Ok(()) => final(self).remaining() == old(self).after_bom(),
                Err(_) => final(self).remaining() == old(self).remaining(),
            };
//@endif

    /// Read input until start of markup (the `<`) is found or end of input is reached.
    ///
    /// # Parameters
    /// - `buf`: Buffer that could be filled from an input (`Self`) and
    ///   from which [events] could borrow their data
    /// - `position`: Will be increased by amount of bytes consumed
    ///
    /// [events]: crate::events::Event
    fn read_text(&mut self, buf: B, position: &mut u64) -> (r: ReadTextResult<'r, B>)
        requires *old(position) + old(self).remaining().len() <= u64::MAX,
        ensures
            (r is Err) == (final(self).faults() > old(self).faults()), final(self).faults() >= old(self).faults(), final(self).remaining().len() <= old(self).remaining().len(),
            ({
                let rem = old(self).remaining();
                match r {
                    ReadTextResult::Markup(_) => {
                        &&& first_lt(rem, 0)
                        &&& final(self).remaining() == rem.subrange(1, rem.len() as int)
                        &&& *final(position) == *old(position) + 1
                    },
                    ReadTextResult::UpToMarkup(bytes) => {
                        let i = bytes@.len() as int;
                        &&& i > 0 && first_lt(rem, i)
                        &&& bytes@ == rem.subrange(0, i)
                        &&& final(self).remaining() == rem.subrange(i + 1, rem.len() as int)
                        &&& *final(position) == *old(position) + i + 1
                    },
                    ReadTextResult::UpToEof(bytes) => {
                        &&& no_lt(rem)
                        &&& bytes@ == rem
                        &&& final(self).remaining().len() == 0
                        &&& *final(position) == *old(position) + rem.len()
                    },
                    ReadTextResult::Err(_) => {
                        &&& is_suffix_of(final(self).remaining(), rem)
                        &&& *final(position) == *old(position) + (rem.len() - final(self).remaining().len())
                    },
                }
            });

    /// Read input until processing instruction is finished.
    ///
    /// This method expect that start sequence of a parser already was read.
    ///
    /// Returns a slice of data read up to the end of the thing being parsed.
    /// The end of thing and the returned content is determined by the used parser.
    ///
    /// If input (`Self`) is exhausted and no bytes was read, or if the specified
    /// parser could not find the ending sequence of the thing, returns `SyntaxError`.
    ///
    /// # Parameters
    /// - `buf`: Buffer that could be filled from an input (`Self`) and
    ///   from which [events] could borrow their data
    /// - `position`: Will be increased by amount of bytes consumed
    ///
    /// A `P` type parameter is used to preserve state between calls to the underlying
    /// reader which provides bytes fed into the parser.
    ///
    /// [events]: crate::events::Event
    fn read_with<P>(&mut self, parser: P, buf: B, position: &mut u64) -> (r: Result<&'r [u8], Error>)
    where
        P: Parser,
        requires *old(position) + old(self).remaining().len() <= u64::MAX,
        ensures
            (r matches Err(Error::Io(_))) == (final(self).faults() > old(self).faults()), final(self).faults() >= old(self).faults(), final(self).remaining().len() <= old(self).remaining().len(),
            ({
                let rem = old(self).remaining();
                match r {
                    Ok(bytes) => {
                        let i = bytes@.len() as int;
                        &&& parser.end(rem) == Some(i)
                        &&& bytes@ == rem.subrange(0, i)
                        &&& final(self).remaining() == rem.subrange(i + 1, rem.len() as int)
                        &&& *final(position) == *old(position) + i + 1
                    },
                    Err(Error::Syntax(e)) => {
                        &&& parser.end(rem) is None
                        &&& e == P::spec_eof_error()
                        &&& *final(position) == *old(position) + rem.len()
                    },
                    Err(Error::Io(_)) => {
                        &&& is_suffix_of(final(self).remaining(), rem)
                        &&& *final(position) == *old(position) + (rem.len() - final(self).remaining().len())
                    },
                    Err(_) => false,
                }
            });

    /// Read input until comment or CDATA is finished.
    ///
    /// This method expect that `<` already was read.
    ///
    /// Returns a slice of data read up to end of comment or CDATA (`>`),
    /// which does not include into result.
    ///
    /// If input (`Self`) is exhausted and nothing was read, returns `None`.
    ///
    /// # Parameters
    /// - `buf`: Buffer that could be filled from an input (`Self`) and
    ///   from which [events] could borrow their data
    /// - `position`: Will be increased by amount of bytes consumed
    ///
    /// [events]: crate::events::Event
    fn read_bang_element(
        &mut self,
        buf: B,
        position: &mut u64,
    ) -> (r: Result<(BangType, &'r [u8]), Error>)
        requires
            *old(position) + old(self).remaining().len() <= u64::MAX,
            old(self).remaining().len() <= usize::MAX,
            // the caller has just peeked the '!'
            old(self).remaining().len() > 0 && old(self).remaining()[0] == 0x21 && old(self).buffered() >= 1,
        ensures
            (r matches Err(Error::Io(_))) == (final(self).faults() > old(self).faults()), final(self).faults() >= old(self).faults(), final(self).remaining().len() <= old(self).remaining().len(),
            ({
                let rem = old(self).remaining();
                match r {
                    Ok((ty, bytes)) => {
                        let k = bytes@.len() as int;
                        &&& bang_kind(second(rem)) matches Some(kind) && same_kind(ty, kind)
                        &&& bang_term(ty, rem, k) && no_bang_term_before(ty, rem, k)
                        &&& bytes@ == rem.subrange(0, k)
                        &&& ty matches BangType::DocType(b) ==> b == 0
                        &&& final(self).remaining() == rem.subrange(k + 1, rem.len() as int)
                        &&& *final(position) == *old(position) + k + 1
                    },
                    Err(Error::Syntax(e)) => match bang_kind(second(rem)) {
                        None => e == SyntaxError::InvalidBangMarkup && *final(position) == *old(position),
                        Some(kind) => {
                            &&& no_bang_term_before(kind, rem, rem.len() as int)
                            &&& e == kind.spec_to_err()
                            &&& *final(position) == *old(position) + rem.len()
                        },
                    },
                    Err(Error::Io(_)) => {
                        &&& *old(position) <= *final(position) <= *old(position) + rem.len()
                    },
                    Err(_) => false,
                }
            });

    /// Consume and discard all the whitespace until the next non-whitespace
    /// character or EOF.
    ///
    /// # Parameters
    /// - `position`: Will be increased by amount of bytes consumed
    fn skip_whitespace(&mut self, position: &mut u64) -> (r: io::Result<()>)
        requires *old(position) + old(self).remaining().len() <= u64::MAX,
        ensures
            (r is Err) == (final(self).faults() > old(self).faults()), final(self).faults() >= old(self).faults(), final(self).remaining().len() <= old(self).remaining().len(),
            ({
                let rem = old(self).remaining();
                &&& is_suffix_of(final(self).remaining(), rem)
                &&& *final(position) == *old(position) + (rem.len() - final(self).remaining().len())
                &&& r is Ok ==> final(self).remaining() == trimmed_start(rem)
            });

    /// Return one character without consuming it, so that future `read_*` calls
    /// will still include it. On EOF, return `None`.
    fn peek_one(&mut self) -> (r: io::Result<Option<u8>>)
        ensures
            (r is Err) == (final(self).faults() > old(self).faults()), final(self).faults() >= old(self).faults(), final(self).remaining().len() <= old(self).remaining().len(),
            final(self).remaining() == old(self).remaining(),
            match r {
                Ok(Some(b)) => old(self).remaining().len() > 0 && b == old(self).remaining()[0] && final(self).buffered() >= 1,
                Ok(None) => old(self).remaining().len() == 0,
                Err(_) => true,
            };
}
//@end

pub mod slice_ {
use super::*;
use vstd::prelude::*;
pub type Result<T> = core::result::Result<T, Error>;

//@extract slice_reader::XmlSource_for_slice | src/reader/slice_reader.rs :: impl<'a> XmlSource<'a, ()> for &'a [u8] | serves=C01,C02,C03,C08,C12,C16,C17,C18 n11=1
//@rewrite self.iter().position(|b| ==> shim::position_ref(*self, |b: &u8|
////////////////////////////////////////////////////////////////////////////////////////////////////

/// Implementation of `XmlSource` for `&[u8]` reader using a `Self` as buffer
/// that will be borrowed by events. This implementation provides a zero-copy deserialization
impl<'a> XmlSource<'a, ()> for &'a [u8] {
    open spec fn remaining(&self) -> Seq<u8> { (*self)@ }
    open spec fn faults(&self) -> nat { 0 }
    open spec fn buffered(&self) -> nat { (*self)@.len() }
    /// a slice is one piece: a UTF-8 BOM is always removed (C17) and never appears in an event
    open spec fn after_bom(&self) -> Seq<u8> { strip_bom((*self)@) }
    proof fn law_after_bom(&self) {}

//@if encoding
    open spec fn bom_enc(&self) -> Option<u8> { sniffed((*self)@) }

    fn detect_encoding(&mut self) -> (r: io::Result<Option<&'static Encoding>>)
        ensures r is Ok,
    {
        if let Some((enc, bom_len)) = crate::encoding::detect_encoding(self) {
            *self = &self[bom_len..];
            return Ok(Some(enc));
        }
        Ok(None)
    }
//@else
    fn remove_utf8_bom(&mut self) -> (r: io::Result<()>)
        ensures r is Ok,
    {
        if self.starts_with(crate::encoding::UTF8_BOM) {
            *self = &self[crate::encoding::UTF8_BOM.len()..];
        }
        Ok(())
    }
//@endif

    fn read_text(&mut self, _buf: (), position: &mut u64) -> (r: ReadTextResult<'a, ()>) {
        proof { axiom_slice_len(*self); }
        match memchr::memchr(b'<', self) {
            Some(0) => {
                *position += 1;
                *self = &self[1..];
                ReadTextResult::Markup(())
            }
            Some(i) => {
                *position += i as u64 + 1;
                let bytes = &self[..i];
                *self = &self[i + 1..];
                ReadTextResult::UpToMarkup(bytes)
            }
            None => {
                *position += self.len() as u64;
                let bytes = &self[..];
                *self = &[];
                ReadTextResult::UpToEof(bytes)
            }
        }
    }

    fn read_with<P>(&mut self, mut parser: P, _buf: (), position: &mut u64) -> (r: Result<&'a [u8]>)
    where
        P: Parser,
    {
        proof { axiom_slice_len(*self); parser.law_bounds((*self)@); }
        if let Some(i) = parser.feed(self) {
            // +1 for `>` which we do not include
            *position += i as u64 + 1;
            let bytes = &self[..i];
            *self = &self[i + 1..];
            return Ok(bytes);
        }

        *position += self.len() as u64;
        Err(Error::Syntax(P::eof_error()))
    }

    fn read_bang_element(&mut self, _buf: (), position: &mut u64) -> (r: Result<(BangType, &'a [u8])>) {
        proof { axiom_slice_len(*self); }
        // Peeked one bang ('!') before being called, so it's guaranteed to
        // start with it.
        assert!(self[0] == b'!');

        let mut bang_type = match BangType::new(self[1..].first().copied()) { Ok(v__) => v__, Err(e__) => return Err(From::from(e__)) };

        if let Some((bytes, i)) = bang_type.parse(&[], self) {
            *position += i as u64;
            *self = &self[i..];
            return Ok((bang_type, bytes));
        }

        *position += self.len() as u64;
        Err(bang_type.to_err().into())
    }

    fn skip_whitespace(&mut self, position: &mut u64) -> (r: io::Result<()>) {
        proof { axiom_slice_len(*self); }
        let whitespaces = shim::position_ref(*self, |b: &u8| -> (r: bool) ensures r == !is_ws(*b) { !is_whitespace(*b) })
            .unwrap_or(self.len());
        proof { lemma_trimmed_start((*self)@, whitespaces as int); }
        *position += whitespaces as u64;
        *self = &self[whitespaces..];
        Ok(())
    }

    fn peek_one(&mut self) -> (r: io::Result<Option<u8>>) {
        Ok(self.first().copied())
    }
}
//@end
}
