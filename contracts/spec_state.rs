// ---------------------------------------------------------------------------------------------
// Spec vocabulary for ReaderState: the abstract stack of open element names (C04), whitespace
// trimming (C16), the abstract view of events.
// ---------------------------------------------------------------------------------------------
pub open spec fn name_at_of(buf: Seq<u8>, starts: Seq<usize>, i: int) -> Seq<u8> {
    let lo = starts[i] as int;
    let hi = if i + 1 < starts.len() { starts[i + 1] as int } else { buf.len() as int };
    buf.subrange(lo, hi)
}
pub open spec fn stack_of(buf: Seq<u8>, starts: Seq<usize>) -> Seq<Seq<u8>> {
    Seq::new(starts.len(), |i: int| name_at_of(buf, starts, i))
}
impl ReaderState {
    /// representation invariant of the open-element stack
    pub open spec fn wf(&self) -> bool {
        &&& forall|i: int| 0 <= i < self.opened_starts@.len() ==> #[trigger] self.opened_starts@[i] <= self.opened_buffer@.len()
        &&& forall|i: int, j: int| 0 <= i <= j < self.opened_starts@.len() ==> self.opened_starts@[i] <= self.opened_starts@[j]
    }
    pub open spec fn name_at(&self, i: int) -> Seq<u8> { name_at_of(self.opened_buffer@, self.opened_starts@, i) }
    /// the abstract stack of names of the currently open elements, innermost last
    /// (a function of the two buffers only, so states that share them have the same stack)
    pub open spec fn stack(&self) -> Seq<Seq<u8>> { stack_of(self.opened_buffer@, self.opened_starts@) }
    /// everything except the stack representation and the error offset is unchanged
    pub open spec fn same_control(&self, o: &ReaderState) -> bool {
        &&& self.offset == o.offset
        &&& self.state == o.state
        &&& self.config == o.config
    }
    pub open spec fn same_stack(&self, o: &ReaderState) -> bool {
        &&& self.opened_buffer == o.opened_buffer
        &&& self.opened_starts == o.opened_starts
    }

//@if encoding
    /// the decoder of a reader state: that of its current encoding
    pub open(crate) spec fn decoder_spec(&self) -> Decoder { Decoder { encoding: self.encoding.spec_encoding() } }
//@else
    /// the decoder of a reader state (no `encoding` feature: there is exactly one)
    pub open spec fn decoder_spec(&self) -> Decoder { Decoder {} }
//@endif

    pub proof fn lemma_pop_truncate(pre: &ReaderState, post: &ReaderState)
        requires pre.wf(), pre.opened_starts@.len() > 0,
            post.opened_starts@ == pre.opened_starts@.drop_last(),
            post.opened_buffer@ == pre.opened_buffer@.subrange(0, pre.opened_starts@.last() as int),
        ensures post.wf(), post.stack() == pre.stack().drop_last()
    {
        let n = pre.opened_starts@.len() as int;
        assert forall|i: int| 0 <= i < n - 1 implies post.name_at(i) == pre.name_at(i) by {
            assert(pre.opened_starts@[i] <= pre.opened_starts@[i + 1]);
            assert(pre.opened_starts@[i + 1] <= pre.opened_starts@[n - 1]);
            assert(post.name_at(i) =~= pre.name_at(i));
        }
        assert(post.stack().len() == n - 1 && pre.stack().len() == n);
        assert forall|i: int| 0 <= i < n - 1 implies post.stack()[i] == pre.stack().drop_last()[i] by {
            assert(post.stack()[i] == post.name_at(i));
            assert(pre.stack()[i] == pre.name_at(i));
        }
        assert(post.stack() =~= pre.stack().drop_last());
        assert forall|i: int| 0 <= i < post.opened_starts@.len() implies #[trigger] post.opened_starts@[i] <= post.opened_buffer@.len() by {
            assert(pre.opened_starts@[i] <= pre.opened_starts@[n - 1]);
        }
    }
    pub proof fn lemma_push(pre: &ReaderState, post: &ReaderState, name: Seq<u8>)
        requires pre.wf(),
            post.opened_starts@ == pre.opened_starts@.push(pre.opened_buffer@.len() as usize),
            pre.opened_buffer@.len() <= usize::MAX,
            post.opened_buffer@ == pre.opened_buffer@ + name,
        ensures post.wf(), post.stack() == pre.stack().push(name)
    {
        let n = pre.opened_starts@.len() as int;
        assert forall|i: int| 0 <= i < n implies post.name_at(i) == pre.name_at(i) by {
            assert(pre.opened_starts@[i] <= pre.opened_buffer@.len());
            if i + 1 < n { assert(pre.opened_starts@[i + 1] <= pre.opened_buffer@.len()); }
            assert(post.name_at(i) =~= pre.name_at(i));
        }
        assert(post.name_at(n) =~= name);
        assert(post.stack().len() == n + 1 && pre.stack().len() == n);
        assert forall|i: int| 0 <= i < n + 1 implies post.stack()[i] == pre.stack().push(name)[i] by {
            assert(post.stack()[i] == post.name_at(i));
            if i < n { assert(pre.stack()[i] == pre.name_at(i)); }
        }
        assert(post.stack() =~= pre.stack().push(name));
    }
}

/// representation invariant of the event types: the name is a prefix of the content
spec fn ev_wf<'i>(ev: Event<'i>) -> bool {
    match ev {
        Event::Start(e) | Event::Empty(e) => e.name_len <= e.buf@.len(),
        Event::Decl(e) => e.content.name_len <= e.content.buf@.len(),
        Event::PI(e) => e.content.name_len <= e.content.buf@.len(),
        _ => true,
    }
}
/// `s` without its trailing XML whitespace
pub open spec fn trimmed_end(s: Seq<u8>) -> Seq<u8> decreases s.len() {
    if s.len() == 0 { s } else if is_ws(s.last()) { trimmed_end(s.drop_last()) } else { s }
}
/// `s` without its leading XML whitespace
pub open spec fn trimmed_start(s: Seq<u8>) -> Seq<u8> decreases s.len() {
    if s.len() == 0 { s } else if is_ws(s[0]) { trimmed_start(s.subrange(1, s.len() as int)) } else { s }
}
/// ETag ::= '</' Name S? '>' : with trimming on, the name is the content without trailing S;
/// an all-whitespace content is left as it is (the statement of C16 is silent there).
pub open spec fn end_name(content: Seq<u8>, trim: bool) -> Seq<u8> {
    if trim && trimmed_end(content).len() > 0 { trimmed_end(content) } else { content }
}
pub proof fn lemma_trimmed_end(s: Seq<u8>, p: int)
    requires 0 <= p < s.len(), !is_ws(s[p]), forall|j: int| p < j < s.len() ==> is_ws(#[trigger] s[j])
    ensures trimmed_end(s) == s.subrange(0, p + 1)
    decreases s.len()
{
    if is_ws(s.last()) {
        lemma_trimmed_end(s.drop_last(), p);
        assert(s.drop_last().subrange(0, p + 1) =~= s.subrange(0, p + 1));
    } else {
        assert(p == s.len() - 1);
        assert(s.subrange(0, p + 1) =~= s);
    }
}
pub proof fn lemma_trimmed_end_all_ws(s: Seq<u8>)
    requires forall|j: int| 0 <= j < s.len() ==> is_ws(#[trigger] s[j])
    ensures trimmed_end(s).len() == 0
    decreases s.len()
{
    if s.len() > 0 { lemma_trimmed_end_all_ws(s.drop_last()); }
}
pub proof fn lemma_trimmed_start(s: Seq<u8>, p: int)
    requires 0 <= p <= s.len(), p < s.len() ==> !is_ws(s[p]), forall|j: int| 0 <= j < p ==> is_ws(#[trigger] s[j])
    ensures trimmed_start(s) == s.subrange(p, s.len() as int)
    decreases s.len()
{
    if s.len() == 0 {
        assert(s.subrange(p, s.len() as int) =~= s);
    } else if p == 0 {
        assert(s.subrange(0, s.len() as int) =~= s);
    } else {
        let s1 = s.subrange(1, s.len() as int);
        assert forall|j: int| 0 <= j < p - 1 implies is_ws(#[trigger] s1[j]) by { assert(is_ws(s[j + 1])); }
        lemma_trimmed_start(s1, p - 1);
        assert(s1.subrange(p - 1, s1.len() as int) =~= s.subrange(p, s.len() as int));
    }
}

/// i is the index of the first ':' of s
pub open spec fn first_colon(s: Seq<u8>, i: int) -> bool {
    0 <= i < s.len() && s[i] == 0x3a && forall|j: int| 0 <= j < i ==> #[trigger] s[j] != 0x3a
}
/// Namespaces in XML: QName ::= (Prefix ':')? LocalPart -- the part after the first ':' (or everything)
pub open spec fn spec_local_name(s: Seq<u8>) -> Seq<u8> {
    if exists|i: int| first_colon(s, i) { let i = choose|i: int| first_colon(s, i); s.subrange(i + 1, s.len() as int) } else { s }
}
pub proof fn lemma_local_name(s: Seq<u8>)
    ensures
        forall|i: int| first_colon(s, i) ==> spec_local_name(s) == s.subrange(i + 1, s.len() as int),
        (forall|j: int| 0 <= j < s.len() ==> #[trigger] s[j] != 0x3a) ==> spec_local_name(s) == s,
{
    assert forall|i: int| first_colon(s, i) implies spec_local_name(s) == s.subrange(i + 1, s.len() as int) by {
        let k = choose|k: int| first_colon(s, k);
        if k < i { assert(s[k] != 0x3a); } else if i < k { assert(s[i] != 0x3a); }
    }
    if forall|j: int| 0 <= j < s.len() ==> #[trigger] s[j] != 0x3a {
        if exists|i: int| first_colon(s, i) { let i = choose|i: int| first_colon(s, i); assert(s[i] != 0x3a); }
    }
}
/// s starts with p
pub open spec fn sw(s: Seq<u8>, p: Seq<u8>) -> bool { s.len() >= p.len() && forall|i: int| 0 <= i < p.len() ==> s[i] == p[i] }
/// ASCII-case-insensitive "starts with" (HTML5 allows `<!doctype`)
pub open spec fn uncased_sw(s: Seq<u8>, p: Seq<u8>) -> bool {
    s.len() >= p.len() && forall|i: int| 0 <= i < p.len() ==> ascii_lower(s[i]) == ascii_lower(p[i])
}
/// a '-' inside the body of the comment `buf` (= `!--body--`) that is directly followed by another '-'
/// (XML: Comment ::= '<!--' ((Char - '-') | ('-' (Char - '-')))* '-->')
pub open spec fn double_hyphen_at(buf: Seq<u8>, p: int) -> bool {
    3 <= p < buf.len() - 2 && buf[p] == 0x2d && buf[p + 1] == 0x2d
}

//@if encoding
/// C17, precedence of encoding sources: Implicit (default) < BomDetected (sniffed) < XmlDetected (declared, final);
/// Explicit (reader built from a &str) is final.
/// The encoding after an event: an XML declaration naming a known encoding refines a refinable choice
pub open spec fn decl_refines<'b>(a: EncodingRef, r: core::result::Result<Event<'b>, Error>) -> EncodingRef {
    match r {
        Ok(Event::Decl(d)) => if (a is Implicit || a is BomDetected) && spec_encoder(d.content.buf@) is Some {
                EncodingRef::XmlDetected(spec_encoder(d.content.buf@)->Some_0)
            } else { a },
        _ => a,
    }
}
/// The encoding after the sniff of the first bytes reported `benc`: it replaces a refinable choice only
pub open spec fn bom_step(a: EncodingRef, benc: Option<u8>, b: EncodingRef) -> bool {
    if (a is Implicit || a is BomDetected) && benc is Some {
        b is BomDetected && b.spec_encoding().id == benc->Some_0
    } else { b == a }
}
//@endif
spec fn post_emit_bang<'b>(pre: &ReaderState, post: &ReaderState, bang_type: BangType, buf: Seq<u8>, r: core::result::Result<Event<'b>, Error>) -> bool {
                &&& post.same_control(pre) && post.same_stack(pre)
//@if encoding
                &&& post.encoding == pre.encoding
//@endif
                &&& r is Ok ==> post.last_error_offset == pre.last_error_offset
                &&& r is Err ==> post.last_error_offset <= post.offset
                &&& post_emit_bang_(pre, post, bang_type, buf, r)
}
spec fn post_emit_bang_<'b>(pre: &ReaderState, post: &ReaderState, bang_type: BangType, buf: Seq<u8>, r: core::result::Result<Event<'b>, Error>) -> bool {
                let len = buf.len() as int;
                if bang_type is Comment && sw(buf, seq![0x21u8, 0x2d, 0x2d]) {
                    if pre.config.check_comments && exists|p: int| double_hyphen_at(buf, p) {
                        r matches Err(Error::IllFormed(IllFormedError::DoubleHyphenInComment))
                    } else {
                        r matches Ok(Event::Comment(e)) && e.content@ == buf.subrange(3, len - 2)
                    }
                } else if bang_type is CData && sw(buf, seq![0x21u8, 0x5b, 0x43, 0x44, 0x41, 0x54, 0x41, 0x5b]) {
                    r matches Ok(Event::CData(e)) && e.content@ == buf.subrange(8, len - 2)
                } else if bang_type == BangType::DocType(0) && uncased_sw(buf, seq![0x21u8, 0x44, 0x4f, 0x43, 0x54, 0x59, 0x50, 0x45]) {
                    if exists|i: int| 8 <= i < len && !is_ws(buf[i]) {
                        r matches Ok(Event::DocType(e)) && e.content@ == trimmed_start(buf.subrange(8, len))
                    } else {
                        &&& r matches Err(Error::IllFormed(IllFormedError::MissingDoctypeName))
                        &&& post.last_error_offset == pre.offset - 1
                    }
                } else {
                    &&& r matches Err(Error::Syntax(e)) && e == bang_type.spec_to_err()
                    &&& post.last_error_offset == pre.offset - len - 2
                }
            }

spec fn post_emit_end<'b>(pre: &ReaderState, post: &ReaderState, buf: Seq<u8>, r: core::result::Result<Event<'b>, Error>) -> bool {
                &&& post.wf() && post.same_control(pre)
//@if encoding
                &&& post.encoding == pre.encoding
//@endif
                &&& r is Ok ==> post.last_error_offset == pre.last_error_offset
                &&& r is Err ==> post.last_error_offset <= post.offset
                &&& post_emit_end_(pre, post, buf, r)
}
spec fn post_emit_end_<'b>(pre: &ReaderState, post: &ReaderState, buf: Seq<u8>, r: core::result::Result<Event<'b>, Error>) -> bool {
                let s = pre.stack();
                let name = end_name(buf.subrange(1, buf.len() as int), pre.config.trim_markup_names_in_closing_tags);
                if s.len() > 0 {
                    &&& post.stack() == s.drop_last()
                    &&& if !pre.config.check_end_names || name == s.last() {
                            r matches Ok(Event::End(e)) && e.name@ == name
                        } else {
                            &&& r matches Err(Error::IllFormed(IllFormedError::MismatchedEndTag { expected, found }))
                                && expected == dec_string(pre.decoder_spec(), s.last()) && found == dec_string(pre.decoder_spec(), name)
                            &&& post.last_error_offset == pre.offset - buf.len() - 2
                        }
                } else {
                    &&& post.stack() == s
                    &&& if pre.config.allow_unmatched_ends {
                            r matches Ok(Event::End(e)) && e.name@ == name
                        } else {
                            &&& r matches Err(Error::IllFormed(IllFormedError::UnmatchedEndTag(found))) && found == dec_string(pre.decoder_spec(), name)
                            &&& post.last_error_offset == pre.offset - buf.len() - 2
                        }
                }
            }

spec fn post_emit_question_mark<'b>(pre: &ReaderState, post: &ReaderState, buf: Seq<u8>, r: core::result::Result<Event<'b>, Error>) -> bool {
                &&& post.same_control(pre) && post.same_stack(pre)
//@if encoding
                // C17: only an XML declaration that names an encoding changes it, and only when the current choice
                // may still be refined: never one fixed by from_str (Explicit) nor by an earlier declaration
                &&& post.encoding == decl_refines(pre.encoding, r)
//@endif
                &&& r is Err ==> post.last_error_offset <= post.offset
                &&& r matches Ok(ev) ==> ev_wf(ev)
                &&& post_emit_question_mark_(pre, post, buf, r)
}
spec fn post_emit_question_mark_<'b>(pre: &ReaderState, post: &ReaderState, buf: Seq<u8>, r: core::result::Result<Event<'b>, Error>) -> bool {
                let len = buf.len() as int;
                if len > 1 && buf[len - 1] == 0x3f {
                    let content = buf.subrange(1, len - 1);
                    &&& post.last_error_offset == pre.last_error_offset
                    &&& if sw(content, seq![0x78u8, 0x6d, 0x6c]) && (content.len() == 3 || is_ws(content[3])) {
                            r matches Ok(Event::Decl(e)) && e.content.buf@ == content && e.content.name_len == 3
                        } else {
                            r matches Ok(Event::PI(e)) && e.content.buf@ == content && e.content.name_len == spec_name_len(content)
                        }
                } else {
                    &&& r matches Err(Error::Syntax(SyntaxError::UnclosedPIOrXmlDecl))
                    &&& post.last_error_offset == pre.offset - len - 2
                }
            }

spec fn post_emit_start<'b>(pre: &ReaderState, post: &ReaderState, content: Seq<u8>, r: Event<'b>) -> bool {
                &&& post.wf() && post.offset == pre.offset && post.config == pre.config
//@if encoding
                &&& post.encoding == pre.encoding
//@endif
                &&& post.last_error_offset == pre.last_error_offset
                &&& ev_wf(r)
                &&& post_emit_start_(pre, post, content, r)
}
spec fn post_emit_start_<'b>(pre: &ReaderState, post: &ReaderState, content: Seq<u8>, r: Event<'b>) -> bool {
                let n = content.len() as int;
                let s = pre.stack();
                if n > 0 && content[n - 1] == 0x2f {
                    let c = content.subrange(0, n - 1);
                    let name = c.subrange(0, spec_name_len(c) as int);
                    if pre.config.expand_empty_elements {
                        &&& r matches Event::Start(e) && e.buf@ == c && e.name_len == spec_name_len(c)
                        &&& post.state is InsideEmpty
                        &&& post.stack() == s.push(name)
                    } else {
                        &&& r matches Event::Empty(e) && e.buf@ == c && e.name_len == spec_name_len(c)
                        &&& post.state == pre.state
                        &&& post.stack() == s
                    }
                } else {
                    let name = content.subrange(0, spec_name_len(content) as int);
                    &&& r matches Event::Start(e) && e.buf@ == content && e.name_len == spec_name_len(content)
                    &&& post.state == pre.state
                    &&& post.stack() == s.push(name)
                }
            }

pub proof fn lemma_trimmed_start_skip(s: Seq<u8>, n: int)
    requires 0 <= n <= s.len(), forall|j: int| 0 <= j < n ==> is_ws(#[trigger] s[j])
    ensures trimmed_start(s.subrange(n, s.len() as int)) == trimmed_start(s)
    decreases n
{
    if n == 0 {
        assert(s.subrange(0, s.len() as int) =~= s);
    } else {
        let s1 = s.subrange(1, s.len() as int);
        assert forall|j: int| 0 <= j < n - 1 implies is_ws(#[trigger] s1[j]) by { assert(is_ws(s[j + 1])); }
        lemma_trimmed_start_skip(s1, n - 1);
        assert(s1.subrange(n - 1, s1.len() as int) =~= s.subrange(n, s.len() as int));
    }
}

/// the text of an owned decoded name, as it appears in error values (uninterpreted: outside the verified code)
pub open spec fn dec_string(d: Decoder, bytes: Seq<u8>) -> String {
    spec_cow_into_owned(spec_unwrap_or_default(spec_decode(d, bytes)))
}

pub mod shim {
    use vstd::prelude::*;
    /// contract of `s.iter().rposition(f)` for byte slices (N2): search from the back
    pub fn rposition<F: Fn(u8) -> bool>(s: &[u8], f: F) -> (r: Option<usize>)
        requires forall|b: u8| f.requires((b,)),
        ensures match r {
            Some(i) => i < s@.len() && f.ensures((s@[i as int],), true)
                && forall|j: int| i < j < s@.len() ==> f.ensures((#[trigger] s@[j],), false),
            None => forall|j: int| 0 <= j < s@.len() ==> f.ensures((#[trigger] s@[j],), false),
        }
    {
        let mut i = s.len();
        while i > 0
            invariant i <= s@.len(), forall|b: u8| f.requires((b,)),
                forall|j: int| i <= j < s@.len() ==> f.ensures((#[trigger] s@[j],), false),
            decreases i
        {
            i = i - 1;
            if f(s[i]) { return Some(i); }
        }
        None
    }
    /// contract of `s.iter().rev().find_map(f)` (N2): the result of `f` on the LAST element for which it is Some
    pub fn rev_find_map<T, U, F: Fn(&T) -> Option<U>>(s: &[T], f: F) -> (r: Option<U>)
        requires forall|i: int| 0 <= i < s@.len() ==> f.requires((&#[trigger] s@[i],)),
        ensures match r {
            Some(u) => exists|i: int| 0 <= i < s@.len() && f.ensures((&#[trigger] s@[i],), Some(u))
                && forall|j: int| i < j < s@.len() ==> f.ensures((&#[trigger] s@[j],), None::<U>),
            None => forall|j: int| 0 <= j < s@.len() ==> f.ensures((&#[trigger] s@[j],), None::<U>),
        }
    {
        let mut i = s.len();
        while i > 0
            invariant i <= s@.len(), forall|k: int| 0 <= k < s@.len() ==> f.requires((&#[trigger] s@[k],)),
                forall|j: int| i <= j < s@.len() ==> f.ensures((&#[trigger] s@[j],), None::<U>),
            decreases i
        {
            i = i - 1;
            let o = f(&s[i]);
            if o.is_some() { return o; }
        }
        None
    }
    /// contract of `s.iter().any(f)` (N2)
    pub fn any_ref<T, F: Fn(&T) -> bool>(s: &[T], f: F) -> (r: bool)
        requires forall|i: int| 0 <= i < s@.len() ==> f.requires((&#[trigger] s@[i],)),
        ensures
            r ==> exists|i: int| 0 <= i < s@.len() && f.ensures((&#[trigger] s@[i],), true),
            !r ==> forall|i: int| 0 <= i < s@.len() ==> f.ensures((&#[trigger] s@[i],), false),
    {
        let mut i = 0;
        while i < s.len()
            invariant i <= s@.len(), forall|k: int| 0 <= k < s@.len() ==> f.requires((&#[trigger] s@[k],)),
                forall|j: int| 0 <= j < i ==> f.ensures((&#[trigger] s@[j],), false),
            decreases s@.len() - i
        {
            if f(&s[i]) { return true; }
            i = i + 1;
        }
        false
    }
    /// contract of `s.iter().rposition(f)` for any element type (N2)
    pub fn rposition_ref<T, F: Fn(&T) -> bool>(s: &[T], f: F) -> (r: Option<usize>)
        requires forall|x: &T| f.requires((x,)),
        ensures match r {
            Some(i) => i < s@.len() && f.ensures((&s@[i as int],), true)
                && forall|j: int| i < j < s@.len() ==> f.ensures((&#[trigger] s@[j],), false),
            None => forall|j: int| 0 <= j < s@.len() ==> f.ensures((&#[trigger] s@[j],), false),
        }
    {
        let mut i = s.len();
        while i > 0
            invariant i <= s@.len(), forall|x: &T| f.requires((x,)),
                forall|j: int| i <= j < s@.len() ==> f.ensures((&#[trigger] s@[j],), false),
            decreases i
        {
            i = i - 1;
            if f(&s[i]) { return Some(i); }
        }
        None
    }
    /// the same for a closure that takes the element by reference
    pub fn position_ref<F: Fn(&u8) -> bool>(s: &[u8], f: F) -> (r: Option<usize>)
        requires forall|b: &u8| f.requires((b,)),
        ensures match r {
            Some(i) => i < s@.len() && f.ensures((&s@[i as int],), true)
                && forall|j: int| 0 <= j < i ==> f.ensures((&#[trigger] s@[j],), false),
            None => forall|j: int| 0 <= j < s@.len() ==> f.ensures((&#[trigger] s@[j],), false),
        }
    {
        let mut i = 0;
        while i < s.len()
            invariant i <= s@.len(), forall|b: &u8| f.requires((b,)),
                forall|j: int| 0 <= j < i ==> f.ensures((&#[trigger] s@[j],), false),
            decreases s@.len() - i
        {
            if f(&s[i]) { return Some(i); }
            i = i + 1;
        }
        None
    }
    /// contract of `s.iter().position(f)` for byte slices (N2): search from the front
    pub fn position<F: Fn(u8) -> bool>(s: &[u8], f: F) -> (r: Option<usize>)
        requires forall|b: u8| f.requires((b,)),
        ensures match r {
            Some(i) => i < s@.len() && f.ensures((s@[i as int],), true)
                && forall|j: int| 0 <= j < i ==> f.ensures((#[trigger] s@[j],), false),
            None => forall|j: int| 0 <= j < s@.len() ==> f.ensures((#[trigger] s@[j],), false),
        }
    {
        let mut i = 0;
        while i < s.len()
            invariant i <= s@.len(), forall|b: u8| f.requires((b,)),
                forall|j: int| 0 <= j < i ==> f.ensures((#[trigger] s@[j],), false),
            decreases s@.len() - i
        {
            if f(s[i]) { return Some(i); }
            i = i + 1;
        }
        None
    }
}
