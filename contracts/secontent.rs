// ---------------------------------------------------------------------------------------------
// U-sese (feature `serialize`): the tag-writing layer of the serde serializer (src/se/mod.rs,
// src/se/content.rs, src/se/element.rs). C13 mechanism: every tag is written through functions that
// (a) take an already validated XmlName, (b) write `<name ...>` and the matching `</name>` (or one
// self-closed tag) and nothing else; every raw name is turned into an XmlName by XmlName::try_from
// (unit xmlname: exactly the legal names pass). C19 mechanism: indentation is written only through
// write_indent -- a line break plus the current indent, only when the flag is set, which is then
// cleared -- and the classification (WriteResult) returned to the caller decides whether the flag is
// set again: text never allows it.
// ---------------------------------------------------------------------------------------------
pub mod sec_ {
use super::*;
use vstd::prelude::*;
use vstd::string::*;
use vstd::utf8::*;
use crate::writer_::Indentation;
use crate::se_::{XmlName, SeError, is_xml_name};
use crate::seesc_::{QuoteLevel, QuoteTarget, escape_list, p_list, escape_item, p_item};
use crate::escfn_::{spec_escape, cow_str_bytes};
use core::result::Result;
/// byte strings (the serializer has a type of its own called `Seq`)
pub type BSeq = vstd::seq::Seq<u8>;
use std::fmt;
use std::str::{from_utf8, Utf8Error};

/// Model of std::fmt::Write (trusted, A-fmtsink): a successful write appends exactly the UTF-8 bytes of its argument;
/// a failed one may have appended anything (the serializer returns the error and the document is abandoned)
pub trait Write {
    /// everything written so far
    spec fn out(&self) -> BSeq;
    fn write_str(&mut self, s: &str) -> (r: Result<(), core::fmt::Error>)
        ensures r is Ok ==> final(self).out() == old(self).out() + s.spec_bytes();
    fn write_char(&mut self, c: char) -> (r: Result<(), core::fmt::Error>)
        ensures r is Ok ==> final(self).out() == old(self).out() + encode_utf8(seq![c]);
}
/// std: `impl<W: fmt::Write + ?Sized> fmt::Write for &mut W` forwards to the referent
impl<'a, W: Write> Write for &'a mut W {
    open spec fn out(&self) -> BSeq { (**self).out() }
    /// ... and keeps referring to the same writer
    fn write_str(&mut self, s: &str) -> (r: Result<(), core::fmt::Error>)
        ensures *final(*final(self)) == *final(*old(self))
    { (**self).write_str(s) }
    fn write_char(&mut self, c: char) -> (r: Result<(), core::fmt::Error>)
        ensures *final(*final(self)) == *final(*old(self))
    { (**self).write_char(c) }
}

/// std: `impl fmt::Write for String` appends (part of A-fmtsink)
impl Write for String {
    open spec fn out(&self) -> BSeq { encode_utf8(self@) }
    #[verifier::external_body]
    fn write_str(&mut self, s: &str) -> (r: Result<(), core::fmt::Error>) { self.push_str(s); Ok(()) }
    #[verifier::external_body]
    fn write_char(&mut self, c: char) -> (r: Result<(), core::fmt::Error>) { self.push(c); Ok(()) }
}
/// std: `String::len` is the number of bytes of its UTF-8 text (a function of the text)
pub assume_specification[ String::len ](s: &String) -> (r: usize)
    ensures r == encode_utf8(s@).len();
/// dereferencing a Cow<str> gives the string it holds (std: Deref for Cow)
pub axiom fn axiom_cow_str_all()
    ensures forall|c: &Cow<'_, str>| (#[trigger] cow_target(c))@ == c@;
/// std::str::from_utf8 (documented contract): the same bytes as a string, or an error if they are not UTF-8
pub assume_specification<'a>[ core::str::from_utf8 ](v: &'a [u8]) -> (r: Result<&'a str, core::str::Utf8Error>)
    ensures match r { Ok(s) => s.spec_bytes() == v@, Err(_) => !valid_utf8(v@) };

impl vstd::std_specs::convert::FromSpecImpl<core::fmt::Error> for SeError {
    open spec fn obeys_from_spec() -> bool { true }
    open spec fn from_spec(e: core::fmt::Error) -> Self { SeError::Fmt(e) }
}
impl From<core::fmt::Error> for SeError {
//@extract errors::SeError::from_fmt | src/errors.rs :: mod serialize :: impl From<fmt::Error> for SeError :: fn from | serves=C13,C19 features=serialize
        fn from(e: fmt::Error) -> (r: Self)
            ensures r == SeError::Fmt(e)
        {
            Self::Fmt(e)
        }
//@end
}
impl vstd::std_specs::convert::FromSpecImpl<core::str::Utf8Error> for SeError {
    open spec fn obeys_from_spec() -> bool { true }
    open spec fn from_spec(e: core::str::Utf8Error) -> Self { SeError::NonEncodable(e) }
}
impl From<core::str::Utf8Error> for SeError {
//@extract errors::SeError::from_utf8 | src/errors.rs :: mod serialize :: impl From<Utf8Error> for SeError :: fn from | serves=C13,C19 features=serialize
        fn from(e: Utf8Error) -> (r: Self)
            ensures r == SeError::NonEncodable(e)
        {
            Self::NonEncodable(e)
        }
//@end
}


/// ---- primitives: booleans, numbers, characters (C13: what reaches the output for them; C19: how it is classified) ----
/// the text of a number: std's `Display` for the integer and float types (A-display, assumed): an uninterpreted function
/// of the value, never empty, made of characters that are neither markup, quotes nor whitespace -- digits, sign, `.`, `e`/`E`,
/// `inf`, `NaN` -- so it needs no escaping in any position
pub trait NumDisplay: Sized {}
impl NumDisplay for i8 {} impl NumDisplay for i16 {} impl NumDisplay for i32 {} impl NumDisplay for i64 {}
impl NumDisplay for u8 {} impl NumDisplay for u16 {} impl NumDisplay for u32 {} impl NumDisplay for u64 {}
impl NumDisplay for f32 {} impl NumDisplay for f64 {}
impl NumDisplay for i128 {} impl NumDisplay for u128 {}
pub uninterp spec fn disp<T>(v: T) -> BSeq;
pub open spec fn plain_byte(b: u8) -> bool {
    b != 0x3c && b != 0x3e && b != 0x26 && b != 0x22 && b != 0x27 && b != 0x20 && b != 0x09 && b != 0x0a && b != 0x0d
}
pub open spec fn plain(s: BSeq) -> bool { s.len() > 0 && forall|k: int| 0 <= k < s.len() ==> plain_byte(#[trigger] s[k]) }
/// declared rewrite `&value.to_string()` ==> `disp_(value)` in the numeric methods: the `String` of `ToString` is not
/// modelled; the stand-in hands out its text
#[verifier::external_body]
pub fn disp_<T: NumDisplay>(v: T) -> (r: &'static str)
    ensures r.spec_bytes() == disp(v), plain(disp(v))
{ unimplemented!() }
/// the same for `char` (`char::to_string`): the one-character string
#[verifier::external_body]
pub fn disp_char_(c: char) -> (r: &'static str)
    ensures r@ == seq![c], r.spec_bytes() == char_bytes(c)
{ unimplemented!() }
pub open spec fn char_bytes(c: char) -> BSeq { encode_utf8(seq![c]) }
pub open spec fn bool_text(v: bool) -> BSeq { if v { "true".spec_bytes() } else { "false".spec_bytes() } }

/// N15: the text of an error message (not interpreted by any contract)
#[verifier::external_body]
pub fn errmsg_() -> Cow<'static, str> { Cow::Borrowed("") }
#[verifier::external_body]
pub fn errstr_() -> String { String::new() }

/// Model of serde::Serialize / serde::Serializer (A-serde: hand transcription of the trait signatures of the methods that
/// are brought under contract; every method has an unspecified default so that an implementor lists only the methods
/// whose real text is extracted; `requires self.ok()` on every method is the TYPE-INVARIANT assumption A-serde: the fields `ok()`
/// speaks about are private to the crate, every crate function that changes them is verified to preserve it, and foreign
/// `Serialize` code can only pass the values on. Verus admits no cycle between traits, so the methods that are generic over `T: Serialize`
/// -- serialize_some, serialize_newtype_struct, serialize_newtype_variant -- are verified as inherent methods with
/// `Self::Ok`/`Self::Error` written out: a declared rewrite). `ok()` stands for the representation invariant an implementor needs; a `Serialize`
/// value may do anything with the serializer it is given -- nothing is assumed about it.
pub trait Serialize {
    fn serialize<S: Serializer>(&self, serializer: S) -> (r: Result<S::Ok, S::Error>)
        requires serializer.ok();
    /// THE SAME FOREIGN CALL, OBSERVED (device (i), DESIGN section 5): where an attribute value is handed to the value's `serialize`
    /// (Struct::write_attribute, by a declared rewrite of that one call), the serializer it gets must escape for the quote that
    /// was just written in front of it -- C13: an attribute value cannot close its own quotes
    fn serialize_attr_value<'w, W: Write>(&self, serializer: SimpleTypeSerializer<&'w mut W>) -> (r: Result<&'w mut W, SeError>)
        requires attr_quote_ok((*serializer.writer).out(), serializer.target);
    /// THE SAME FOREIGN CALL, OBSERVED, for the items of an xs:list (SimpleSeq::serialize_element, by a declared rewrite of that one call
    /// which also names, as ghost arguments, what the property wants handed over): every item gets a serializer for the SAME position
    /// (attribute value or text) and quoting level as the list, and the delimiter exactly between items -- C13: an item of a list in an
    /// attribute cannot close the attribute's quotes (seed C13_j)
    fn serialize_list_item<W: Write>(&self, target: Ghost<QuoteTarget>, level: Ghost<QuoteLevel>, delim: Ghost<bool>, serializer: AtomicSerializer<W>) -> (r: Result<bool, SeError>)
        requires serializer.target == target@, serializer.level == level@, serializer.write_delimiter == delim@;
}
/// the value position opened by a quote character is escaped for exactly that quote
pub open spec fn attr_quote_ok(out: BSeq, target: QuoteTarget) -> bool {
    out.len() > 0 && ((out.last() == 0x22u8 && target is DoubleQAttr) || (out.last() == 0x27u8 && target is SingleQAttr))
}
pub trait Serializer: Sized {
    type Ok;
    type Error;
    type SerializeSeq;
    type SerializeStruct;
    type SerializeMap;
    spec fn ok(&self) -> bool;
    #[verifier::external_body]
    fn serialize_bool(self, v: bool) -> Result<Self::Ok, Self::Error> requires self.ok() { unimplemented!() }
    #[verifier::external_body]
    fn serialize_i8(self, v: i8) -> Result<Self::Ok, Self::Error> requires self.ok() { unimplemented!() }
    #[verifier::external_body]
    fn serialize_i16(self, v: i16) -> Result<Self::Ok, Self::Error> requires self.ok() { unimplemented!() }
    #[verifier::external_body]
    fn serialize_i32(self, v: i32) -> Result<Self::Ok, Self::Error> requires self.ok() { unimplemented!() }
    #[verifier::external_body]
    fn serialize_i64(self, v: i64) -> Result<Self::Ok, Self::Error> requires self.ok() { unimplemented!() }
    #[verifier::external_body]
    fn serialize_u8(self, v: u8) -> Result<Self::Ok, Self::Error> requires self.ok() { unimplemented!() }
    #[verifier::external_body]
    fn serialize_u16(self, v: u16) -> Result<Self::Ok, Self::Error> requires self.ok() { unimplemented!() }
    #[verifier::external_body]
    fn serialize_u32(self, v: u32) -> Result<Self::Ok, Self::Error> requires self.ok() { unimplemented!() }
    #[verifier::external_body]
    fn serialize_u64(self, v: u64) -> Result<Self::Ok, Self::Error> requires self.ok() { unimplemented!() }
    #[verifier::external_body]
    fn serialize_i128(self, v: i128) -> Result<Self::Ok, Self::Error> requires self.ok() { unimplemented!() }
    #[verifier::external_body]
    fn serialize_u128(self, v: u128) -> Result<Self::Ok, Self::Error> requires self.ok() { unimplemented!() }
    #[verifier::external_body]
    fn serialize_f32(self, v: f32) -> Result<Self::Ok, Self::Error> requires self.ok() { unimplemented!() }
    #[verifier::external_body]
    fn serialize_f64(self, v: f64) -> Result<Self::Ok, Self::Error> requires self.ok() { unimplemented!() }
    #[verifier::external_body]
    fn serialize_char(self, v: char) -> Result<Self::Ok, Self::Error> requires self.ok() { unimplemented!() }
    #[verifier::external_body]
    fn serialize_bytes(self, v: &[u8]) -> Result<Self::Ok, Self::Error> requires self.ok() { unimplemented!() }
    #[verifier::external_body]
    fn serialize_str(self, value: &str) -> Result<Self::Ok, Self::Error> requires self.ok() { unimplemented!() }
    #[verifier::external_body]
    fn serialize_none(self) -> Result<Self::Ok, Self::Error> requires self.ok() { unimplemented!() }
    #[verifier::external_body]
    fn serialize_unit(self) -> Result<Self::Ok, Self::Error> requires self.ok() { unimplemented!() }
    #[verifier::external_body]
    fn serialize_unit_struct(self, name: &'static str) -> Result<Self::Ok, Self::Error> requires self.ok() { unimplemented!() }
    #[verifier::external_body]
    fn serialize_unit_variant(self, name: &'static str, variant_index: u32, variant: &'static str) -> Result<Self::Ok, Self::Error> requires self.ok() { unimplemented!() }
    #[verifier::external_body]
    fn serialize_seq(self, len: Option<usize>) -> Result<Self::SerializeSeq, Self::Error> requires self.ok() { unimplemented!() }
    #[verifier::external_body]
    fn serialize_struct(self, name: &'static str, len: usize) -> Result<Self::SerializeStruct, Self::Error> requires self.ok() { unimplemented!() }
    #[verifier::external_body]
    fn serialize_map(self, len: Option<usize>) -> Result<Self::SerializeMap, Self::Error> requires self.ok() { unimplemented!() }
}
/// Models of serde::ser::SerializeSeq / SerializeTuple / SerializeTupleVariant. A type may implement several of these
/// traits, whose methods have the same names; Verus cannot attach `ensures` to such an implementation, so each trait
/// states its postconditions through spec functions (`*_post`) that the implementor defines.
pub trait SerializeSeq: Sized {
    type Ok;
    type Error;
    spec fn seq_ok(&self) -> bool;
    spec fn seq_elem_post(pre: Self, post: Self, r: Result<(), Self::Error>) -> bool;
    spec fn seq_end_post(pre: Self, r: Result<Self::Ok, Self::Error>) -> bool;
    fn serialize_element<T: ?Sized + Serialize>(&mut self, value: &T) -> (r: Result<(), Self::Error>)
        requires old(self).seq_ok() ensures Self::seq_elem_post(*old(self), *final(self), r);
    fn end(self) -> (r: Result<Self::Ok, Self::Error>) requires self.seq_ok() ensures Self::seq_end_post(self, r);
}
pub trait SerializeTuple: Sized {
    type Ok;
    type Error;
    spec fn tup_ok(&self) -> bool;
    spec fn tup_elem_post(pre: Self, post: Self, r: Result<(), Self::Error>) -> bool;
    spec fn tup_end_post(pre: Self, r: Result<Self::Ok, Self::Error>) -> bool;
    fn serialize_element<T: ?Sized + Serialize>(&mut self, value: &T) -> (r: Result<(), Self::Error>)
        requires old(self).tup_ok() ensures Self::tup_elem_post(*old(self), *final(self), r);
    fn end(self) -> (r: Result<Self::Ok, Self::Error>) requires self.tup_ok() ensures Self::tup_end_post(self, r);
}
pub trait SerializeStruct: Sized {
    type Ok;
    type Error;
    spec fn st_ok(&self) -> bool;
    spec fn st_field_post(pre: Self, post: Self, key: &'static str, r: Result<(), Self::Error>) -> bool;
    spec fn st_end_post(pre: Self, r: Result<Self::Ok, Self::Error>) -> bool;
    fn serialize_field<T: ?Sized + Serialize>(&mut self, key: &'static str, value: &T) -> (r: Result<(), Self::Error>)
        requires old(self).st_ok() ensures Self::st_field_post(*old(self), *final(self), key, r);
    fn end(self) -> (r: Result<Self::Ok, Self::Error>) requires self.st_ok() ensures Self::st_end_post(self, r);
}
pub trait SerializeMap: Sized {
    type Ok;
    type Error;
    spec fn map_ok(&self) -> bool;
    spec fn map_step_post(pre: Self, post: Self) -> bool;
    spec fn map_end_post(pre: Self, r: Result<Self::Ok, Self::Error>) -> bool;
    fn serialize_key<T: ?Sized + Serialize>(&mut self, key: &T) -> (r: Result<(), Self::Error>)
        requires old(self).map_ok() ensures Self::map_step_post(*old(self), *final(self));
    fn serialize_value<T: ?Sized + Serialize>(&mut self, value: &T) -> (r: Result<(), Self::Error>)
        requires old(self).map_ok() ensures Self::map_step_post(*old(self), *final(self));
    fn serialize_entry<K: ?Sized + Serialize, V: ?Sized + Serialize>(&mut self, key: &K, value: &V) -> (r: Result<(), Self::Error>)
        requires old(self).map_ok() ensures Self::map_step_post(*old(self), *final(self));
    fn end(self) -> (r: Result<Self::Ok, Self::Error>) requires self.map_ok() ensures Self::map_end_post(self, r);
}
pub trait SerializeTupleVariant: Sized {
    type Ok;
    type Error;
    spec fn tv_ok(&self) -> bool;
    spec fn tv_field_post(pre: Self, post: Self, r: Result<(), Self::Error>) -> bool;
    spec fn tv_end_post(pre: Self, r: Result<Self::Ok, Self::Error>) -> bool;
    fn serialize_field<T: ?Sized + Serialize>(&mut self, value: &T) -> (r: Result<(), Self::Error>)
        requires old(self).tv_ok() ensures Self::tv_field_post(*old(self), *final(self), r);
    fn end(self) -> (r: Result<Self::Ok, Self::Error>) requires self.tv_ok() ensures Self::tv_end_post(self, r);
}

//@extract de::TEXT_KEY | src/de/mod.rs :: const TEXT_KEY | serves=C13,C19 features=serialize
 pub exec const TEXT_KEY: &'static str
    ensures TEXT_KEY@ == "$text"@
 { "$text" }
//@end
//@extract de::VALUE_KEY | src/de/mod.rs :: const VALUE_KEY | serves=C13,C19 features=serialize
 pub exec const VALUE_KEY: &'static str
    ensures VALUE_KEY@ == "$value"@
 { "$value" }
//@end

/// the UTF-8 encodings of the ASCII characters the tag writers emit
pub proof fn lemma_nl()
    ensures encode_utf8(seq!['\n']) == seq![0x0au8], encode_utf8(seq!['<']) == seq![0x3cu8], encode_utf8(seq!['>']) == seq![0x3eu8],
        encode_utf8(seq!['=']) == seq![0x3du8], encode_utf8(seq!['"']) == seq![0x22u8], encode_utf8(seq![' ']) == seq![0x20u8],
{
    lemma_ascii1('\n'); lemma_ascii1('<'); lemma_ascii1('>'); lemma_ascii1('='); lemma_ascii1('"'); lemma_ascii1(' ');
}
/// a sequence of `n` bytes that are all `c` is THE sequence of n times c
pub proof fn lemma_fill(c: u8, n: nat)
    ensures forall|s: BSeq| s.len() == n && (forall|k: int| 0 <= k < s.len() ==> s[k] == c) ==> s == #[trigger] (seq![0x0au8] + s).subrange(1, 1 + n as int) && s == BSeq::new(n, |k: int| c)
{
    assert forall|s: BSeq| s.len() == n && (forall|k: int| 0 <= k < s.len() ==> s[k] == c) implies s == #[trigger] (seq![0x0au8] + s).subrange(1, 1 + n as int) && s == BSeq::new(n, |k: int| c) by {
        assert(s =~= BSeq::new(n, |k: int| c));
        assert(s =~= (seq![0x0au8] + s).subrange(1, 1 + n as int));
    }
}
pub proof fn lemma_ascii1(c: char)
    requires (c as u32) < 128
    ensures encode_utf8(seq![c]) == seq![c as u8]
{
    let s = seq![c];
    is_ascii_chars_encode_utf8(s);
    assert(encode_utf8(s) =~= seq![c as u8]);
}

//@extract se::WriteResult | src/se/mod.rs :: enum WriteResult | serves=C19 features=serialize
 #[derive(Clone, Copy)]
 pub enum WriteResult {
    /// Text with insignificant spaces was written, for example a number. Adding indent to the
    /// serialized data does not change meaning of the data.
    Text,
    /// The XML tag was written. Adding indent to the serialized data does not change meaning of the data.
    Element,
    /// Nothing was written (i. e. serialized type not represented in XML a all). Adding indent to the
    /// serialized data does not change meaning of the data. This is returned for units, unit structs
    /// and unit variants.
    Nothing,
    /// Text with significant spaces was written, for example a string. Adding indent to the
    /// serialized data may change meaning of the data.
    SensitiveText,
    /// `None` was serialized and nothing was written. `None` does not represented in XML,
    /// but adding indent after it may change meaning of the data.
    SensitiveNothing,
}
//@end
impl WriteResult {
//@extract se::WriteResult::allow_indent | src/se/mod.rs :: impl WriteResult :: fn allow_indent | serves=C19 features=serialize
 pub fn allow_indent(&self) -> (r: bool)
        // C19: after text -- and after a skipped `None`, which may sit inside text -- no indentation may follow
        ensures r == (*self is Element || *self is Nothing)
 {
        matches!(self, Self::Element | Self::Nothing)
    }
//@end
//@extract se::WriteResult::is_text | src/se/mod.rs :: impl WriteResult :: fn is_text | serves=C19 features=serialize
 pub fn is_text(&self) -> (r: bool)
        ensures r == (*self is Text || *self is SensitiveText)
 {
        matches!(self, Self::Text | Self::SensitiveText)
    }
//@end
}

//@extract se::Indent | src/se/mod.rs :: enum Indent | serves=C19 features=serialize
 pub enum Indent<'i> {
    /// No indent should be written before the element
    None,
    /// The specified indent should be written. The type owns the buffer with indent
    Owned(Indentation),
    /// The specified indent should be written. The type borrows buffer with indent
    /// from its owner
    Borrow(&'i mut Indentation),
}
//@end
impl<'i> Indent<'i> {
    /// the indentation state, if indentation is on
    pub open spec fn st(&self) -> Option<Indentation> {
        match self { Indent::None => None, Indent::Owned(i) => Some(*i), Indent::Borrow(i) => Some(**i) }
    }
    /// the state the owner of a borrowed indentation will find when the borrow ends
    #[verifier::prophetic]
    pub open spec fn fut(&self) -> Option<Indentation> {
        match self { Indent::Borrow(i) => Some(*final(*i)), _ => None }
    }
    #[verifier::prophetic]
    pub open spec fn fin(&self) -> Option<Indentation> {
        match self { Indent::None => None, Indent::Owned(i) => Some(*i), Indent::Borrow(i) => Some(*final(*i)) }
    }
    pub open spec fn wf(&self) -> bool { self.st() matches Some(i) ==> i.inv() }
    /// C19: ALL that indentation ever writes: nothing, or one line break and the current indent
    pub open spec fn bytes(&self) -> BSeq {
        match self.st() { None => BSeq::empty(), Some(i) => nl_indent(i.indent_char, i.current_indent_len as nat) }
    }
//@extract se::Indent::borrow | src/se/mod.rs :: impl<'i> Indent<'i> :: fn borrow | serves=C19 features=serialize
 pub fn borrow(&mut self) -> (r: Indent)
        ensures
            // the child sees the same state; what the child leaves is what the parent finds
            r.st() == old(self).st(), final(self).st() == r.fin(), !(r is Owned), final(self).fut() == old(self).fut(),
 {
        match self {
            Self::None => Indent::None,
            Self::Owned(ref mut i) => Indent::Borrow(i),
            Self::Borrow(i) => Indent::Borrow(i),
        }
    }
//@end
//@extract se::Indent::increase | src/se/mod.rs :: impl<'i> Indent<'i> :: fn increase | serves=C19 features=serialize
 pub fn increase(&mut self)
        requires old(self).wf(), old(self).st() matches Some(i) ==> i.current_indent_len + i.indent_size <= usize::MAX,
        ensures final(self).wf(), final(self).fut() == old(self).fut(),
            match old(self).st() {
                None => final(self).st() is None,
                Some(i) => final(self).st() matches Some(j) && j.current_indent_len == i.current_indent_len + i.indent_size
                    && j.indent_char == i.indent_char && j.indent_size == i.indent_size,
            },
 {
        match self {
            Self::None => {}
            Self::Owned(i) => i.grow(),
            Self::Borrow(i) => i.grow(),
        }
    }
//@end
//@extract se::Indent::decrease | src/se/mod.rs :: impl<'i> Indent<'i> :: fn decrease | serves=C19 features=serialize
 pub fn decrease(&mut self)
        requires old(self).wf(),
        ensures final(self).wf(), final(self).fut() == old(self).fut(),
            match old(self).st() {
                None => final(self).st() is None,
                Some(i) => final(self).st() matches Some(j) && j.indent_char == i.indent_char && j.indent_size == i.indent_size
                    && j.current_indent_len == (if i.current_indent_len >= i.indent_size { i.current_indent_len - i.indent_size } else { 0 }),
            },
 {
        match self {
            Self::None => {}
            Self::Owned(i) => i.shrink(),
            Self::Borrow(i) => i.shrink(),
        }
    }
//@end
//@extract se::Indent::write_indent | src/se/mod.rs :: impl<'i> Indent<'i> :: fn write_indent | serves=C19 features=serialize
//@rewrite <W: std::fmt::Write>(&mut self, mut writer: W) ==> <W: Write>(&mut self, mut writer: &mut &mut W)
 pub fn write_indent<W: Write>(&mut self, mut writer: &mut &mut W) -> (r: Result<(), SeError>)
        requires old(self).wf(),
        ensures
            final(self).st() == old(self).st(), final(self).fut() == old(self).fut(),
            // the caller's writer is still the same writer ...
            *final(*final(writer)) == *final(*old(writer)),
            // ... and C19: exactly one line break and the current indent were written -- or nothing
            r is Ok ==> (*final(writer)).out() == (*old(writer)).out() + old(self).bytes(),
 {
        proof { lemma_nl(); }
        match self {
            Self::None => {}
            Self::Owned(i) => {
                proof { lemma_fill(i.indent_char, i.current_indent_len as nat); }
                writer.write_char('\n')?;
                writer.write_str(from_utf8(i.current())?)?;
            }
            Self::Borrow(i) => {
                proof { lemma_fill(i.indent_char, i.current_indent_len as nat); }
                writer.write_char('\n')?;
                writer.write_str(from_utf8(i.current())?)?;
            }
        }
        Ok(())
    }
//@end
}

//@extract simple_type::SimpleTypeSerializer | src/se/simple_type.rs :: struct SimpleTypeSerializer | serves=C13 features=serialize
 pub struct SimpleTypeSerializer<W: Write> {
    /// Writer to which this serializer writes content
    pub writer: W,
    /// Target for which element is serializing. Affects additional characters to escape.
    pub target: QuoteTarget,
    /// Defines which XML characters need to be escaped
    pub level: QuoteLevel,
}
//@end

//@extract content::ContentSerializer | src/se/content.rs :: struct ContentSerializer | serves=C13,C19 features=serialize
//@rewrite pub(super) indent ==> pub indent
 pub struct ContentSerializer<'w, 'i, W: Write> {
    pub writer: &'w mut W,
    /// Defines which XML characters need to be escaped in text content
    pub level: QuoteLevel,
    /// Current indentation level. Note, that `Indent::None` means that there is
    /// no indentation at all, but `write_indent == false` means only, that indent
    /// writing is disabled in this instantiation of `ContentSerializer`, but
    /// child serializers should have access to the actual state of indentation.
    pub indent: Indent<'i>,
    /// If `true`, then current indent will be written before writing the content,
    /// but only if content is not empty. This flag is reset after writing indent.
    pub write_indent: bool,
    /// If `true`, then primitive types that serializes to a text content without
    /// surrounding tag will be allowed, otherwise the [`SeError::Unsupported`]
    /// will be returned.
    ///
    /// This method protects from the situation when two consequent values serialized
    /// as a text that makes it impossible to distinguish between them during
    /// deserialization. Instead of ambiguous serialization the error is returned.
    pub allow_primitive: bool,
    // If `true`, then empty elements will be serialized as `<element></element>`
    // instead of `<element/>`.
    pub expand_empty_elements: bool,
}
//@end
/// representation invariant of the indentation, and room for one more level (A-size: the indent never comes within one
/// step of usize::MAX)
pub open spec fn ind_ok(ind: Indent) -> bool {
    ind.wf() && (ind.st() matches Some(i) ==> i.current_indent_len + i.indent_size <= usize::MAX)
}
/// `<name>`, `</name>`, and the empty element in its two spellings
pub open spec fn tag_open(n: BSeq) -> BSeq { seq![0x3cu8] + n + seq![0x3eu8] }
pub open spec fn tag_close(n: BSeq) -> BSeq { seq![0x3cu8, 0x2fu8] + n + seq![0x3eu8] }
pub open spec fn tag_empty(n: BSeq, expand: bool) -> BSeq {
    if expand { tag_open(n) + tag_close(n) } else { seq![0x3cu8] + n + seq![0x2fu8, 0x3eu8] }
}
pub proof fn lemma_lits()
    ensures "<".spec_bytes() == seq![0x3cu8], "/>".spec_bytes() == seq![0x2fu8, 0x3eu8], "></".spec_bytes() == seq![0x3eu8, 0x3cu8, 0x2fu8],
        "</".spec_bytes() == seq![0x3cu8, 0x2fu8],
{
    reveal_strlit("<"); reveal_strlit("/>"); reveal_strlit("></"); reveal_strlit("</");
    is_ascii_chars_encode_utf8("<"@); is_ascii_chars_encode_utf8("/>"@); is_ascii_chars_encode_utf8("></"@); is_ascii_chars_encode_utf8("</"@);
    assert("<".spec_bytes() =~= seq![0x3cu8]); assert("/>".spec_bytes() =~= seq![0x2fu8, 0x3eu8]);
    assert("></".spec_bytes() =~= seq![0x3eu8, 0x3cu8, 0x2fu8]); assert("</".spec_bytes() =~= seq![0x3cu8, 0x2fu8]);
}
impl<'w, 'i, W: Write> ContentSerializer<'w, 'i, W> {
    /// C19: what this serializer writes in front of its first markup: the indent if the flag is set, else nothing
    pub open(crate) spec fn pre(&self) -> BSeq { if self.write_indent { self.indent.bytes() } else { BSeq::empty() } }
//@extract content::ContentSerializer::into_simple_type_serializer_impl | src/se/content.rs :: impl<'w, 'i, W: Write> ContentSerializer<'w, 'i, W> :: fn into_simple_type_serializer_impl | serves=C13 features=serialize
 pub(crate) fn into_simple_type_serializer_impl(self) -> (r: SimpleTypeSerializer<&'w mut W>)
        // text content: the same writer, the Text escaping rules, the same quoting level
        ensures (*r.writer).out() == (*old(self.writer)).out(), *final(r.writer) == *final(self.writer), r.target is Text, r.level == self.level,
 {
        //TODO: Customization point: choose between CDATA and Text representation
        SimpleTypeSerializer {
            writer: self.writer,
            target: QuoteTarget::Text,
            level: self.level,
        }
    }
//@end
//@extract content::ContentSerializer::into_simple_type_serializer | src/se/content.rs :: impl<'w, 'i, W: Write> ContentSerializer<'w, 'i, W> :: fn into_simple_type_serializer | serves=C13 features=serialize
 pub(crate) fn into_simple_type_serializer(self) -> (r: Result<SimpleTypeSerializer<&'w mut W>, SeError>)
        ensures (r is Ok) == self.allow_primitive,
            r matches Ok(x) ==> (*x.writer).out() == (*old(self.writer)).out() && *final(x.writer) == *final(self.writer) && x.target is Text && x.level == self.level,
            r is Err ==> *final(self.writer) == *old(self.writer),
 {
        if self.allow_primitive {
            Ok(self.into_simple_type_serializer_impl())
        } else {
            Err(SeError::Unsupported("consequent primitives would be serialized without delimiter and cannot be deserialized back".into()))
        }
    }
//@end
//@extract content::ContentSerializer::new_seq_element_serializer | src/se/content.rs :: impl<'w, 'i, W: Write> ContentSerializer<'w, 'i, W> :: fn new_seq_element_serializer | serves=C13,C19 features=serialize
 pub(crate) fn new_seq_element_serializer(&mut self, allow_primitive: bool) -> (r: ContentSerializer<W>)
        ensures
            // the child writes to the same writer, with the same settings and the same indentation state; what it leaves
            // behind (bytes written, indentation level) is what this serializer continues with
            (*r.writer).out() == (*old(self).writer).out(), (*final(self).writer).out() == (*final(r.writer)).out(),
            *final(final(self).writer) == *final(old(self).writer),
            r.level == old(self).level, r.write_indent == old(self).write_indent, r.allow_primitive == allow_primitive,
            r.expand_empty_elements == old(self).expand_empty_elements,
            r.indent.st() == old(self).indent.st(), final(self).indent.st() == r.indent.fin(), !(r.indent is Owned),
            final(self).indent.fut() == old(self).indent.fut(),
            final(self).level == old(self).level, final(self).write_indent == old(self).write_indent,
            final(self).allow_primitive == old(self).allow_primitive, final(self).expand_empty_elements == old(self).expand_empty_elements,
 {
        ContentSerializer {
            writer: self.writer,
            level: self.level,
            indent: self.indent.borrow(),
            write_indent: self.write_indent,
            allow_primitive,
            expand_empty_elements: self.expand_empty_elements,
        }
    }
//@end
//@extract content::ContentSerializer::write_empty | src/se/content.rs :: impl<'w, 'i, W: Write> ContentSerializer<'w, 'i, W> :: fn write_empty | serves=C13,C19 features=serialize
 pub(crate) fn write_empty(self, name: XmlName) -> (r: Result<WriteResult, SeError>)
        requires self.indent.wf(),
        ensures
            // C13/C19: exactly one self-closed tag with this name (`<name/>`, or `<name></name>` when empty elements are
            // expanded), preceded by the indent if the flag is set; classified as markup
            r matches Ok(x) ==> x is Element
                && (*final(self.writer)).out() == (*old(self.writer)).out() + self.pre() + tag_empty(name.0.spec_bytes(), self.expand_empty_elements),
 { let mut self__ = self;
        proof { lemma_nl(); lemma_lits(); }
        let ghost o0 = (*self__.writer).out();
        let ghost n = name.0.spec_bytes();
        self__.write_indent()?;
        if self__.expand_empty_elements {
            self__.writer.write_char('<')?;
            self__.writer.write_str(name.0)?;
            self__.writer.write_str("></")?;
            self__.writer.write_str(name.0)?;
            self__.writer.write_char('>')?;
        } else {
            self__.writer.write_str("<")?;
            self__.writer.write_str(name.0)?;
            self__.writer.write_str("/>")?;
        }
        proof {
            let o1 = o0 + self.pre();
            if self.expand_empty_elements {
                assert(o1 + seq![0x3cu8] + n + seq![0x3eu8, 0x3cu8, 0x2fu8] + n + seq![0x3eu8] =~= o1 + tag_empty(n, true));
            } else {
                assert(o1 + seq![0x3cu8] + n + seq![0x2fu8, 0x3eu8] =~= o1 + tag_empty(n, false));
            }
        }
        Ok(WriteResult::Element)
    }
//@end
//@extract content::ContentSerializer::write_wrapped | src/se/content.rs :: impl<'w, 'i, W: Write> ContentSerializer<'w, 'i, W> :: fn write_wrapped | serves=C13,C19 features=serialize
 pub(crate) fn write_wrapped<S>(
        self,
        name: XmlName,
        serialize: S,
    ) -> (r: Result<WriteResult, SeError>)
    where
        S: for<'a> FnOnce(SimpleTypeSerializer<&'a mut W>) -> Result<&'a mut W, SeError>,
        requires self.indent.wf(),
            // the content writer accepts any simple-type serializer
            forall|x: SimpleTypeSerializer<&mut W>| serialize.requires((x,)),
        ensures
            // C13/C19: the indent (if the flag is set) and `<name>` are written BEFORE the content writer runs -- on the same
            // writer, with the Text escaping rules and this quoting level --, and `</name>` with the SAME name is appended
            // to what it returns; classified as markup
            r matches Ok(x) ==> x is Element && exists|sts: SimpleTypeSerializer<&mut W>, w2: &mut W|
                #[trigger] serialize.ensures((sts,), Result::<&mut W, SeError>::Ok(w2))
                && (*sts.writer).out() == (*old(self.writer)).out() + self.pre() + tag_open(name.0.spec_bytes())
                && sts.target is Text && sts.level == self.level && *final(sts.writer) == *final(self.writer)
                && (*final(w2)).out() == (*w2).out() + tag_close(name.0.spec_bytes()),
    { let mut self__ = self;
        proof { lemma_nl(); lemma_lits(); }
        let ghost o0 = (*self__.writer).out();
        let ghost n = name.0.spec_bytes();
        self__.write_indent()?;
        self__.writer.write_char('<')?;
        self__.writer.write_str(name.0)?;
        self__.writer.write_char('>')?;
        proof { assert(o0 + self.pre() + seq![0x3cu8] + n + seq![0x3eu8] =~= o0 + self.pre() + tag_open(n)); }

        let writer = serialize(self__.into_simple_type_serializer_impl())?;
        let ghost o2 = (*writer).out();

        writer.write_str("</")?;
        writer.write_str(name.0)?;
        writer.write_char('>')?;
        proof { assert(o2 + seq![0x3cu8, 0x2fu8] + n + seq![0x3eu8] =~= o2 + tag_close(n)); }
        Ok(WriteResult::Element)
    }
//@end
//@extract content::ContentSerializer::write_indent | src/se/content.rs :: impl<'w, 'i, W: Write> ContentSerializer<'w, 'i, W> :: fn write_indent | serves=C19 features=serialize
 pub(crate) fn write_indent(&mut self) -> (r: Result<(), SeError>)
        requires old(self).indent.wf(),
        ensures
            *final(final(self).writer) == *final(old(self).writer),
            final(self).indent.st() == old(self).indent.st(), final(self).indent.fut() == old(self).indent.fut(),
            final(self).level == old(self).level, final(self).allow_primitive == old(self).allow_primitive,
            final(self).expand_empty_elements == old(self).expand_empty_elements,
            // C19: the indent is written at most once: only if the flag is set, and the flag is cleared
            r is Ok ==> (*final(self).writer).out() == (*old(self).writer).out() + old(self).pre() && !final(self).write_indent,
 {
        if self.write_indent {
            self.indent.write_indent(&mut self.writer)?;
            self.write_indent = false;
        }
        Ok(())
    }
//@end
}

//@extract element::ElementSerializer | src/se/element.rs :: struct ElementSerializer | serves=C13,C19 features=serialize
//@rewrite pub(super) key ==> pub key
 pub struct ElementSerializer<'w, 'k, W: Write> {
    /// The inner serializer that contains the settings and mostly do the actual work
    pub ser: ContentSerializer<'w, 'k, W>,
    /// Tag name used to wrap serialized types except enum variants which uses the variant name
    pub key: XmlName<'k>,
}
//@end

//@extract simple_type::SimpleSeq | src/se/simple_type.rs :: struct SimpleSeq | serves=C13 features=serialize
 pub struct SimpleSeq<W: Write> {
    pub writer: W,
    pub target: QuoteTarget,
    pub level: QuoteLevel,
    /// If `true`, nothing was written yet to the `writer`
    pub is_empty: bool,
}
//@end
//@extract simple_type::AtomicSerializer | src/se/simple_type.rs :: struct AtomicSerializer | serves=C13 features=serialize
//@rewrite pub(crate) write_delimiter ==> pub write_delimiter
 pub struct AtomicSerializer<W: Write> {
    pub writer: W,
    pub target: QuoteTarget,
    /// Defines which XML characters need to be escaped
    pub level: QuoteLevel,
    /// When `true` an `xs:list` delimiter (a space) should be written
    pub write_delimiter: bool,
}
//@end
//@extract element::Struct | src/se/element.rs :: struct Struct | serves=C13,C19 features=serialize
 pub struct Struct<'w, 'k, W: Write> {
    pub ser: ElementSerializer<'w, 'k, W>,
    /// Buffer to store serialized elements
    // TODO: Customization point: allow direct writing of elements, but all
    // attributes should be listed first. Fail, if attribute encountered after
    // element. Use feature to configure
    pub children: String,
    /// Whether need to write indent after the last written field
    pub write_indent: bool,
}
//@end
//@extract element::Map | src/se/element.rs :: struct Map | serves=C13 features=serialize
 pub struct Map<'w, 'k, W: Write> {
    pub ser: Struct<'w, 'k, W>,
    /// Key, serialized by `QNameSerializer` if consumer uses `serialize_key` +
    /// `serialize_value` calls instead of `serialize_entry`
    pub key: Option<String>,
}
//@end
//@extract key::QNameSerializer | src/se/key.rs :: struct QNameSerializer | serves=C13 features=serialize
 pub struct QNameSerializer<W: Write> {
    /// Writer to which this serializer writes content
    pub writer: W,
}
//@end
/// the serializer of map keys (real text of src/se/key.rs, generic in the writer: it is handed back by value). C13 "carries the data
/// unchanged": the key string handed to `Struct::write_field` (which validates it) is exactly the text of the key value
impl<W: Write> QNameSerializer<W> {
//@extract key::QNameSerializer::write_str | src/se/key.rs :: impl<W: Write> QNameSerializer<W> :: fn write_str | serves=C13 features=serialize
    fn write_str(&mut self, value: &str) -> (r: Result<(), SeError>)
            ensures r is Ok ==> final(self).writer.out() == old(self).writer.out() + value.spec_bytes(),
        {
        Ok(self.writer.write_str(value)?)
    }
//@end
}
impl<W: Write> Serializer for QNameSerializer<W> {
    type Ok = W;
    type Error = SeError;
    type SerializeSeq = ();
    type SerializeStruct = ();
    type SerializeMap = ();
    /// observation of the hand-over in `Map::make_key`: a key is serialized into an EMPTY string
    open spec fn ok(&self) -> bool { self.writer.out().len() == 0 }
//@extract key::QNameSerializer::serialize_bool | src/se/key.rs :: impl<W: Write> Serializer for QNameSerializer<W> :: invoke write_primitive :: fn serialize_bool | serves=C13 features=serialize macro_files=src/se/mod.rs
        fn serialize_bool(self, value: bool) -> (r: Result<Self::Ok, Self::Error>)
            ensures // C13: the key is the text of the value, appended to what the writer held
                r matches Ok(w) ==> w.out() == self.writer.out() + bool_text(value),
        { let mut self__ = self;
            self__.write_str(if value { "true" } else { "false" })?;
            Ok(self__.writer)
        }
//@end
//@extract key::QNameSerializer::serialize_i8 | src/se/key.rs :: impl<W: Write> Serializer for QNameSerializer<W> :: invoke write_primitive :: invoke write_primitive :: fn serialize_i8 | serves=C13 features=serialize macro_files=src/se/mod.rs
//@rewrite &value.to_string() ==> disp_(value)
        fn serialize_i8(self, value: i8) -> (r: Result<Self::Ok, Self::Error>)
            ensures r matches Ok(w) ==> w.out() == self.writer.out() + disp(value),
        { let mut self__ = self;
            self__.write_str(disp_(value))?;
            Ok(self__.writer)
        }
//@end
//@extract key::QNameSerializer::serialize_i16 | src/se/key.rs :: impl<W: Write> Serializer for QNameSerializer<W> :: invoke write_primitive :: invoke write_primitive :: fn serialize_i16 | serves=C13 features=serialize macro_files=src/se/mod.rs
//@rewrite &value.to_string() ==> disp_(value)
        fn serialize_i16(self, value: i16) -> (r: Result<Self::Ok, Self::Error>)
            ensures r matches Ok(w) ==> w.out() == self.writer.out() + disp(value),
        { let mut self__ = self;
            self__.write_str(disp_(value))?;
            Ok(self__.writer)
        }
//@end
//@extract key::QNameSerializer::serialize_i32 | src/se/key.rs :: impl<W: Write> Serializer for QNameSerializer<W> :: invoke write_primitive :: invoke write_primitive :: fn serialize_i32 | serves=C13 features=serialize macro_files=src/se/mod.rs
//@rewrite &value.to_string() ==> disp_(value)
        fn serialize_i32(self, value: i32) -> (r: Result<Self::Ok, Self::Error>)
            ensures r matches Ok(w) ==> w.out() == self.writer.out() + disp(value),
        { let mut self__ = self;
            self__.write_str(disp_(value))?;
            Ok(self__.writer)
        }
//@end
//@extract key::QNameSerializer::serialize_i64 | src/se/key.rs :: impl<W: Write> Serializer for QNameSerializer<W> :: invoke write_primitive :: invoke write_primitive :: fn serialize_i64 | serves=C13 features=serialize macro_files=src/se/mod.rs
//@rewrite &value.to_string() ==> disp_(value)
        fn serialize_i64(self, value: i64) -> (r: Result<Self::Ok, Self::Error>)
            ensures r matches Ok(w) ==> w.out() == self.writer.out() + disp(value),
        { let mut self__ = self;
            self__.write_str(disp_(value))?;
            Ok(self__.writer)
        }
//@end
//@extract key::QNameSerializer::serialize_i128 | src/se/key.rs :: impl<W: Write> Serializer for QNameSerializer<W> :: invoke write_primitive :: invoke serde_if_integer128 :: invoke write_primitive :: fn serialize_i128 | serves=C13 features=serialize macro_files=src/se/mod.rs
//@rewrite &value.to_string() ==> disp_(value)
        fn serialize_i128(self, value: i128) -> (r: Result<Self::Ok, Self::Error>)
            ensures r matches Ok(w) ==> w.out() == self.writer.out() + disp(value),
        { let mut self__ = self;
            self__.write_str(disp_(value))?;
            Ok(self__.writer)
        }
//@end
//@extract key::QNameSerializer::serialize_u8 | src/se/key.rs :: impl<W: Write> Serializer for QNameSerializer<W> :: invoke write_primitive :: invoke write_primitive :: fn serialize_u8 | serves=C13 features=serialize macro_files=src/se/mod.rs
//@rewrite &value.to_string() ==> disp_(value)
        fn serialize_u8(self, value: u8) -> (r: Result<Self::Ok, Self::Error>)
            ensures r matches Ok(w) ==> w.out() == self.writer.out() + disp(value),
        { let mut self__ = self;
            self__.write_str(disp_(value))?;
            Ok(self__.writer)
        }
//@end
//@extract key::QNameSerializer::serialize_u16 | src/se/key.rs :: impl<W: Write> Serializer for QNameSerializer<W> :: invoke write_primitive :: invoke write_primitive :: fn serialize_u16 | serves=C13 features=serialize macro_files=src/se/mod.rs
//@rewrite &value.to_string() ==> disp_(value)
        fn serialize_u16(self, value: u16) -> (r: Result<Self::Ok, Self::Error>)
            ensures r matches Ok(w) ==> w.out() == self.writer.out() + disp(value),
        { let mut self__ = self;
            self__.write_str(disp_(value))?;
            Ok(self__.writer)
        }
//@end
//@extract key::QNameSerializer::serialize_u32 | src/se/key.rs :: impl<W: Write> Serializer for QNameSerializer<W> :: invoke write_primitive :: invoke write_primitive :: fn serialize_u32 | serves=C13 features=serialize macro_files=src/se/mod.rs
//@rewrite &value.to_string() ==> disp_(value)
        fn serialize_u32(self, value: u32) -> (r: Result<Self::Ok, Self::Error>)
            ensures r matches Ok(w) ==> w.out() == self.writer.out() + disp(value),
        { let mut self__ = self;
            self__.write_str(disp_(value))?;
            Ok(self__.writer)
        }
//@end
//@extract key::QNameSerializer::serialize_u64 | src/se/key.rs :: impl<W: Write> Serializer for QNameSerializer<W> :: invoke write_primitive :: invoke write_primitive :: fn serialize_u64 | serves=C13 features=serialize macro_files=src/se/mod.rs
//@rewrite &value.to_string() ==> disp_(value)
        fn serialize_u64(self, value: u64) -> (r: Result<Self::Ok, Self::Error>)
            ensures r matches Ok(w) ==> w.out() == self.writer.out() + disp(value),
        { let mut self__ = self;
            self__.write_str(disp_(value))?;
            Ok(self__.writer)
        }
//@end
//@extract key::QNameSerializer::serialize_u128 | src/se/key.rs :: impl<W: Write> Serializer for QNameSerializer<W> :: invoke write_primitive :: invoke serde_if_integer128 :: invoke write_primitive :: fn serialize_u128 | serves=C13 features=serialize macro_files=src/se/mod.rs
//@rewrite &value.to_string() ==> disp_(value)
        fn serialize_u128(self, value: u128) -> (r: Result<Self::Ok, Self::Error>)
            ensures r matches Ok(w) ==> w.out() == self.writer.out() + disp(value),
        { let mut self__ = self;
            self__.write_str(disp_(value))?;
            Ok(self__.writer)
        }
//@end
//@extract key::QNameSerializer::serialize_f32 | src/se/key.rs :: impl<W: Write> Serializer for QNameSerializer<W> :: invoke write_primitive :: invoke write_primitive :: fn serialize_f32 | serves=C13 features=serialize macro_files=src/se/mod.rs
//@rewrite &value.to_string() ==> disp_(value)
        fn serialize_f32(self, value: f32) -> (r: Result<Self::Ok, Self::Error>)
            ensures r matches Ok(w) ==> w.out() == self.writer.out() + disp(value),
        { let mut self__ = self;
            self__.write_str(disp_(value))?;
            Ok(self__.writer)
        }
//@end
//@extract key::QNameSerializer::serialize_f64 | src/se/key.rs :: impl<W: Write> Serializer for QNameSerializer<W> :: invoke write_primitive :: invoke write_primitive :: fn serialize_f64 | serves=C13 features=serialize macro_files=src/se/mod.rs
//@rewrite &value.to_string() ==> disp_(value)
        fn serialize_f64(self, value: f64) -> (r: Result<Self::Ok, Self::Error>)
            ensures r matches Ok(w) ==> w.out() == self.writer.out() + disp(value),
        { let mut self__ = self;
            self__.write_str(disp_(value))?;
            Ok(self__.writer)
        }
//@end
//@extract key::QNameSerializer::serialize_char | src/se/key.rs :: impl<W: Write> Serializer for QNameSerializer<W> :: invoke write_primitive :: fn serialize_char | serves=C13 features=serialize macro_files=src/se/mod.rs
//@rewrite &value.to_string() ==> disp_char_(value)
        fn serialize_char(self, value: char) -> (r: Result<Self::Ok, Self::Error>)
            ensures r matches Ok(w) ==> w.out() == self.writer.out() + char_bytes(value),
        {
            self.serialize_str(disp_char_(value))
        }
//@end
//@extract key::QNameSerializer::serialize_bytes | src/se/key.rs :: impl<W: Write> Serializer for QNameSerializer<W> :: invoke write_primitive :: fn serialize_bytes | serves=C13 features=serialize macro_files=src/se/mod.rs n15=1
        fn serialize_bytes(self, _value: &[u8]) -> (r: Result<Self::Ok, Self::Error>)
            ensures r is Err,
        {
            //TODO: customization point - allow user to decide how to encode bytes
            Err(Self::Error::Unsupported(
                errmsg_(),
            ))
        }
//@end
//@extract key::QNameSerializer::serialize_none | src/se/key.rs :: impl<W: Write> Serializer for QNameSerializer<W> :: invoke write_primitive :: fn serialize_none | serves=C13 features=serialize macro_files=src/se/mod.rs
        fn serialize_none(self) -> (r: Result<Self::Ok, Self::Error>)
            ensures r matches Ok(w) && w.out() == self.writer.out(),
        {
            Ok(self.writer)
        }
//@end
//@extract key::QNameSerializer::serialize_unit_variant | src/se/key.rs :: impl<W: Write> Serializer for QNameSerializer<W> :: invoke write_primitive :: fn serialize_unit_variant | serves=C13 features=serialize macro_files=src/se/mod.rs
        fn serialize_unit_variant(
            self,
            _name: &'static str,
            _variant_index: u32,
            variant: &'static str,
        ) -> (r: Result<Self::Ok, Self::Error>)
            ensures // C13: a unit variant used as a key is its name, unchanged
            r matches Ok(w) ==> w.out() == self.writer.out() + variant.spec_bytes(),
        {
            self.serialize_str(variant)
        }
//@end
//@extract key::QNameSerializer::serialize_str | src/se/key.rs :: impl<W: Write> Serializer for QNameSerializer<W> :: fn serialize_str | serves=C13 features=serialize
    fn serialize_str(self, value: &str) -> (r: Result<Self::Ok, Self::Error>)
            ensures // C13: a string key reaches the validation of `Struct::write_field` unchanged
            r matches Ok(w) ==> w.out() == self.writer.out() + value.spec_bytes(),
        { let mut self__ = self;
        self__.write_str(value)?;
        Ok(self__.writer)
    }
//@end
//@extract key::QNameSerializer::serialize_unit | src/se/key.rs :: impl<W: Write> Serializer for QNameSerializer<W> :: fn serialize_unit | serves=C13 features=serialize n15=1
    /// Because unit type can be represented only by empty string which is not
    /// a valid XML name, serialization of unit returns `Err(Unsupported)`
    fn serialize_unit(self) -> (r: Result<Self::Ok, Self::Error>)
            ensures // the empty string is not a name: refused
            r is Err,
        {
        Err(SeError::Unsupported(
            errmsg_(),
        ))
    }
//@end
//@extract key::QNameSerializer::serialize_unit_struct | src/se/key.rs :: impl<W: Write> Serializer for QNameSerializer<W> :: fn serialize_unit_struct | serves=C13 features=serialize n15=1
    /// Because unit struct can be represented only by empty string which is not
    /// a valid XML name, serialization of unit struct returns `Err(Unsupported)`
    fn serialize_unit_struct(self, name: &'static str) -> (r: Result<Self::Ok, Self::Error>)
            ensures r is Err,
        {
        Err(SeError::Unsupported(
            errmsg_(),
        ))
    }
//@end
//@extract key::QNameSerializer::serialize_seq | src/se/key.rs :: impl<W: Write> Serializer for QNameSerializer<W> :: fn serialize_seq | serves=C13 features=serialize n15=1
    fn serialize_seq(self, _len: Option<usize>) -> (r: Result<Self::SerializeSeq, Self::Error>)
            ensures r is Err,
        {
        Err(SeError::Unsupported(
            errmsg_(),
        ))
    }
//@end
}
//@extract text::TextSerializer | src/se/text.rs :: struct TextSerializer | serves=C13 features=serialize
 pub struct TextSerializer<W: Write>(pub SimpleTypeSerializer<W>);
//@end
/// the serializer of a `$text` field: a wrapper around SimpleTypeSerializer (verified, like it, at W := &mut W0). C13: what it
/// writes for a string is what the wrapped serializer writes -- the string escaped for its position
impl<'w, W: Write> Serializer for TextSerializer<&'w mut W> {
    type Ok = &'w mut W;
    type Error = SeError;
    type SerializeSeq = SimpleSeq<&'w mut W>;
    type SerializeStruct = ();
    type SerializeMap = ();
    open spec fn ok(&self) -> bool { true }
//@extract text::TextSerializer::serialize_str | src/se/text.rs :: impl<W: Write> Serializer for TextSerializer<W> :: invoke write_primitive :: fn serialize_str | serves=C13 features=serialize
        fn serialize_str(self, value: &str) -> (r: Result<Self::Ok, Self::Error>)
            // C13: the text of a `$text` field is written ONLY through the escaping table of its position
            ensures r matches Ok(w) ==> (*w).out() == (*old(self.0.writer)).out() + spec_escape(value.spec_bytes(), p_list(self.0.target, self.0.level))
                && *final(w) == *final(self.0.writer),
        {
            self.0.serialize_str(value)
        }
//@end
//@extract text::TextSerializer::serialize_bool | src/se/text.rs :: impl<W: Write> Serializer for TextSerializer<W> :: invoke write_primitive :: fn serialize_bool | serves=C13 features=serialize
        fn serialize_bool(self, value: bool) -> (r: Result<Self::Ok, Self::Error>)
            ensures r matches Ok(w) ==> (*w).out() == (*old(self.0.writer)).out() + bool_text(value) && *final(w) == *final(self.0.writer),
        {
            self.0.serialize_bool(value)
        }
//@end
//@extract text::TextSerializer::serialize_i8 | src/se/text.rs :: impl<W: Write> Serializer for TextSerializer<W> :: invoke write_primitive :: fn serialize_i8 | serves=C13 features=serialize
        fn serialize_i8(self, value: i8) -> (r: Result<Self::Ok, Self::Error>)
            ensures r matches Ok(w) ==> (*w).out() == (*old(self.0.writer)).out() + disp(value) && *final(w) == *final(self.0.writer),
        {
            self.0.serialize_i8(value)
        }
//@end
//@extract text::TextSerializer::serialize_i16 | src/se/text.rs :: impl<W: Write> Serializer for TextSerializer<W> :: invoke write_primitive :: fn serialize_i16 | serves=C13 features=serialize
        fn serialize_i16(self, value: i16) -> (r: Result<Self::Ok, Self::Error>)
            ensures r matches Ok(w) ==> (*w).out() == (*old(self.0.writer)).out() + disp(value) && *final(w) == *final(self.0.writer),
        {
            self.0.serialize_i16(value)
        }
//@end
//@extract text::TextSerializer::serialize_i32 | src/se/text.rs :: impl<W: Write> Serializer for TextSerializer<W> :: invoke write_primitive :: fn serialize_i32 | serves=C13 features=serialize
        fn serialize_i32(self, value: i32) -> (r: Result<Self::Ok, Self::Error>)
            ensures r matches Ok(w) ==> (*w).out() == (*old(self.0.writer)).out() + disp(value) && *final(w) == *final(self.0.writer),
        {
            self.0.serialize_i32(value)
        }
//@end
//@extract text::TextSerializer::serialize_i64 | src/se/text.rs :: impl<W: Write> Serializer for TextSerializer<W> :: invoke write_primitive :: fn serialize_i64 | serves=C13 features=serialize
        fn serialize_i64(self, value: i64) -> (r: Result<Self::Ok, Self::Error>)
            ensures r matches Ok(w) ==> (*w).out() == (*old(self.0.writer)).out() + disp(value) && *final(w) == *final(self.0.writer),
        {
            self.0.serialize_i64(value)
        }
//@end
//@extract text::TextSerializer::serialize_i128 | src/se/text.rs :: impl<W: Write> Serializer for TextSerializer<W> :: invoke serde_if_integer128 :: invoke write_primitive :: fn serialize_i128 | serves=C13 features=serialize
        fn serialize_i128(self, value: i128) -> (r: Result<Self::Ok, Self::Error>)
            ensures r matches Ok(w) ==> (*w).out() == (*old(self.0.writer)).out() + disp(value) && *final(w) == *final(self.0.writer),
        {
            self.0.serialize_i128(value)
        }
//@end
//@extract text::TextSerializer::serialize_u8 | src/se/text.rs :: impl<W: Write> Serializer for TextSerializer<W> :: invoke write_primitive :: fn serialize_u8 | serves=C13 features=serialize
        fn serialize_u8(self, value: u8) -> (r: Result<Self::Ok, Self::Error>)
            ensures r matches Ok(w) ==> (*w).out() == (*old(self.0.writer)).out() + disp(value) && *final(w) == *final(self.0.writer),
        {
            self.0.serialize_u8(value)
        }
//@end
//@extract text::TextSerializer::serialize_u16 | src/se/text.rs :: impl<W: Write> Serializer for TextSerializer<W> :: invoke write_primitive :: fn serialize_u16 | serves=C13 features=serialize
        fn serialize_u16(self, value: u16) -> (r: Result<Self::Ok, Self::Error>)
            ensures r matches Ok(w) ==> (*w).out() == (*old(self.0.writer)).out() + disp(value) && *final(w) == *final(self.0.writer),
        {
            self.0.serialize_u16(value)
        }
//@end
//@extract text::TextSerializer::serialize_u32 | src/se/text.rs :: impl<W: Write> Serializer for TextSerializer<W> :: invoke write_primitive :: fn serialize_u32 | serves=C13 features=serialize
        fn serialize_u32(self, value: u32) -> (r: Result<Self::Ok, Self::Error>)
            ensures r matches Ok(w) ==> (*w).out() == (*old(self.0.writer)).out() + disp(value) && *final(w) == *final(self.0.writer),
        {
            self.0.serialize_u32(value)
        }
//@end
//@extract text::TextSerializer::serialize_u64 | src/se/text.rs :: impl<W: Write> Serializer for TextSerializer<W> :: invoke write_primitive :: fn serialize_u64 | serves=C13 features=serialize
        fn serialize_u64(self, value: u64) -> (r: Result<Self::Ok, Self::Error>)
            ensures r matches Ok(w) ==> (*w).out() == (*old(self.0.writer)).out() + disp(value) && *final(w) == *final(self.0.writer),
        {
            self.0.serialize_u64(value)
        }
//@end
//@extract text::TextSerializer::serialize_u128 | src/se/text.rs :: impl<W: Write> Serializer for TextSerializer<W> :: invoke serde_if_integer128 :: invoke write_primitive :: fn serialize_u128 | serves=C13 features=serialize
        fn serialize_u128(self, value: u128) -> (r: Result<Self::Ok, Self::Error>)
            ensures r matches Ok(w) ==> (*w).out() == (*old(self.0.writer)).out() + disp(value) && *final(w) == *final(self.0.writer),
        {
            self.0.serialize_u128(value)
        }
//@end
//@extract text::TextSerializer::serialize_f32 | src/se/text.rs :: impl<W: Write> Serializer for TextSerializer<W> :: invoke write_primitive :: fn serialize_f32 | serves=C13 features=serialize
        fn serialize_f32(self, value: f32) -> (r: Result<Self::Ok, Self::Error>)
            ensures r matches Ok(w) ==> (*w).out() == (*old(self.0.writer)).out() + disp(value) && *final(w) == *final(self.0.writer),
        {
            self.0.serialize_f32(value)
        }
//@end
//@extract text::TextSerializer::serialize_f64 | src/se/text.rs :: impl<W: Write> Serializer for TextSerializer<W> :: invoke write_primitive :: fn serialize_f64 | serves=C13 features=serialize
        fn serialize_f64(self, value: f64) -> (r: Result<Self::Ok, Self::Error>)
            ensures r matches Ok(w) ==> (*w).out() == (*old(self.0.writer)).out() + disp(value) && *final(w) == *final(self.0.writer),
        {
            self.0.serialize_f64(value)
        }
//@end
//@extract text::TextSerializer::serialize_char | src/se/text.rs :: impl<W: Write> Serializer for TextSerializer<W> :: invoke write_primitive :: fn serialize_char | serves=C13 features=serialize
        fn serialize_char(self, value: char) -> (r: Result<Self::Ok, Self::Error>)
            ensures // C13: a character in a `$text` field is written ONLY through the escaping table of its position
                r matches Ok(w) ==> (*w).out() == (*old(self.0.writer)).out() + spec_escape(char_bytes(value), p_list(self.0.target, self.0.level)) && *final(w) == *final(self.0.writer),
        {
            self.0.serialize_char(value)
        }
//@end
//@extract text::TextSerializer::serialize_bytes | src/se/text.rs :: impl<W: Write> Serializer for TextSerializer<W> :: invoke write_primitive :: fn serialize_bytes | serves=C13 features=serialize
        fn serialize_bytes(self, value: &[u8]) -> (r: Result<Self::Ok, Self::Error>)
            ensures r is Err, *final(self.0.writer) == *old(self.0.writer),
        {
            self.0.serialize_bytes(value)
        }
//@end
//@extract text::TextSerializer::serialize_none | src/se/text.rs :: impl<W: Write> Serializer for TextSerializer<W> :: fn serialize_none | serves=C13 features=serialize
    fn serialize_none(self) -> Result<Self::Ok, Self::Error> {
        self.0.serialize_none()
    }
//@end
//@extract text::TextSerializer::serialize_unit | src/se/text.rs :: impl<W: Write> Serializer for TextSerializer<W> :: fn serialize_unit | serves=C13 features=serialize
    fn serialize_unit(self) -> (r: Result<Self::Ok, Self::Error>)
        ensures r matches Ok(w) && (*w).out() == (*old(self.0.writer)).out() && *final(w) == *final(self.0.writer)
    {
        self.0.serialize_unit()
    }
//@end
//@extract text::TextSerializer::serialize_unit_struct | src/se/text.rs :: impl<W: Write> Serializer for TextSerializer<W> :: fn serialize_unit_struct | serves=C13 features=serialize
    fn serialize_unit_struct(self, name: &'static str) -> (r: Result<Self::Ok, Self::Error>)
        ensures r matches Ok(w) && (*w).out() == (*old(self.0.writer)).out() && *final(w) == *final(self.0.writer)
    {
        self.0.serialize_unit_struct(name)
    }
//@end
//@extract text::TextSerializer::serialize_unit_variant | src/se/text.rs :: impl<W: Write> Serializer for TextSerializer<W> :: fn serialize_unit_variant | serves=C13 features=serialize
    fn serialize_unit_variant(
        self,
        name: &'static str,
        variant_index: u32,
        variant: &'static str,
    ) -> (r: Result<Self::Ok, Self::Error>)
        // the `$text` variant of an enum writes nothing
        ensures variant@ == "$text"@ ==> (r matches Ok(w) && (*w).out() == (*old(self.0.writer)).out() && *final(w) == *final(self.0.writer))
    {
        if variant == TEXT_KEY {
            Ok(self.0.writer)
        } else {
            self.0.serialize_unit_variant(name, variant_index, variant)
        }
    }
//@end
//@extract text::TextSerializer::serialize_seq | src/se/text.rs :: impl<W: Write> Serializer for TextSerializer<W> :: fn serialize_seq | serves=C13 features=serialize
    fn serialize_seq(self, len: Option<usize>) -> (r: Result<Self::SerializeSeq, Self::Error>)
        // C13: the items of a list in a `$text` field are escaped for the SAME position and level
        ensures r matches Ok(q) && q.target == self.0.target && q.level == self.0.level && q.is_empty
            && (*q.writer).out() == (*old(self.0.writer)).out() && *final(q.writer) == *final(self.0.writer),
    {
        self.0.serialize_seq(len)
    }
//@end
}
//@extract element::Tuple | src/se/element.rs :: enum Tuple | serves=C19 features=serialize
 pub enum Tuple<'w, 'k, W: Write> {
    /// Serialize each tuple field as an element
    Element(ElementSerializer<'w, 'k, W>),
    /// Serialize tuple as an `xs:list`: space-delimited content of fields
    Text(SimpleSeq<&'w mut W>),
}
//@end

//@extract content::Seq | src/se/content.rs :: struct Seq | serves=C19 features=serialize
 pub struct Seq<'w, 'k, W: Write> {
    pub ser: ContentSerializer<'w, 'k, W>,
    /// Classification of the result of the last serialized element.
    pub last: WriteResult,
}
//@end

// SimpleTypeSerializer<W> is verified at W := &mut W0 -- what ContentSerializer hands it (and, W0 being any writer, also the
// `&mut &mut W0` of attribute values): only there can "the SAME writer comes back" be stated (declared monomorphisation).
impl<'w, W: Write> SimpleTypeSerializer<&'w mut W> {
//@extract simple_type::SimpleTypeSerializer::write_str | src/se/simple_type.rs :: impl<W: Write> SimpleTypeSerializer<W> :: fn write_str | serves=C13 features=serialize
    fn write_str(&mut self, value: &str) -> (r: Result<(), SeError>)
        ensures final(self).target == old(self).target, final(self).level == old(self).level,
            *final(final(self).writer) == *final(old(self).writer),
            r is Ok ==> (*final(self).writer).out() == (*old(self).writer).out() + value.spec_bytes(),
    {
        Ok(self.writer.write_str(value)?)
    }
//@end
}
impl<'w, W: Write> Serializer for SimpleTypeSerializer<&'w mut W> {
    type Ok = &'w mut W;
    type Error = SeError;
    type SerializeSeq = SimpleSeq<&'w mut W>;
    type SerializeStruct = ();
    type SerializeMap = ();
    open spec fn ok(&self) -> bool { true }
//@extract simple_type::SimpleTypeSerializer::serialize_str | src/se/simple_type.rs :: impl<W: Write> Serializer for SimpleTypeSerializer<W> :: fn serialize_str | serves=C13 features=serialize
    fn serialize_str(self, value: &str) -> (r: Result<Self::Ok, Self::Error>)
        // C13: a string is written ONLY through the escaping table of its position (escape_list, unit xmlname)
        ensures r matches Ok(w) ==> (*w).out() == (*old(self.writer)).out() + spec_escape(value.spec_bytes(), p_list(self.target, self.level))
            && *final(w) == *final(self.writer),
    { let mut self__ = self;
        proof {
            axiom_cow_str_all();
            if value.spec_bytes().len() == 0 { assert(spec_escape(value.spec_bytes(), p_list(self.target, self.level)) =~= BSeq::empty()); assert((*old(self.writer)).out() + BSeq::empty() =~= (*old(self.writer)).out()); }
        }
        if !value.is_empty() {
            self__.write_str(&escape_list(value, self__.target, self__.level))?;
        }
        Ok(self__.writer)
    }
//@end
//@extract simple_type::SimpleTypeSerializer::serialize_unit | src/se/simple_type.rs :: impl<W: Write> Serializer for SimpleTypeSerializer<W> :: fn serialize_unit | serves=C13 features=serialize
    /// Does not write anything
    fn serialize_unit(self) -> (r: Result<Self::Ok, Self::Error>)
        ensures r matches Ok(w) && (*w).out() == (*old(self.writer)).out() && *final(w) == *final(self.writer)
    {
        Ok(self.writer)
    }
//@end
//@extract simple_type::SimpleTypeSerializer::serialize_seq | src/se/simple_type.rs :: impl<W: Write> Serializer for SimpleTypeSerializer<W> :: fn serialize_seq | serves=C13 features=serialize
    fn serialize_seq(self, _len: Option<usize>) -> (r: Result<Self::SerializeSeq, Self::Error>)
        // C13: the items of an xs:list are escaped for the SAME position (attribute value or text) and level
        ensures r matches Ok(q) && q.target == self.target && q.level == self.level && q.is_empty
            && (*q.writer).out() == (*old(self.writer)).out() && *final(q.writer) == *final(self.writer),
    {
        Ok(SimpleSeq {
            writer: self.writer,
            target: self.target,
            level: self.level,
            is_empty: true,
        })
    }
//@end
//@extract simple_type::SimpleTypeSerializer::serialize_unit_struct | src/se/simple_type.rs :: impl<W: Write> Serializer for SimpleTypeSerializer<W> :: fn serialize_unit_struct | serves=C13 features=serialize
    /// Does not write anything
    fn serialize_unit_struct(self, _name: &'static str) -> (r: Result<Self::Ok, Self::Error>)
        ensures r matches Ok(w) && (*w).out() == (*old(self.writer)).out() && *final(w) == *final(self.writer)
    {
        Ok(self.writer)
    }
//@end
//@extract simple_type::SimpleTypeSerializer::serialize_bool | src/se/simple_type.rs :: impl<W: Write> Serializer for SimpleTypeSerializer<W> :: invoke write_primitive :: fn serialize_bool | serves=C13 features=serialize macro_files=src/se/mod.rs
        fn serialize_bool(self, value: bool) -> (r: Result<Self::Ok, Self::Error>)
            ensures r matches Ok(w) ==> (*w).out() == (*old(self.writer)).out() + bool_text(value) && *final(w) == *final(self.writer),
        { let mut self__ = self;
            self__.write_str(if value { "true" } else { "false" })?;
            Ok(self__.writer)
        }
//@end
//@extract simple_type::SimpleTypeSerializer::serialize_i8 | src/se/simple_type.rs :: impl<W: Write> Serializer for SimpleTypeSerializer<W> :: invoke write_primitive :: invoke write_primitive :: fn serialize_i8 | serves=C13 features=serialize macro_files=src/se/mod.rs
//@rewrite &value.to_string() ==> disp_(value)
        fn serialize_i8(self, value: i8) -> (r: Result<Self::Ok, Self::Error>)
            ensures // a number is its display text, which needs no escaping in any position (A-display)
                r matches Ok(w) ==> (*w).out() == (*old(self.writer)).out() + disp(value) && *final(w) == *final(self.writer),
        { let mut self__ = self;
            self__.write_str(disp_(value))?;
            Ok(self__.writer)
        }
//@end
//@extract simple_type::SimpleTypeSerializer::serialize_i16 | src/se/simple_type.rs :: impl<W: Write> Serializer for SimpleTypeSerializer<W> :: invoke write_primitive :: invoke write_primitive :: fn serialize_i16 | serves=C13 features=serialize macro_files=src/se/mod.rs
//@rewrite &value.to_string() ==> disp_(value)
        fn serialize_i16(self, value: i16) -> (r: Result<Self::Ok, Self::Error>)
            ensures // a number is its display text, which needs no escaping in any position (A-display)
                r matches Ok(w) ==> (*w).out() == (*old(self.writer)).out() + disp(value) && *final(w) == *final(self.writer),
        { let mut self__ = self;
            self__.write_str(disp_(value))?;
            Ok(self__.writer)
        }
//@end
//@extract simple_type::SimpleTypeSerializer::serialize_i32 | src/se/simple_type.rs :: impl<W: Write> Serializer for SimpleTypeSerializer<W> :: invoke write_primitive :: invoke write_primitive :: fn serialize_i32 | serves=C13 features=serialize macro_files=src/se/mod.rs
//@rewrite &value.to_string() ==> disp_(value)
        fn serialize_i32(self, value: i32) -> (r: Result<Self::Ok, Self::Error>)
            ensures // a number is its display text, which needs no escaping in any position (A-display)
                r matches Ok(w) ==> (*w).out() == (*old(self.writer)).out() + disp(value) && *final(w) == *final(self.writer),
        { let mut self__ = self;
            self__.write_str(disp_(value))?;
            Ok(self__.writer)
        }
//@end
//@extract simple_type::SimpleTypeSerializer::serialize_i64 | src/se/simple_type.rs :: impl<W: Write> Serializer for SimpleTypeSerializer<W> :: invoke write_primitive :: invoke write_primitive :: fn serialize_i64 | serves=C13 features=serialize macro_files=src/se/mod.rs
//@rewrite &value.to_string() ==> disp_(value)
        fn serialize_i64(self, value: i64) -> (r: Result<Self::Ok, Self::Error>)
            ensures // a number is its display text, which needs no escaping in any position (A-display)
                r matches Ok(w) ==> (*w).out() == (*old(self.writer)).out() + disp(value) && *final(w) == *final(self.writer),
        { let mut self__ = self;
            self__.write_str(disp_(value))?;
            Ok(self__.writer)
        }
//@end
//@extract simple_type::SimpleTypeSerializer::serialize_i128 | src/se/simple_type.rs :: impl<W: Write> Serializer for SimpleTypeSerializer<W> :: invoke write_primitive :: invoke serde_if_integer128 :: invoke write_primitive :: fn serialize_i128 | serves=C13 features=serialize macro_files=src/se/mod.rs
//@rewrite &value.to_string() ==> disp_(value)
        fn serialize_i128(self, value: i128) -> (r: Result<Self::Ok, Self::Error>)
            ensures // a number is its display text, which needs no escaping in any position (A-display)
                r matches Ok(w) ==> (*w).out() == (*old(self.writer)).out() + disp(value) && *final(w) == *final(self.writer),
        { let mut self__ = self;
            self__.write_str(disp_(value))?;
            Ok(self__.writer)
        }
//@end
//@extract simple_type::SimpleTypeSerializer::serialize_u8 | src/se/simple_type.rs :: impl<W: Write> Serializer for SimpleTypeSerializer<W> :: invoke write_primitive :: invoke write_primitive :: fn serialize_u8 | serves=C13 features=serialize macro_files=src/se/mod.rs
//@rewrite &value.to_string() ==> disp_(value)
        fn serialize_u8(self, value: u8) -> (r: Result<Self::Ok, Self::Error>)
            ensures // a number is its display text, which needs no escaping in any position (A-display)
                r matches Ok(w) ==> (*w).out() == (*old(self.writer)).out() + disp(value) && *final(w) == *final(self.writer),
        { let mut self__ = self;
            self__.write_str(disp_(value))?;
            Ok(self__.writer)
        }
//@end
//@extract simple_type::SimpleTypeSerializer::serialize_u16 | src/se/simple_type.rs :: impl<W: Write> Serializer for SimpleTypeSerializer<W> :: invoke write_primitive :: invoke write_primitive :: fn serialize_u16 | serves=C13 features=serialize macro_files=src/se/mod.rs
//@rewrite &value.to_string() ==> disp_(value)
        fn serialize_u16(self, value: u16) -> (r: Result<Self::Ok, Self::Error>)
            ensures // a number is its display text, which needs no escaping in any position (A-display)
                r matches Ok(w) ==> (*w).out() == (*old(self.writer)).out() + disp(value) && *final(w) == *final(self.writer),
        { let mut self__ = self;
            self__.write_str(disp_(value))?;
            Ok(self__.writer)
        }
//@end
//@extract simple_type::SimpleTypeSerializer::serialize_u32 | src/se/simple_type.rs :: impl<W: Write> Serializer for SimpleTypeSerializer<W> :: invoke write_primitive :: invoke write_primitive :: fn serialize_u32 | serves=C13 features=serialize macro_files=src/se/mod.rs
//@rewrite &value.to_string() ==> disp_(value)
        fn serialize_u32(self, value: u32) -> (r: Result<Self::Ok, Self::Error>)
            ensures // a number is its display text, which needs no escaping in any position (A-display)
                r matches Ok(w) ==> (*w).out() == (*old(self.writer)).out() + disp(value) && *final(w) == *final(self.writer),
        { let mut self__ = self;
            self__.write_str(disp_(value))?;
            Ok(self__.writer)
        }
//@end
//@extract simple_type::SimpleTypeSerializer::serialize_u64 | src/se/simple_type.rs :: impl<W: Write> Serializer for SimpleTypeSerializer<W> :: invoke write_primitive :: invoke write_primitive :: fn serialize_u64 | serves=C13 features=serialize macro_files=src/se/mod.rs
//@rewrite &value.to_string() ==> disp_(value)
        fn serialize_u64(self, value: u64) -> (r: Result<Self::Ok, Self::Error>)
            ensures // a number is its display text, which needs no escaping in any position (A-display)
                r matches Ok(w) ==> (*w).out() == (*old(self.writer)).out() + disp(value) && *final(w) == *final(self.writer),
        { let mut self__ = self;
            self__.write_str(disp_(value))?;
            Ok(self__.writer)
        }
//@end
//@extract simple_type::SimpleTypeSerializer::serialize_u128 | src/se/simple_type.rs :: impl<W: Write> Serializer for SimpleTypeSerializer<W> :: invoke write_primitive :: invoke serde_if_integer128 :: invoke write_primitive :: fn serialize_u128 | serves=C13 features=serialize macro_files=src/se/mod.rs
//@rewrite &value.to_string() ==> disp_(value)
        fn serialize_u128(self, value: u128) -> (r: Result<Self::Ok, Self::Error>)
            ensures // a number is its display text, which needs no escaping in any position (A-display)
                r matches Ok(w) ==> (*w).out() == (*old(self.writer)).out() + disp(value) && *final(w) == *final(self.writer),
        { let mut self__ = self;
            self__.write_str(disp_(value))?;
            Ok(self__.writer)
        }
//@end
//@extract simple_type::SimpleTypeSerializer::serialize_f32 | src/se/simple_type.rs :: impl<W: Write> Serializer for SimpleTypeSerializer<W> :: invoke write_primitive :: invoke write_primitive :: fn serialize_f32 | serves=C13 features=serialize macro_files=src/se/mod.rs
//@rewrite &value.to_string() ==> disp_(value)
        fn serialize_f32(self, value: f32) -> (r: Result<Self::Ok, Self::Error>)
            ensures // a number is its display text, which needs no escaping in any position (A-display)
                r matches Ok(w) ==> (*w).out() == (*old(self.writer)).out() + disp(value) && *final(w) == *final(self.writer),
        { let mut self__ = self;
            self__.write_str(disp_(value))?;
            Ok(self__.writer)
        }
//@end
//@extract simple_type::SimpleTypeSerializer::serialize_f64 | src/se/simple_type.rs :: impl<W: Write> Serializer for SimpleTypeSerializer<W> :: invoke write_primitive :: invoke write_primitive :: fn serialize_f64 | serves=C13 features=serialize macro_files=src/se/mod.rs
//@rewrite &value.to_string() ==> disp_(value)
        fn serialize_f64(self, value: f64) -> (r: Result<Self::Ok, Self::Error>)
            ensures // a number is its display text, which needs no escaping in any position (A-display)
                r matches Ok(w) ==> (*w).out() == (*old(self.writer)).out() + disp(value) && *final(w) == *final(self.writer),
        { let mut self__ = self;
            self__.write_str(disp_(value))?;
            Ok(self__.writer)
        }
//@end
//@extract simple_type::SimpleTypeSerializer::serialize_char | src/se/simple_type.rs :: impl<W: Write> Serializer for SimpleTypeSerializer<W> :: invoke write_primitive :: fn serialize_char | serves=C13 features=serialize macro_files=src/se/mod.rs
//@rewrite &value.to_string() ==> disp_char_(value)
        fn serialize_char(self, value: char) -> (r: Result<Self::Ok, Self::Error>)
            ensures // C13: a character is the one-character string: written ONLY through the escaping table of its position
                r matches Ok(w) ==> (*w).out() == (*old(self.writer)).out() + spec_escape(char_bytes(value), p_list(self.target, self.level)) && *final(w) == *final(self.writer),
        {
            self.serialize_str(disp_char_(value))
        }
//@end
//@extract simple_type::SimpleTypeSerializer::serialize_bytes | src/se/simple_type.rs :: impl<W: Write> Serializer for SimpleTypeSerializer<W> :: invoke write_primitive :: fn serialize_bytes | serves=C13 features=serialize macro_files=src/se/mod.rs n15=1
        fn serialize_bytes(self, _value: &[u8]) -> (r: Result<Self::Ok, Self::Error>)
            ensures r is Err, *final(self.writer) == *old(self.writer),
        {
            //TODO: customization point - allow user to decide how to encode bytes
            Err(Self::Error::Unsupported(
                errmsg_(),
            ))
        }
//@end
//@extract simple_type::SimpleTypeSerializer::serialize_none | src/se/simple_type.rs :: impl<W: Write> Serializer for SimpleTypeSerializer<W> :: invoke write_primitive :: fn serialize_none | serves=C13 features=serialize macro_files=src/se/mod.rs
        fn serialize_none(self) -> (r: Result<Self::Ok, Self::Error>)
            ensures r matches Ok(w) && (*w).out() == (*old(self.writer)).out() && *final(w) == *final(self.writer),
        {
            Ok(self.writer)
        }
//@end
//@extract simple_type::SimpleTypeSerializer::serialize_unit_variant | src/se/simple_type.rs :: impl<W: Write> Serializer for SimpleTypeSerializer<W> :: invoke write_primitive :: fn serialize_unit_variant | serves=C13 features=serialize macro_files=src/se/mod.rs
        fn serialize_unit_variant(
            self,
            _name: &'static str,
            _variant_index: u32,
            variant: &'static str,
        ) -> (r: Result<Self::Ok, Self::Error>)
            ensures // a unit variant is its name, escaped like any other string
                r matches Ok(w) ==> (*w).out() == (*old(self.writer)).out() + spec_escape(variant.spec_bytes(), p_list(self.target, self.level)) && *final(w) == *final(self.writer),
        {
            self.serialize_str(variant)
        }
//@end
}

impl<'w, 'i, W: Write> Serializer for ContentSerializer<'w, 'i, W> {
    type Ok = WriteResult;
    type Error = SeError;
    type SerializeSeq = Seq<'w, 'i, W>;
    type SerializeStruct = ();
    type SerializeMap = ();
    open spec fn ok(&self) -> bool { ind_ok(self.indent) }
//@extract content::ContentSerializer::serialize_str | src/se/content.rs :: impl<'w, 'i, W: Write> Serializer for ContentSerializer<'w, 'i, W> :: fn serialize_str | serves=C13,C19 features=serialize
    fn serialize_str(self, value: &str) -> (r: Result<Self::Ok, Self::Error>)
        ensures
            // C19: a string is text in which whitespace counts -- no indent before it (the flag is not even looked at),
            // none after it; C13: escaped by the Text table of the level in force
            r matches Ok(x) ==> x is SensitiveText
                && (*final(self.writer)).out() == (*old(self.writer)).out() + spec_escape(value.spec_bytes(), p_list(QuoteTarget::Text, self.level)),
    {
        proof { if value.spec_bytes().len() == 0 { assert(spec_escape(value.spec_bytes(), p_list(QuoteTarget::Text, self.level)) =~= BSeq::empty()); assert((*old(self.writer)).out() + BSeq::empty() =~= (*old(self.writer)).out()); } }
        if !value.is_empty() {
            self.into_simple_type_serializer()?.serialize_str(value)?;
        }
        Ok(WriteResult::SensitiveText)
    }
//@end
//@extract content::ContentSerializer::serialize_bool | src/se/content.rs :: impl<'w, 'i, W: Write> Serializer for ContentSerializer<'w, 'i, W> :: invoke write_primitive :: fn serialize_bool | serves=C13,C19 features=serialize
        fn serialize_bool(self, value: bool) -> (r: Result<Self::Ok, Self::Error>)
            ensures // C19: a number / boolean is classified as text (the code says Text -- surrounding whitespace does not count, an indent may
                // follow; SensitiveText would obey C19 as well, so both are admitted: never as markup or as nothing);
                // C13: only its display text reaches the output; refused where primitives are not allowed
                r is Ok ==> self.allow_primitive,
                r matches Ok(x) ==> (x is Text || x is SensitiveText) && (*final(self.writer)).out() == (*old(self.writer)).out() + bool_text(value),
        {
            self.into_simple_type_serializer()?.serialize_bool(value)?;
            Ok(WriteResult::Text)
        }
//@end
//@extract content::ContentSerializer::serialize_i8 | src/se/content.rs :: impl<'w, 'i, W: Write> Serializer for ContentSerializer<'w, 'i, W> :: invoke write_primitive :: fn serialize_i8 | serves=C13,C19 features=serialize
        fn serialize_i8(self, value: i8) -> (r: Result<Self::Ok, Self::Error>)
            ensures // C19: a number / boolean is classified as text (the code says Text -- surrounding whitespace does not count, an indent may
                // follow; SensitiveText would obey C19 as well, so both are admitted: never as markup or as nothing);
                // C13: only its display text reaches the output; refused where primitives are not allowed
                r is Ok ==> self.allow_primitive,
                r matches Ok(x) ==> (x is Text || x is SensitiveText) && (*final(self.writer)).out() == (*old(self.writer)).out() + disp(value),
        {
            self.into_simple_type_serializer()?.serialize_i8(value)?;
            Ok(WriteResult::Text)
        }
//@end
//@extract content::ContentSerializer::serialize_i16 | src/se/content.rs :: impl<'w, 'i, W: Write> Serializer for ContentSerializer<'w, 'i, W> :: invoke write_primitive :: fn serialize_i16 | serves=C13,C19 features=serialize
        fn serialize_i16(self, value: i16) -> (r: Result<Self::Ok, Self::Error>)
            ensures // C19: a number / boolean is classified as text (the code says Text -- surrounding whitespace does not count, an indent may
                // follow; SensitiveText would obey C19 as well, so both are admitted: never as markup or as nothing);
                // C13: only its display text reaches the output; refused where primitives are not allowed
                r is Ok ==> self.allow_primitive,
                r matches Ok(x) ==> (x is Text || x is SensitiveText) && (*final(self.writer)).out() == (*old(self.writer)).out() + disp(value),
        {
            self.into_simple_type_serializer()?.serialize_i16(value)?;
            Ok(WriteResult::Text)
        }
//@end
//@extract content::ContentSerializer::serialize_i32 | src/se/content.rs :: impl<'w, 'i, W: Write> Serializer for ContentSerializer<'w, 'i, W> :: invoke write_primitive :: fn serialize_i32 | serves=C13,C19 features=serialize
        fn serialize_i32(self, value: i32) -> (r: Result<Self::Ok, Self::Error>)
            ensures // C19: a number / boolean is classified as text (the code says Text -- surrounding whitespace does not count, an indent may
                // follow; SensitiveText would obey C19 as well, so both are admitted: never as markup or as nothing);
                // C13: only its display text reaches the output; refused where primitives are not allowed
                r is Ok ==> self.allow_primitive,
                r matches Ok(x) ==> (x is Text || x is SensitiveText) && (*final(self.writer)).out() == (*old(self.writer)).out() + disp(value),
        {
            self.into_simple_type_serializer()?.serialize_i32(value)?;
            Ok(WriteResult::Text)
        }
//@end
//@extract content::ContentSerializer::serialize_i64 | src/se/content.rs :: impl<'w, 'i, W: Write> Serializer for ContentSerializer<'w, 'i, W> :: invoke write_primitive :: fn serialize_i64 | serves=C13,C19 features=serialize
        fn serialize_i64(self, value: i64) -> (r: Result<Self::Ok, Self::Error>)
            ensures // C19: a number / boolean is classified as text (the code says Text -- surrounding whitespace does not count, an indent may
                // follow; SensitiveText would obey C19 as well, so both are admitted: never as markup or as nothing);
                // C13: only its display text reaches the output; refused where primitives are not allowed
                r is Ok ==> self.allow_primitive,
                r matches Ok(x) ==> (x is Text || x is SensitiveText) && (*final(self.writer)).out() == (*old(self.writer)).out() + disp(value),
        {
            self.into_simple_type_serializer()?.serialize_i64(value)?;
            Ok(WriteResult::Text)
        }
//@end
//@extract content::ContentSerializer::serialize_i128 | src/se/content.rs :: impl<'w, 'i, W: Write> Serializer for ContentSerializer<'w, 'i, W> :: invoke serde_if_integer128 :: invoke write_primitive :: fn serialize_i128 | serves=C13,C19 features=serialize
        fn serialize_i128(self, value: i128) -> (r: Result<Self::Ok, Self::Error>)
            ensures // C19: a number / boolean is classified as text (the code says Text -- surrounding whitespace does not count, an indent may
                // follow; SensitiveText would obey C19 as well, so both are admitted: never as markup or as nothing);
                // C13: only its display text reaches the output; refused where primitives are not allowed
                r is Ok ==> self.allow_primitive,
                r matches Ok(x) ==> (x is Text || x is SensitiveText) && (*final(self.writer)).out() == (*old(self.writer)).out() + disp(value),
        {
            self.into_simple_type_serializer()?.serialize_i128(value)?;
            Ok(WriteResult::Text)
        }
//@end
//@extract content::ContentSerializer::serialize_u8 | src/se/content.rs :: impl<'w, 'i, W: Write> Serializer for ContentSerializer<'w, 'i, W> :: invoke write_primitive :: fn serialize_u8 | serves=C13,C19 features=serialize
        fn serialize_u8(self, value: u8) -> (r: Result<Self::Ok, Self::Error>)
            ensures // C19: a number / boolean is classified as text (the code says Text -- surrounding whitespace does not count, an indent may
                // follow; SensitiveText would obey C19 as well, so both are admitted: never as markup or as nothing);
                // C13: only its display text reaches the output; refused where primitives are not allowed
                r is Ok ==> self.allow_primitive,
                r matches Ok(x) ==> (x is Text || x is SensitiveText) && (*final(self.writer)).out() == (*old(self.writer)).out() + disp(value),
        {
            self.into_simple_type_serializer()?.serialize_u8(value)?;
            Ok(WriteResult::Text)
        }
//@end
//@extract content::ContentSerializer::serialize_u16 | src/se/content.rs :: impl<'w, 'i, W: Write> Serializer for ContentSerializer<'w, 'i, W> :: invoke write_primitive :: fn serialize_u16 | serves=C13,C19 features=serialize
        fn serialize_u16(self, value: u16) -> (r: Result<Self::Ok, Self::Error>)
            ensures // C19: a number / boolean is classified as text (the code says Text -- surrounding whitespace does not count, an indent may
                // follow; SensitiveText would obey C19 as well, so both are admitted: never as markup or as nothing);
                // C13: only its display text reaches the output; refused where primitives are not allowed
                r is Ok ==> self.allow_primitive,
                r matches Ok(x) ==> (x is Text || x is SensitiveText) && (*final(self.writer)).out() == (*old(self.writer)).out() + disp(value),
        {
            self.into_simple_type_serializer()?.serialize_u16(value)?;
            Ok(WriteResult::Text)
        }
//@end
//@extract content::ContentSerializer::serialize_u32 | src/se/content.rs :: impl<'w, 'i, W: Write> Serializer for ContentSerializer<'w, 'i, W> :: invoke write_primitive :: fn serialize_u32 | serves=C13,C19 features=serialize
        fn serialize_u32(self, value: u32) -> (r: Result<Self::Ok, Self::Error>)
            ensures // C19: a number / boolean is classified as text (the code says Text -- surrounding whitespace does not count, an indent may
                // follow; SensitiveText would obey C19 as well, so both are admitted: never as markup or as nothing);
                // C13: only its display text reaches the output; refused where primitives are not allowed
                r is Ok ==> self.allow_primitive,
                r matches Ok(x) ==> (x is Text || x is SensitiveText) && (*final(self.writer)).out() == (*old(self.writer)).out() + disp(value),
        {
            self.into_simple_type_serializer()?.serialize_u32(value)?;
            Ok(WriteResult::Text)
        }
//@end
//@extract content::ContentSerializer::serialize_u64 | src/se/content.rs :: impl<'w, 'i, W: Write> Serializer for ContentSerializer<'w, 'i, W> :: invoke write_primitive :: fn serialize_u64 | serves=C13,C19 features=serialize
        fn serialize_u64(self, value: u64) -> (r: Result<Self::Ok, Self::Error>)
            ensures // C19: a number / boolean is classified as text (the code says Text -- surrounding whitespace does not count, an indent may
                // follow; SensitiveText would obey C19 as well, so both are admitted: never as markup or as nothing);
                // C13: only its display text reaches the output; refused where primitives are not allowed
                r is Ok ==> self.allow_primitive,
                r matches Ok(x) ==> (x is Text || x is SensitiveText) && (*final(self.writer)).out() == (*old(self.writer)).out() + disp(value),
        {
            self.into_simple_type_serializer()?.serialize_u64(value)?;
            Ok(WriteResult::Text)
        }
//@end
//@extract content::ContentSerializer::serialize_u128 | src/se/content.rs :: impl<'w, 'i, W: Write> Serializer for ContentSerializer<'w, 'i, W> :: invoke serde_if_integer128 :: invoke write_primitive :: fn serialize_u128 | serves=C13,C19 features=serialize
        fn serialize_u128(self, value: u128) -> (r: Result<Self::Ok, Self::Error>)
            ensures // C19: a number / boolean is classified as text (the code says Text -- surrounding whitespace does not count, an indent may
                // follow; SensitiveText would obey C19 as well, so both are admitted: never as markup or as nothing);
                // C13: only its display text reaches the output; refused where primitives are not allowed
                r is Ok ==> self.allow_primitive,
                r matches Ok(x) ==> (x is Text || x is SensitiveText) && (*final(self.writer)).out() == (*old(self.writer)).out() + disp(value),
        {
            self.into_simple_type_serializer()?.serialize_u128(value)?;
            Ok(WriteResult::Text)
        }
//@end
//@extract content::ContentSerializer::serialize_f32 | src/se/content.rs :: impl<'w, 'i, W: Write> Serializer for ContentSerializer<'w, 'i, W> :: invoke write_primitive :: fn serialize_f32 | serves=C13,C19 features=serialize
        fn serialize_f32(self, value: f32) -> (r: Result<Self::Ok, Self::Error>)
            ensures // C19: a number / boolean is classified as text (the code says Text -- surrounding whitespace does not count, an indent may
                // follow; SensitiveText would obey C19 as well, so both are admitted: never as markup or as nothing);
                // C13: only its display text reaches the output; refused where primitives are not allowed
                r is Ok ==> self.allow_primitive,
                r matches Ok(x) ==> (x is Text || x is SensitiveText) && (*final(self.writer)).out() == (*old(self.writer)).out() + disp(value),
        {
            self.into_simple_type_serializer()?.serialize_f32(value)?;
            Ok(WriteResult::Text)
        }
//@end
//@extract content::ContentSerializer::serialize_f64 | src/se/content.rs :: impl<'w, 'i, W: Write> Serializer for ContentSerializer<'w, 'i, W> :: invoke write_primitive :: fn serialize_f64 | serves=C13,C19 features=serialize
        fn serialize_f64(self, value: f64) -> (r: Result<Self::Ok, Self::Error>)
            ensures // C19: a number / boolean is classified as text (the code says Text -- surrounding whitespace does not count, an indent may
                // follow; SensitiveText would obey C19 as well, so both are admitted: never as markup or as nothing);
                // C13: only its display text reaches the output; refused where primitives are not allowed
                r is Ok ==> self.allow_primitive,
                r matches Ok(x) ==> (x is Text || x is SensitiveText) && (*final(self.writer)).out() == (*old(self.writer)).out() + disp(value),
        {
            self.into_simple_type_serializer()?.serialize_f64(value)?;
            Ok(WriteResult::Text)
        }
//@end
//@extract content::ContentSerializer::serialize_bytes | src/se/content.rs :: impl<'w, 'i, W: Write> Serializer for ContentSerializer<'w, 'i, W> :: invoke write_primitive :: fn serialize_bytes | serves=C13,C19 features=serialize
        fn serialize_bytes(self, value: &[u8]) -> (r: Result<Self::Ok, Self::Error>)
            // bytes are not supported: an error, never an invented encoding
            ensures r is Err,
        {
            self.into_simple_type_serializer()?.serialize_bytes(value)?;
            Ok(WriteResult::Text)
        }
//@end
//@extract content::ContentSerializer::serialize_char | src/se/content.rs :: impl<'w, 'i, W: Write> Serializer for ContentSerializer<'w, 'i, W> :: fn serialize_char | serves=C13,C19 features=serialize
    fn serialize_char(self, value: char) -> (r: Result<Self::Ok, Self::Error>)
            ensures // C19: a character is text in which whitespace counts -- no indent after it; C13: escaped by the Text table of the level in force
                r is Ok ==> self.allow_primitive,
                r matches Ok(x) ==> x is SensitiveText
                    && (*final(self.writer)).out() == (*old(self.writer)).out() + spec_escape(char_bytes(value), p_list(QuoteTarget::Text, self.level)),
        {
        self.into_simple_type_serializer()?.serialize_char(value)?;
        Ok(WriteResult::SensitiveText)
    }
//@end
//@extract content::ContentSerializer::serialize_none | src/se/content.rs :: impl<'w, 'i, W: Write> Serializer for ContentSerializer<'w, 'i, W> :: fn serialize_none | serves=C19 features=serialize
    fn serialize_none(self) -> (r: Result<Self::Ok, Self::Error>)
        // C19: nothing is written, and no indent may follow (this may be an absent string)
        ensures r matches Ok(x) && x is SensitiveNothing && *final(self.writer) == *old(self.writer)
    {
        // Classify `None` as sensitive to whitespaces, because this can be `Option<String>`.
        // Unfortunately, we do not known what the type the option contains, so have no chance
        // to adapt our behavior to it. The safe variant is assume sensitiviness
        Ok(WriteResult::SensitiveNothing)
    }
//@end
//@extract content::ContentSerializer::serialize_unit | src/se/content.rs :: impl<'w, 'i, W: Write> Serializer for ContentSerializer<'w, 'i, W> :: fn serialize_unit | serves=C19 features=serialize
    fn serialize_unit(self) -> (r: Result<Self::Ok, Self::Error>)
        ensures r matches Ok(x) && (x is Nothing || x is SensitiveNothing) && *final(self.writer) == *old(self.writer)
    {
        Ok(WriteResult::Nothing)
    }
//@end
//@extract content::ContentSerializer::serialize_unit_struct | src/se/content.rs :: impl<'w, 'i, W: Write> Serializer for ContentSerializer<'w, 'i, W> :: fn serialize_unit_struct | serves=C19 features=serialize
    fn serialize_unit_struct(self, _name: &'static str) -> (r: Result<Self::Ok, Self::Error>)
        ensures r matches Ok(x) && (x is Nothing || x is SensitiveNothing) && *final(self.writer) == *old(self.writer)
    {
        Ok(WriteResult::Nothing)
    }
//@end
//@extract content::ContentSerializer::serialize_unit_variant | src/se/content.rs :: impl<'w, 'i, W: Write> Serializer for ContentSerializer<'w, 'i, W> :: fn serialize_unit_variant | serves=C13,C19 features=serialize
    /// If `variant` is a special `$text` variant, then do nothing, otherwise
    /// checks `variant` for XML name validity and writes `<variant/>`.
    fn serialize_unit_variant(
        self,
        _name: &'static str,
        _variant_index: u32,
        variant: &'static str,
    ) -> (r: Result<Self::Ok, Self::Error>)
        ensures
            // C13: the variant name becomes a tag only after validation; `$text` writes nothing
            r matches Ok(x) ==> if variant@ == "$text"@ { x is Nothing && *final(self.writer) == *old(self.writer) } else {
                is_xml_name(variant@) && x is Element
                && (*final(self.writer)).out() == (*old(self.writer)).out() + self.pre() + tag_empty(variant.spec_bytes(), self.expand_empty_elements) },
    {
        if variant == TEXT_KEY {
            Ok(WriteResult::Nothing)
        } else {
            let name = XmlName::try_from(variant)?;
            self.write_empty(name)
        }
    }
//@end
//@extract content::ContentSerializer::serialize_seq | src/se/content.rs :: impl<'w, 'i, W: Write> Serializer for ContentSerializer<'w, 'i, W> :: fn serialize_seq | serves=C19 features=serialize
    fn serialize_seq(self, _len: Option<usize>) -> (r: Result<Self::SerializeSeq, Self::Error>)
        // C19: an empty sequence writes nothing and allows no indent after it
        ensures r matches Ok(q) && q.last is SensitiveNothing && q.ser == self
    {
        Ok(Seq {
            ser: self,
            // If sequence if empty, nothing will be serialized. Because sequence can be of `Option`s
            // we need to assume that writing indent may change the data and do not write anything
            last: WriteResult::SensitiveNothing,
        })
    }
//@end
}
impl<'w, 'i, W: Write> ContentSerializer<'w, 'i, W> {
// AUDIT COPY (known finding, C19): a unit writes nothing, so an indent may follow it only if one could follow what was written
// before it; the code classifies it as `Nothing`, which ALLOWS the indent whatever came before (e.g. a `$text` field).
//@extract content::ContentSerializer::serialize_unit#audit | - | clone_of=content::ContentSerializer::serialize_unit rename=serialize_unit:serialize_unit__audit serves=C19 audit=1 nocanary=1
//@rewrite Result<Self::Ok, Self::Error> ==> Result<WriteResult, SeError>
//@patch Result<Self::Ok, Self::Error> ==> Result<WriteResult, SeError>
//@patch && *final(self.writer) == *old(self.writer) ==> && *final(self.writer) == *old(self.writer),\n            r matches Ok(y) && (y is Element || y is Nothing) ==> self.write_indent, // C19: nothing written -- no new permission to indent
//@end
}

impl<'w, 'i, W: Write> SerializeSeq for Seq<'w, 'i, W> {
    type Ok = WriteResult;
    type Error = SeError;
    open spec fn seq_ok(&self) -> bool { ind_ok(self.ser.indent) }
    /// C19: the indent flag for the NEXT item is set exactly when this item was markup or nothing -- never after text
    open spec fn seq_elem_post(pre: Self, post: Self, r: Result<(), SeError>) -> bool {
        &&& r is Ok && post.ser.write_indent ==> (post.last is Element || post.last is Nothing)
        &&& post.ser.level == pre.ser.level && post.ser.expand_empty_elements == pre.ser.expand_empty_elements
    }
    /// C19: a sequence is classified as its last item
    open spec fn seq_end_post(pre: Self, r: Result<WriteResult, SeError>) -> bool { r matches Ok(x) && x == pre.last }
//@extract content::Seq::serialize_element | src/se/content.rs :: impl<'w, 'i, W: Write> SerializeSeq for Seq<'w, 'i, W> :: fn serialize_element | serves=C19 features=serialize
    fn serialize_element<T>(&mut self, value: &T) -> Result<(), Self::Error>
    where
        T: ?Sized + Serialize,
    {
        self.last = value.serialize(self.ser.new_seq_element_serializer(self.last.is_text()))?;
        // Write indent for next element if indents are used
        self.ser.write_indent = self.last.allow_indent();
        Ok(())
    }
//@end
//@extract content::Seq::end | src/se/content.rs :: impl<'w, 'i, W: Write> SerializeSeq for Seq<'w, 'i, W> :: fn end | serves=C19 features=serialize
    fn end(self) -> Result<Self::Ok, Self::Error> {
        Ok(self.last)
    }
//@end
}

impl<'w, 'k, W: Write> Serializer for ElementSerializer<'w, 'k, W> {
    type Ok = WriteResult;
    type Error = SeError;
    type SerializeSeq = Self;
    type SerializeStruct = Struct<'w, 'k, W>;
    type SerializeMap = Map<'w, 'k, W>;
    /// the tag name was validated when the serializer was made (XmlName::try_from)
    open spec fn ok(&self) -> bool { ind_ok(self.ser.indent) && is_xml_name(self.key.0@) }
//@extract element::ElementSerializer::serialize_str | src/se/element.rs :: impl<'w, 'k, W: Write> Serializer for ElementSerializer<'w, 'k, W> :: fn serialize_str | serves=C13 features=serialize
    fn serialize_str(self, value: &str) -> (r: Result<Self::Ok, Self::Error>)
        ensures r matches Ok(x) ==> x is Element,
            // C13: the empty string is `<key/>`
            value.spec_bytes().len() == 0 && r is Ok ==> (*final(self.ser.writer)).out() == (*old(self.ser.writer)).out() + self.ser.pre() + tag_empty(self.key.0.spec_bytes(), self.ser.expand_empty_elements),
    {
        if value.is_empty() {
            self.ser.write_empty(self.key)
        } else {
            self.ser
                .write_wrapped(self.key, |ser| ser.serialize_str(value))
        }
    }
//@end
//@extract element::ElementSerializer::serialize_bool | src/se/element.rs :: impl<'w, 'k, W: Write> Serializer for ElementSerializer<'w, 'k, W> :: invoke write_primitive :: fn serialize_bool | serves=C13,C19 features=serialize
        fn serialize_bool(self, value: bool) -> (r: Result<Self::Ok, Self::Error>)
            // C13: `<key>` + the text of the value + `</key>` with the SAME validated name; C19: markup (after the indent, if due)
            ensures r matches Ok(x) ==> x is Element && (*final(self.ser.writer)).out() == (*old(self.ser.writer)).out() + self.ser.pre()
                + tag_open(self.key.0.spec_bytes()) + bool_text(value) + tag_close(self.key.0.spec_bytes()),
        {
            self.ser.write_wrapped(self.key, |ser: SimpleTypeSerializer<&mut W>| -> (w: Result<&mut W, SeError>)
                ensures w matches Ok(w2) ==> (*w2).out() == (*old(ser.writer)).out() + bool_text(value) && *final(w2) == *final(ser.writer)
                { ser.serialize_bool(value) })
        }
//@end
//@extract element::ElementSerializer::serialize_i8 | src/se/element.rs :: impl<'w, 'k, W: Write> Serializer for ElementSerializer<'w, 'k, W> :: invoke write_primitive :: fn serialize_i8 | serves=C13,C19 features=serialize
        fn serialize_i8(self, value: i8) -> (r: Result<Self::Ok, Self::Error>)
            ensures r matches Ok(x) ==> x is Element && (*final(self.ser.writer)).out() == (*old(self.ser.writer)).out() + self.ser.pre()
                + tag_open(self.key.0.spec_bytes()) + disp(value) + tag_close(self.key.0.spec_bytes()),
        {
            self.ser.write_wrapped(self.key, |ser: SimpleTypeSerializer<&mut W>| -> (w: Result<&mut W, SeError>)
                ensures w matches Ok(w2) ==> (*w2).out() == (*old(ser.writer)).out() + disp(value) && *final(w2) == *final(ser.writer)
                { ser.serialize_i8(value) })
        }
//@end
//@extract element::ElementSerializer::serialize_i16 | src/se/element.rs :: impl<'w, 'k, W: Write> Serializer for ElementSerializer<'w, 'k, W> :: invoke write_primitive :: fn serialize_i16 | serves=C13,C19 features=serialize
        fn serialize_i16(self, value: i16) -> (r: Result<Self::Ok, Self::Error>)
            // C13: `<key>` + the text of the value + `</key>` with the SAME validated name; C19: markup (after the indent, if due)
            ensures r matches Ok(x) ==> x is Element && (*final(self.ser.writer)).out() == (*old(self.ser.writer)).out() + self.ser.pre()
                + tag_open(self.key.0.spec_bytes()) + disp(value) + tag_close(self.key.0.spec_bytes()),
        {
            self.ser.write_wrapped(self.key, |ser: SimpleTypeSerializer<&mut W>| -> (w: Result<&mut W, SeError>)
                ensures w matches Ok(w2) ==> (*w2).out() == (*old(ser.writer)).out() + disp(value) && *final(w2) == *final(ser.writer)
                { ser.serialize_i16(value) })
        }
//@end
//@extract element::ElementSerializer::serialize_i32 | src/se/element.rs :: impl<'w, 'k, W: Write> Serializer for ElementSerializer<'w, 'k, W> :: invoke write_primitive :: fn serialize_i32 | serves=C13,C19 features=serialize
        fn serialize_i32(self, value: i32) -> (r: Result<Self::Ok, Self::Error>)
            // C13: `<key>` + the text of the value + `</key>` with the SAME validated name; C19: markup (after the indent, if due)
            ensures r matches Ok(x) ==> x is Element && (*final(self.ser.writer)).out() == (*old(self.ser.writer)).out() + self.ser.pre()
                + tag_open(self.key.0.spec_bytes()) + disp(value) + tag_close(self.key.0.spec_bytes()),
        {
            self.ser.write_wrapped(self.key, |ser: SimpleTypeSerializer<&mut W>| -> (w: Result<&mut W, SeError>)
                ensures w matches Ok(w2) ==> (*w2).out() == (*old(ser.writer)).out() + disp(value) && *final(w2) == *final(ser.writer)
                { ser.serialize_i32(value) })
        }
//@end
//@extract element::ElementSerializer::serialize_i64 | src/se/element.rs :: impl<'w, 'k, W: Write> Serializer for ElementSerializer<'w, 'k, W> :: invoke write_primitive :: fn serialize_i64 | serves=C13,C19 features=serialize
        fn serialize_i64(self, value: i64) -> (r: Result<Self::Ok, Self::Error>)
            // C13: `<key>` + the text of the value + `</key>` with the SAME validated name; C19: markup (after the indent, if due)
            ensures r matches Ok(x) ==> x is Element && (*final(self.ser.writer)).out() == (*old(self.ser.writer)).out() + self.ser.pre()
                + tag_open(self.key.0.spec_bytes()) + disp(value) + tag_close(self.key.0.spec_bytes()),
        {
            self.ser.write_wrapped(self.key, |ser: SimpleTypeSerializer<&mut W>| -> (w: Result<&mut W, SeError>)
                ensures w matches Ok(w2) ==> (*w2).out() == (*old(ser.writer)).out() + disp(value) && *final(w2) == *final(ser.writer)
                { ser.serialize_i64(value) })
        }
//@end
//@extract element::ElementSerializer::serialize_i128 | src/se/element.rs :: impl<'w, 'k, W: Write> Serializer for ElementSerializer<'w, 'k, W> :: invoke serde_if_integer128 :: invoke write_primitive :: fn serialize_i128 | serves=C13,C19 features=serialize
        fn serialize_i128(self, value: i128) -> (r: Result<Self::Ok, Self::Error>)
            // C13: `<key>` + the text of the value + `</key>` with the SAME validated name; C19: markup (after the indent, if due)
            ensures r matches Ok(x) ==> x is Element && (*final(self.ser.writer)).out() == (*old(self.ser.writer)).out() + self.ser.pre()
                + tag_open(self.key.0.spec_bytes()) + disp(value) + tag_close(self.key.0.spec_bytes()),
        {
            self.ser.write_wrapped(self.key, |ser: SimpleTypeSerializer<&mut W>| -> (w: Result<&mut W, SeError>)
                ensures w matches Ok(w2) ==> (*w2).out() == (*old(ser.writer)).out() + disp(value) && *final(w2) == *final(ser.writer)
                { ser.serialize_i128(value) })
        }
//@end
//@extract element::ElementSerializer::serialize_u8 | src/se/element.rs :: impl<'w, 'k, W: Write> Serializer for ElementSerializer<'w, 'k, W> :: invoke write_primitive :: fn serialize_u8 | serves=C13,C19 features=serialize
        fn serialize_u8(self, value: u8) -> (r: Result<Self::Ok, Self::Error>)
            // C13: `<key>` + the text of the value + `</key>` with the SAME validated name; C19: markup (after the indent, if due)
            ensures r matches Ok(x) ==> x is Element && (*final(self.ser.writer)).out() == (*old(self.ser.writer)).out() + self.ser.pre()
                + tag_open(self.key.0.spec_bytes()) + disp(value) + tag_close(self.key.0.spec_bytes()),
        {
            self.ser.write_wrapped(self.key, |ser: SimpleTypeSerializer<&mut W>| -> (w: Result<&mut W, SeError>)
                ensures w matches Ok(w2) ==> (*w2).out() == (*old(ser.writer)).out() + disp(value) && *final(w2) == *final(ser.writer)
                { ser.serialize_u8(value) })
        }
//@end
//@extract element::ElementSerializer::serialize_u16 | src/se/element.rs :: impl<'w, 'k, W: Write> Serializer for ElementSerializer<'w, 'k, W> :: invoke write_primitive :: fn serialize_u16 | serves=C13,C19 features=serialize
        fn serialize_u16(self, value: u16) -> (r: Result<Self::Ok, Self::Error>)
            // C13: `<key>` + the text of the value + `</key>` with the SAME validated name; C19: markup (after the indent, if due)
            ensures r matches Ok(x) ==> x is Element && (*final(self.ser.writer)).out() == (*old(self.ser.writer)).out() + self.ser.pre()
                + tag_open(self.key.0.spec_bytes()) + disp(value) + tag_close(self.key.0.spec_bytes()),
        {
            self.ser.write_wrapped(self.key, |ser: SimpleTypeSerializer<&mut W>| -> (w: Result<&mut W, SeError>)
                ensures w matches Ok(w2) ==> (*w2).out() == (*old(ser.writer)).out() + disp(value) && *final(w2) == *final(ser.writer)
                { ser.serialize_u16(value) })
        }
//@end
//@extract element::ElementSerializer::serialize_u32 | src/se/element.rs :: impl<'w, 'k, W: Write> Serializer for ElementSerializer<'w, 'k, W> :: invoke write_primitive :: fn serialize_u32 | serves=C13,C19 features=serialize
        fn serialize_u32(self, value: u32) -> (r: Result<Self::Ok, Self::Error>)
            // C13: `<key>` + the text of the value + `</key>` with the SAME validated name; C19: markup (after the indent, if due)
            ensures r matches Ok(x) ==> x is Element && (*final(self.ser.writer)).out() == (*old(self.ser.writer)).out() + self.ser.pre()
                + tag_open(self.key.0.spec_bytes()) + disp(value) + tag_close(self.key.0.spec_bytes()),
        {
            self.ser.write_wrapped(self.key, |ser: SimpleTypeSerializer<&mut W>| -> (w: Result<&mut W, SeError>)
                ensures w matches Ok(w2) ==> (*w2).out() == (*old(ser.writer)).out() + disp(value) && *final(w2) == *final(ser.writer)
                { ser.serialize_u32(value) })
        }
//@end
//@extract element::ElementSerializer::serialize_u64 | src/se/element.rs :: impl<'w, 'k, W: Write> Serializer for ElementSerializer<'w, 'k, W> :: invoke write_primitive :: fn serialize_u64 | serves=C13,C19 features=serialize
        fn serialize_u64(self, value: u64) -> (r: Result<Self::Ok, Self::Error>)
            // C13: `<key>` + the text of the value + `</key>` with the SAME validated name; C19: markup (after the indent, if due)
            ensures r matches Ok(x) ==> x is Element && (*final(self.ser.writer)).out() == (*old(self.ser.writer)).out() + self.ser.pre()
                + tag_open(self.key.0.spec_bytes()) + disp(value) + tag_close(self.key.0.spec_bytes()),
        {
            self.ser.write_wrapped(self.key, |ser: SimpleTypeSerializer<&mut W>| -> (w: Result<&mut W, SeError>)
                ensures w matches Ok(w2) ==> (*w2).out() == (*old(ser.writer)).out() + disp(value) && *final(w2) == *final(ser.writer)
                { ser.serialize_u64(value) })
        }
//@end
//@extract element::ElementSerializer::serialize_u128 | src/se/element.rs :: impl<'w, 'k, W: Write> Serializer for ElementSerializer<'w, 'k, W> :: invoke serde_if_integer128 :: invoke write_primitive :: fn serialize_u128 | serves=C13,C19 features=serialize
        fn serialize_u128(self, value: u128) -> (r: Result<Self::Ok, Self::Error>)
            // C13: `<key>` + the text of the value + `</key>` with the SAME validated name; C19: markup (after the indent, if due)
            ensures r matches Ok(x) ==> x is Element && (*final(self.ser.writer)).out() == (*old(self.ser.writer)).out() + self.ser.pre()
                + tag_open(self.key.0.spec_bytes()) + disp(value) + tag_close(self.key.0.spec_bytes()),
        {
            self.ser.write_wrapped(self.key, |ser: SimpleTypeSerializer<&mut W>| -> (w: Result<&mut W, SeError>)
                ensures w matches Ok(w2) ==> (*w2).out() == (*old(ser.writer)).out() + disp(value) && *final(w2) == *final(ser.writer)
                { ser.serialize_u128(value) })
        }
//@end
//@extract element::ElementSerializer::serialize_f32 | src/se/element.rs :: impl<'w, 'k, W: Write> Serializer for ElementSerializer<'w, 'k, W> :: invoke write_primitive :: fn serialize_f32 | serves=C13,C19 features=serialize
        fn serialize_f32(self, value: f32) -> (r: Result<Self::Ok, Self::Error>)
            // C13: `<key>` + the text of the value + `</key>` with the SAME validated name; C19: markup (after the indent, if due)
            ensures r matches Ok(x) ==> x is Element && (*final(self.ser.writer)).out() == (*old(self.ser.writer)).out() + self.ser.pre()
                + tag_open(self.key.0.spec_bytes()) + disp(value) + tag_close(self.key.0.spec_bytes()),
        {
            self.ser.write_wrapped(self.key, |ser: SimpleTypeSerializer<&mut W>| -> (w: Result<&mut W, SeError>)
                ensures w matches Ok(w2) ==> (*w2).out() == (*old(ser.writer)).out() + disp(value) && *final(w2) == *final(ser.writer)
                { ser.serialize_f32(value) })
        }
//@end
//@extract element::ElementSerializer::serialize_f64 | src/se/element.rs :: impl<'w, 'k, W: Write> Serializer for ElementSerializer<'w, 'k, W> :: invoke write_primitive :: fn serialize_f64 | serves=C13,C19 features=serialize
        fn serialize_f64(self, value: f64) -> (r: Result<Self::Ok, Self::Error>)
            // C13: `<key>` + the text of the value + `</key>` with the SAME validated name; C19: markup (after the indent, if due)
            ensures r matches Ok(x) ==> x is Element && (*final(self.ser.writer)).out() == (*old(self.ser.writer)).out() + self.ser.pre()
                + tag_open(self.key.0.spec_bytes()) + disp(value) + tag_close(self.key.0.spec_bytes()),
        {
            self.ser.write_wrapped(self.key, |ser: SimpleTypeSerializer<&mut W>| -> (w: Result<&mut W, SeError>)
                ensures w matches Ok(w2) ==> (*w2).out() == (*old(ser.writer)).out() + disp(value) && *final(w2) == *final(ser.writer)
                { ser.serialize_f64(value) })
        }
//@end
//@extract element::ElementSerializer::serialize_char | src/se/element.rs :: impl<'w, 'k, W: Write> Serializer for ElementSerializer<'w, 'k, W> :: invoke write_primitive :: fn serialize_char | serves=C13,C19 features=serialize
        fn serialize_char(self, value: char) -> (r: Result<Self::Ok, Self::Error>)
            // C13: `<key>` + the text of the value + `</key>` with the SAME validated name; C19: markup (after the indent, if due)
            ensures r matches Ok(x) ==> x is Element && (*final(self.ser.writer)).out() == (*old(self.ser.writer)).out() + self.ser.pre()
                + tag_open(self.key.0.spec_bytes()) + spec_escape(char_bytes(value), p_list(QuoteTarget::Text, self.ser.level)) + tag_close(self.key.0.spec_bytes()),
        {
            self.ser.write_wrapped(self.key, |ser: SimpleTypeSerializer<&mut W>| -> (w: Result<&mut W, SeError>)
                ensures w matches Ok(w2) ==> (*w2).out() == (*old(ser.writer)).out() + spec_escape(char_bytes(value), p_list(ser.target, ser.level)) && *final(w2) == *final(ser.writer)
                { ser.serialize_char(value) })
        }
//@end
//@extract element::ElementSerializer::serialize_bytes | src/se/element.rs :: impl<'w, 'k, W: Write> Serializer for ElementSerializer<'w, 'k, W> :: invoke write_primitive :: fn serialize_bytes | serves=C13,C19 features=serialize
        fn serialize_bytes(self, value: &[u8]) -> (r: Result<Self::Ok, Self::Error>)
            ensures r is Err
        {
            self.ser.write_wrapped(self.key, |ser: SimpleTypeSerializer<&mut W>| -> (w: Result<&mut W, SeError>)
                ensures w is Err
                { ser.serialize_bytes(value) })
        }
//@end
//@extract element::ElementSerializer::serialize_none | src/se/element.rs :: impl<'w, 'k, W: Write> Serializer for ElementSerializer<'w, 'k, W> :: fn serialize_none | serves=C13 features=serialize
    /// By serde contract we should serialize key of [`None`] values. If someone
    /// wants to skip the field entirely, he should use
    /// `#[serde(skip_serializing_if = "Option::is_none")]`.
    ///
    /// In XML when we serialize field, we write field name as:
    /// - element name, or
    /// - attribute name
    ///
    /// and field value as
    /// - content of the element, or
    /// - attribute value
    ///
    /// So serialization of `None` works the same as [serialization of `()`](#method.serialize_unit)
    fn serialize_none(self) -> (r: Result<Self::Ok, Self::Error>)
        ensures r matches Ok(x) ==> x is Element
            && (*final(self.ser.writer)).out() == (*old(self.ser.writer)).out() + self.ser.pre() + tag_empty(self.key.0.spec_bytes(), self.ser.expand_empty_elements),
    {
        self.serialize_unit()
    }
//@end
//@extract element::ElementSerializer::serialize_unit | src/se/element.rs :: impl<'w, 'k, W: Write> Serializer for ElementSerializer<'w, 'k, W> :: fn serialize_unit | serves=C13 features=serialize
    fn serialize_unit(self) -> (r: Result<Self::Ok, Self::Error>)
        ensures r matches Ok(x) ==> x is Element
            && (*final(self.ser.writer)).out() == (*old(self.ser.writer)).out() + self.ser.pre() + tag_empty(self.key.0.spec_bytes(), self.ser.expand_empty_elements),
    {
        self.ser.write_empty(self.key)
    }
//@end
//@extract element::ElementSerializer::serialize_unit_struct | src/se/element.rs :: impl<'w, 'k, W: Write> Serializer for ElementSerializer<'w, 'k, W> :: fn serialize_unit_struct | serves=C13 features=serialize
    fn serialize_unit_struct(self, _name: &'static str) -> (r: Result<Self::Ok, Self::Error>)
        ensures r matches Ok(x) ==> x is Element
            && (*final(self.ser.writer)).out() == (*old(self.ser.writer)).out() + self.ser.pre() + tag_empty(self.key.0.spec_bytes(), self.ser.expand_empty_elements),
    {
        self.ser.write_empty(self.key)
    }
//@end
//@extract element::ElementSerializer::serialize_unit_variant | src/se/element.rs :: impl<'w, 'k, W: Write> Serializer for ElementSerializer<'w, 'k, W> :: fn serialize_unit_variant | serves=C13 features=serialize
    /// Writes a tag with name [`Self::key`] and content of unit variant inside.
    /// If variant is a special `$text` value, then empty tag `<key/>` is written.
    /// Otherwise a `<key>variant</key>` is written.
    fn serialize_unit_variant(
        self,
        name: &'static str,
        variant_index: u32,
        variant: &'static str,
    ) -> (r: Result<Self::Ok, Self::Error>)
        ensures r matches Ok(x) ==> x is Element,
            variant@ == "$text"@ && r is Ok ==> (*final(self.ser.writer)).out() == (*old(self.ser.writer)).out() + self.ser.pre() + tag_empty(self.key.0.spec_bytes(), self.ser.expand_empty_elements),
    {
        if variant == TEXT_KEY {
            self.ser.write_empty(self.key)
        } else {
            self.ser.write_wrapped(self.key, |ser| {
                ser.serialize_unit_variant(name, variant_index, variant)
            })
        }
    }
//@end
//@extract element::ElementSerializer::serialize_map | src/se/element.rs :: impl<'w, 'k, W: Write> Serializer for ElementSerializer<'w, 'k, W> :: fn serialize_map | serves=C13 features=serialize
    fn serialize_map(self, _len: Option<usize>) -> (r: Result<Self::SerializeMap, Self::Error>)
        // a map is a struct whose field names are computed: the same open tag, no pending key
        ensures r matches Ok(m) ==> m.key is None && m.ser.ser.key == self.key && m.ser.children@.len() == 0 && m.ser.write_indent,
    {
        Ok(Map {
            ser: self.serialize_struct("", 0)?,
            key: None,
        })
    }
//@end
//@extract element::ElementSerializer::serialize_struct | src/se/element.rs :: impl<'w, 'k, W: Write> Serializer for ElementSerializer<'w, 'k, W> :: fn serialize_struct | serves=C13,C19 features=serialize
    fn serialize_struct(
        self,
        _name: &'static str,
        _len: usize,
    ) -> (r: Result<Self::SerializeStruct, Self::Error>)
        ensures
            // C13/C19: the indent (if the flag is set), then `<key` -- the tag stays open for the attributes; nothing is
            // buffered yet; one level deeper
            r matches Ok(st) ==> st.children@.len() == 0 && st.write_indent && st.ser.key == self.key
                && st.ser.ser.level == self.ser.level && st.ser.ser.expand_empty_elements == self.ser.expand_empty_elements
                && (*st.ser.ser.writer).out() == (*old(self.ser.writer)).out() + self.ser.pre() + seq![0x3cu8] + self.key.0.spec_bytes()
                && *final(st.ser.ser.writer) == *final(self.ser.writer)
                && st.ser.ser.indent.fut() == self.ser.indent.fut()
                && (match self.ser.indent.st() {
                    None => st.ser.ser.indent.st() is None,
                    Some(i) => st.ser.ser.indent.st() matches Some(j) && j.current_indent_len == i.current_indent_len + i.indent_size
                        && j.indent_char == i.indent_char && j.indent_size == i.indent_size,
                }),
    { let mut self__ = self;
        proof { lemma_nl(); }
        self__.ser.write_indent()?;
        self__.ser.indent.increase();

        self__.ser.writer.write_char('<')?;
        self__.ser.writer.write_str(self__.key.0)?;
        Ok(Struct {
            ser: self__,
            children: String::new(),
            write_indent: true,
        })
    }
//@end
//@extract element::ElementSerializer::serialize_seq | src/se/element.rs :: impl<'w, 'k, W: Write> Serializer for ElementSerializer<'w, 'k, W> :: fn serialize_seq | serves=C13 features=serialize
    fn serialize_seq(self, _len: Option<usize>) -> (r: Result<Self::SerializeSeq, Self::Error>)
        ensures r matches Ok(q) && q == self
    {
        Ok(self)
    }
//@end
}
// generic over `T: Serialize`: inherent (see the model traits above)
impl<'w, W: Write> SimpleTypeSerializer<&'w mut W> {
//@extract simple_type::SimpleTypeSerializer::serialize_newtype_variant | src/se/simple_type.rs :: impl<W: Write> Serializer for SimpleTypeSerializer<W> :: fn serialize_newtype_variant | serves=C13 features=serialize n15=1
//@rewrite Result<Self::Ok, SeError> ==> Result<&'w mut W, SeError>
    /// We cannot store both a variant discriminant and a variant value,
    /// so serialization of enum newtype variant returns `Err(Unsupported)`
    pub fn serialize_newtype_variant<T: ?Sized + Serialize>(
        self,
        name: &'static str,
        _variant_index: u32,
        variant: &'static str,
        _value: &T,
    ) -> (r: Result<&'w mut W, SeError>)
        ensures r is Err
    {
        Err(SeError::Unsupported(
            errmsg_(),
        ))
    }
//@end
}
// generic over `T: Serialize`: inherent (see the model traits above)
impl<'w, 'i, W: Write> ContentSerializer<'w, 'i, W> {
//@extract content::ContentSerializer::serialize_some | src/se/content.rs :: impl<'w, 'i, W: Write> Serializer for ContentSerializer<'w, 'i, W> :: fn serialize_some | serves=C19 features=serialize
//@rewrite Result<Self::Ok, Self::Error> ==> Result<WriteResult, SeError>
    pub fn serialize_some<T: ?Sized + Serialize>(self, value: &T) -> (r: Result<WriteResult, SeError>)
        requires self.ok()
    {
        value.serialize(self)
    }
//@end
//@extract content::ContentSerializer::serialize_newtype_struct | src/se/content.rs :: impl<'w, 'i, W: Write> Serializer for ContentSerializer<'w, 'i, W> :: fn serialize_newtype_struct | serves=C19 features=serialize
//@rewrite Result<Self::Ok, Self::Error> ==> Result<WriteResult, SeError>
    pub fn serialize_newtype_struct<T: ?Sized + Serialize>(
        self,
        _name: &'static str,
        value: &T,
    ) -> (r: Result<WriteResult, SeError>)
        requires self.ok()
    {
        value.serialize(self)
    }
//@end
//@extract content::ContentSerializer::serialize_newtype_variant | src/se/content.rs :: impl<'w, 'i, W: Write> Serializer for ContentSerializer<'w, 'i, W> :: fn serialize_newtype_variant | serves=C13,C19 features=serialize
//@rewrite Result<Self::Ok, Self::Error> ==> Result<WriteResult, SeError>
    /// If `variant` is a special `$text` variant, then writes `value` as a `xs:simpleType`,
    /// otherwise checks `variant` for XML name validity and writes `value` as a new
    /// `<variant>` element.
    pub fn serialize_newtype_variant<T: ?Sized + Serialize>(
        self,
        _name: &'static str,
        _variant_index: u32,
        variant: &'static str,
        value: &T,
    ) -> (r: Result<WriteResult, SeError>)
        requires self.ok()
        ensures
            // C13: the variant name becomes a tag only after validation; C19: `$text` content is text in which whitespace
            // counts (no indent after it), an element is markup
            r matches Ok(x) ==> if variant@ == "$text"@ { x is SensitiveText && self.allow_primitive } else { x is Element && is_xml_name(variant@) },
    {
        if variant == TEXT_KEY {
            value.serialize(self.into_simple_type_serializer()?)?;
            Ok(WriteResult::SensitiveText)
        } else {
            value.serialize(ElementSerializer {
                key: XmlName::try_from(variant)?,
                ser: self,
            })?;
            Ok(WriteResult::Element)
        }
    }
//@end
}
// the tuple / struct forms (associated types the model trait does not carry: inherent, return types written out)
impl<'w, 'i, W: Write> ContentSerializer<'w, 'i, W> {
//@extract content::ContentSerializer::serialize_tuple | src/se/content.rs :: impl<'w, 'i, W: Write> Serializer for ContentSerializer<'w, 'i, W> :: fn serialize_tuple | serves=C13,C19 features=serialize
//@rewrite Result<Self::SerializeTuple, Self::Error> ==> Result<Seq<'w, 'i, W>, SeError>
    pub fn serialize_tuple(self, len: usize) -> (r: Result<Seq<'w, 'i, W>, SeError>)
        requires self.ok()
        ensures r matches Ok(q) && q.last is SensitiveNothing && q.ser == self
    {
        self.serialize_seq(Some(len))
    }
//@end
//@extract content::ContentSerializer::serialize_tuple_struct | src/se/content.rs :: impl<'w, 'i, W: Write> Serializer for ContentSerializer<'w, 'i, W> :: fn serialize_tuple_struct | serves=C13,C19 features=serialize
//@rewrite Result<Self::SerializeTupleStruct, Self::Error> ==> Result<Seq<'w, 'i, W>, SeError>
    pub fn serialize_tuple_struct(
        self,
        _name: &'static str,
        len: usize,
    ) -> (r: Result<Seq<'w, 'i, W>, SeError>)
        requires self.ok()
        ensures r matches Ok(q) && q.last is SensitiveNothing && q.ser == self
    {
        self.serialize_tuple(len)
    }
//@end
//@extract content::ContentSerializer::serialize_struct_variant | src/se/content.rs :: impl<'w, 'i, W: Write> Serializer for ContentSerializer<'w, 'i, W> :: fn serialize_struct_variant | serves=C13 features=serialize n15=1
//@rewrite Result<Self::SerializeStructVariant, Self::Error> ==> Result<Struct<'w, 'i, W>, SeError>
    pub fn serialize_struct_variant(
        self,
        name: &'static str,
        _variant_index: u32,
        variant: &'static str,
        len: usize,
    ) -> (r: Result<Struct<'w, 'i, W>, SeError>)
        requires self.ok()
        ensures
            // C13: a struct variant in a `$value` field becomes an element named by the variant -- only if that is a legal XML name;
            // `<variant` is written, the tag stays open, nothing is buffered yet
            r matches Ok(st) ==> variant@ != "$text"@ && is_xml_name(variant@) && st.ser.key.0@ == variant@
                && st.children@.len() == 0 && st.write_indent
                && (*st.ser.ser.writer).out() == (*old(self.writer)).out() + self.pre() + seq![0x3cu8] + variant.spec_bytes()
                && *final(st.ser.ser.writer) == *final(self.writer),
    {
        if variant == TEXT_KEY {
            Err(SeError::Unsupported(
                errmsg_(),
            ))
        } else {
            let ser = ElementSerializer {
                key: XmlName::try_from(variant)?,
                ser: self,
            };
            ser.serialize_struct(name, len)
        }
    }
//@end
}
impl<'w, 'k, W: Write> ElementSerializer<'w, 'k, W> {
//@extract element::ElementSerializer::serialize_tuple | src/se/element.rs :: impl<'w, 'k, W: Write> Serializer for ElementSerializer<'w, 'k, W> :: fn serialize_tuple | serves=C13 features=serialize
//@rewrite Result<Self::SerializeTuple, Self::Error> ==> Result<Self, SeError>
    pub fn serialize_tuple(self, len: usize) -> (r: Result<Self, SeError>)
        requires self.ok()
        ensures r matches Ok(q) && q == self
    {
        self.serialize_seq(Some(len))
    }
//@end
//@extract element::ElementSerializer::serialize_tuple_struct | src/se/element.rs :: impl<'w, 'k, W: Write> Serializer for ElementSerializer<'w, 'k, W> :: fn serialize_tuple_struct | serves=C13 features=serialize
//@rewrite Result<Self::SerializeTupleStruct, Self::Error> ==> Result<Self, SeError>
    pub fn serialize_tuple_struct(
        self,
        _name: &'static str,
        len: usize,
    ) -> (r: Result<Self, SeError>)
        requires self.ok()
        ensures r matches Ok(q) && q == self
    {
        self.serialize_tuple(len)
    }
//@end
}
impl<'w, W: Write> SimpleTypeSerializer<&'w mut W> {
//@extract simple_type::SimpleTypeSerializer::serialize_tuple | src/se/simple_type.rs :: impl<W: Write> Serializer for SimpleTypeSerializer<W> :: fn serialize_tuple | serves=C13 features=serialize
//@rewrite Result<Self::SerializeTuple, Self::Error> ==> Result<SimpleSeq<&'w mut W>, SeError>
    pub fn serialize_tuple(self, _len: usize) -> (r: Result<SimpleSeq<&'w mut W>, SeError>)
        ensures r matches Ok(q) && q.target == self.target && q.level == self.level && q.is_empty
            && (*q.writer).out() == (*old(self.writer)).out() && *final(q.writer) == *final(self.writer),
    {
        self.serialize_seq(None)
    }
//@end
//@extract simple_type::SimpleTypeSerializer::serialize_tuple_struct | src/se/simple_type.rs :: impl<W: Write> Serializer for SimpleTypeSerializer<W> :: fn serialize_tuple_struct | serves=C13 features=serialize
//@rewrite Result<Self::SerializeTupleStruct, Self::Error> ==> Result<SimpleSeq<&'w mut W>, SeError>
    pub fn serialize_tuple_struct(
        self,
        _name: &'static str,
        _len: usize,
    ) -> (r: Result<SimpleSeq<&'w mut W>, SeError>)
        ensures r matches Ok(q) && q.target == self.target && q.level == self.level && q.is_empty
            && (*q.writer).out() == (*old(self.writer)).out() && *final(q.writer) == *final(self.writer),
    {
        self.serialize_seq(None)
    }
//@end
}
impl<'w, 'i, W: Write> ContentSerializer<'w, 'i, W> {
//@extract content::ContentSerializer::serialize_tuple_variant | src/se/content.rs :: impl<'w, 'i, W: Write> Serializer for ContentSerializer<'w, 'i, W> :: fn serialize_tuple_variant | serves=C13 features=serialize
//@rewrite Result<Self::SerializeTupleVariant, Self::Error> ==> Result<Tuple<'w, 'i, W>, SeError>
//@rewrite .map(Tuple::Text) ==> .map(|q__: SimpleSeq<&'w mut W>| Tuple::Text(q__))
//@rewrite .map(Tuple::Element) ==> .map(|q__: ElementSerializer<'w, 'i, W>| Tuple::Element(q__))
    pub fn serialize_tuple_variant(
        self,
        name: &'static str,
        _variant_index: u32,
        variant: &'static str,
        len: usize,
    ) -> (r: Result<Tuple<'w, 'i, W>, SeError>)
        requires self.ok()
        ensures
            // C13: a tuple variant in a `$value` field: elements named by the variant -- only if that is a legal XML name --, or,
            // for `$text`, an xs:list written with the Text escaping rules and the level in force
            r matches Ok(Tuple::Element(e)) ==> variant@ != "$text"@ && is_xml_name(variant@) && e.key.0@ == variant@ && e.ser == self,
            r matches Ok(Tuple::Text(q)) ==> variant@ == "$text"@ && q.target is Text && q.level == self.level && q.is_empty
                && (*q.writer).out() == (*old(self.writer)).out() && *final(q.writer) == *final(self.writer),
    {
        if variant == TEXT_KEY {
            self.into_simple_type_serializer()?
                .serialize_tuple_struct(name, len)
                .map(|q__: SimpleSeq<&'w mut W>| -> (o: Tuple<'w, 'i, W>) ensures o == Tuple::Text(q__) { Tuple::Text(q__) })
        } else {
            let ser = ElementSerializer {
                key: XmlName::try_from(variant)?,
                ser: self,
            };
            ser.serialize_tuple_struct(name, len).map(|q__: ElementSerializer<'w, 'i, W>| -> (o: Tuple<'w, 'i, W>) ensures o == Tuple::Element(q__) { Tuple::Element(q__) })
        }
    }
//@end
}
// generic over `T: Serialize`: inherent (see the model traits above)
impl<'w, 'k, W: Write> ElementSerializer<'w, 'k, W> {
//@extract element::ElementSerializer::serialize_some | src/se/element.rs :: impl<'w, 'k, W: Write> Serializer for ElementSerializer<'w, 'k, W> :: fn serialize_some | serves=C13 features=serialize
//@rewrite Result<Self::Ok, Self::Error> ==> Result<WriteResult, SeError>
    pub fn serialize_some<T: ?Sized + Serialize>(self, value: &T) -> (r: Result<WriteResult, SeError>)
        requires self.ok()
    {
        value.serialize(self)
    }
//@end
//@extract element::ElementSerializer::serialize_newtype_struct | src/se/element.rs :: impl<'w, 'k, W: Write> Serializer for ElementSerializer<'w, 'k, W> :: fn serialize_newtype_struct | serves=C13 features=serialize
//@rewrite Result<Self::Ok, Self::Error> ==> Result<WriteResult, SeError>
    pub fn serialize_newtype_struct<T: ?Sized + Serialize>(
        self,
        _name: &'static str,
        value: &T,
    ) -> (r: Result<WriteResult, SeError>)
        requires self.ok()
    {
        value.serialize(self)
    }
//@end
//@extract element::ElementSerializer::serialize_newtype_variant | src/se/element.rs :: impl<'w, 'k, W: Write> Serializer for ElementSerializer<'w, 'k, W> :: fn serialize_newtype_variant | serves=C13 features=serialize n15=1
//@rewrite Result<Self::Ok, Self::Error> ==> Result<WriteResult, SeError>
    pub fn serialize_newtype_variant<T: ?Sized + Serialize>(
        self,
        name: &'static str,
        _variant_index: u32,
        variant: &'static str,
        _value: &T,
    ) -> (r: Result<WriteResult, SeError>)
        ensures r is Err
    {
        Err(SeError::Unsupported(
            errmsg_(),
        ))
    }
//@end
}

// ---- xs:list: SimpleSeq and its item serializer (verified at W := &mut W0, see SimpleTypeSerializer) ----
impl<'w, W: Write> SerializeSeq for SimpleSeq<&'w mut W> {
    type Ok = &'w mut W;
    type Error = SeError;
    open spec fn seq_ok(&self) -> bool { true }
    /// C13: every item is written by an item serializer set up for the same position and level
    open spec fn seq_elem_post(pre: Self, post: Self, r: Result<(), SeError>) -> bool {
        post.target == pre.target && post.level == pre.level && (r is Ok && !pre.is_empty ==> !post.is_empty)
    }
    open spec fn seq_end_post(pre: Self, r: Result<&'w mut W, SeError>) -> bool { r is Ok }
//@extract simple_type::SimpleSeq::serialize_element | src/se/simple_type.rs :: impl<W: Write> SerializeSeq for SimpleSeq<W> :: fn serialize_element | serves=C13 features=serialize
//@rewrite value.serialize(AtomicSerializer { ==> value.serialize_list_item(Ghost(self.target), Ghost(self.level), Ghost(!self.is_empty), AtomicSerializer {
    fn serialize_element<T>(&mut self, value: &T) -> Result<(), Self::Error>
    where
        T: ?Sized + Serialize,
    {
        if value.serialize_list_item(Ghost(self.target), Ghost(self.level), Ghost(!self.is_empty), AtomicSerializer {
            writer: &mut self.writer,
            target: self.target,
            level: self.level,
            write_delimiter: !self.is_empty,
        })? {
            self.is_empty = false;
        }
        Ok(())
    }
//@end
//@extract simple_type::SimpleSeq::end | src/se/simple_type.rs :: impl<W: Write> SerializeSeq for SimpleSeq<W> :: fn end | serves=C13 features=serialize
    fn end(self) -> Result<Self::Ok, Self::Error> {
        Ok(self.writer)
    }
//@end
}
impl<'w, W: Write> SerializeTuple for SimpleSeq<&'w mut W> {
    type Ok = &'w mut W;
    type Error = SeError;
    open spec fn tup_ok(&self) -> bool { true }
    open spec fn tup_elem_post(pre: Self, post: Self, r: Result<(), SeError>) -> bool {
        post.target == pre.target && post.level == pre.level && (r is Ok && !pre.is_empty ==> !post.is_empty)
    }
    open spec fn tup_end_post(pre: Self, r: Result<&'w mut W, SeError>) -> bool { r is Ok }
//@extract simple_type::SimpleSeq::tuple_serialize_element | src/se/simple_type.rs :: impl<W: Write> SerializeTuple for SimpleSeq<W> :: fn serialize_element | serves=C13 features=serialize
    fn serialize_element<T>(&mut self, value: &T) -> Result<(), Self::Error>
    where
        T: ?Sized + Serialize,
    {
        SerializeSeq::serialize_element(self, value)
    }
//@end
//@extract simple_type::SimpleSeq::tuple_end | src/se/simple_type.rs :: impl<W: Write> SerializeTuple for SimpleSeq<W> :: fn end | serves=C13 features=serialize
    fn end(self) -> Result<Self::Ok, Self::Error> {
        SerializeSeq::end(self)
    }
//@end
}
impl<'a, W: Write> AtomicSerializer<&'a mut W> {
//@extract simple_type::AtomicSerializer::write_str | src/se/simple_type.rs :: impl<W: Write> AtomicSerializer<W> :: fn write_str | serves=C13 features=serialize
    fn write_str(&mut self, value: &str) -> (r: Result<(), SeError>)
        ensures final(self).target == old(self).target, final(self).level == old(self).level,
            *final(final(self).writer) == *final(old(self).writer),
            // the xs:list delimiter: ONE space, only between items
            r is Ok ==> (*final(self).writer).out() == (*old(self).writer).out() + (if old(self).write_delimiter { seq![0x20u8] } else { BSeq::empty() }) + value.spec_bytes(),
    {
        proof { lemma_nl(); }
        if self.write_delimiter {
            // TODO: Customization point -- possible non-XML compatible extension to specify delimiter char
            self.writer.write_char(' ')?;
        }
        Ok(self.writer.write_str(value)?)
    }
//@end
}
impl<'a, W: Write> Serializer for AtomicSerializer<&'a mut W> {
    type Ok = bool;
    type Error = SeError;
    type SerializeSeq = ();
    type SerializeStruct = ();
    type SerializeMap = ();
    open spec fn ok(&self) -> bool { true }
//@extract simple_type::AtomicSerializer::serialize_str | src/se/simple_type.rs :: impl<W: Write> Serializer for AtomicSerializer<W> :: fn serialize_str | serves=C13 features=serialize
    fn serialize_str(self, value: &str) -> (r: Result<Self::Ok, Self::Error>)
        ensures
            // C13: an item is written ONLY through the item table of its position (escape_item: whitespace escaped too, so
            // that the only raw spaces in a list are the delimiters); an empty item writes nothing and reports so
            r matches Ok(b) ==> b == (value.spec_bytes().len() > 0)
                && (*final(self.writer)).out() == (*old(self.writer)).out()
                    + (if b && self.write_delimiter { seq![0x20u8] } else { BSeq::empty() })
                    + spec_escape(value.spec_bytes(), p_item(self.target, self.level)),
    { let mut self__ = self;
        proof {
            axiom_cow_str_all();
            if value.spec_bytes().len() == 0 { assert(spec_escape(value.spec_bytes(), p_item(self.target, self.level)) =~= BSeq::empty()); assert((*old(self.writer)).out() + BSeq::empty() + BSeq::empty() =~= (*old(self.writer)).out()); }
        }
        if !value.is_empty() {
            self__.write_str(&escape_item(value, self__.target, self__.level))?;
        }
        Ok(!value.is_empty())
    }
//@end
//@extract simple_type::AtomicSerializer::serialize_none | src/se/simple_type.rs :: impl<W: Write> Serializer for AtomicSerializer<W> :: fn serialize_none | serves=C13 features=serialize
    fn serialize_none(self) -> (r: Result<Self::Ok, Self::Error>)
        ensures r matches Ok(b) && !b && *final(self.writer) == *old(self.writer)
    {
        Ok(false)
    }
//@end
//@extract simple_type::AtomicSerializer::serialize_unit | src/se/simple_type.rs :: impl<W: Write> Serializer for AtomicSerializer<W> :: fn serialize_unit | serves=C13 features=serialize n15=1
    /// We cannot store anything, so the absence of a unit and presence of it
    /// does not differ, so serialization of unit returns `Err(Unsupported)`
    fn serialize_unit(self) -> (r: Result<Self::Ok, Self::Error>)
        ensures r is Err
    {
        Err(SeError::Unsupported(
            errmsg_(),
        ))
    }
//@end
//@extract simple_type::AtomicSerializer::serialize_unit_variant | src/se/simple_type.rs :: impl<W: Write> Serializer for AtomicSerializer<W> :: fn serialize_unit_variant | serves=C13 features=serialize
    fn serialize_unit_variant(
        self,
        _name: &'static str,
        _variant_index: u32,
        variant: &'static str,
    ) -> (r: Result<Self::Ok, Self::Error>)
        // a unit variant is its name, escaped like any other item
        ensures r matches Ok(b) ==> b == (variant.spec_bytes().len() > 0)
            && (*final(self.writer)).out() == (*old(self.writer)).out()
                + (if b && self.write_delimiter { seq![0x20u8] } else { BSeq::empty() })
                + spec_escape(variant.spec_bytes(), p_item(self.target, self.level)),
    {
        self.serialize_str(variant)
    }
//@end
//@extract simple_type::AtomicSerializer::serialize_seq | src/se/simple_type.rs :: impl<W: Write> Serializer for AtomicSerializer<W> :: fn serialize_seq | serves=C13 features=serialize n15=1
    fn serialize_seq(self, _len: Option<usize>) -> (r: Result<Self::SerializeSeq, Self::Error>)
        ensures r is Err
    {
        Err(SeError::Unsupported(
            errmsg_(),
        ))
    }
//@end
//@extract simple_type::AtomicSerializer::serialize_bool | src/se/simple_type.rs :: impl<W: Write> Serializer for AtomicSerializer<W> :: fn serialize_bool | serves=C13 features=serialize
    fn serialize_bool(self, value: bool) -> (r: Result<Self::Ok, Self::Error>)
            ensures r matches Ok(b) ==> b && (*final(self.writer)).out() == (*old(self.writer)).out() + (if self.write_delimiter { seq![0x20u8] } else { BSeq::empty() }) + bool_text(value),
        { let mut self__ = self;
        self__.write_str(if value { "true" } else { "false" })?;
        Ok(true)
    }
//@end
//@extract simple_type::AtomicSerializer::serialize_i8 | src/se/simple_type.rs :: impl<W: Write> Serializer for AtomicSerializer<W> :: invoke write_atomic :: fn serialize_i8 | serves=C13 features=serialize
//@rewrite &value.to_string() ==> disp_(value)
        fn serialize_i8(self, value: i8) -> (r: Result<Self::Ok, Self::Error>)
            ensures // an item that is a number: the delimiter (between items only), then its display text; reported as written
                r matches Ok(b) ==> b && (*final(self.writer)).out() == (*old(self.writer)).out() + (if self.write_delimiter { seq![0x20u8] } else { BSeq::empty() }) + disp(value),
        { let mut self__ = self;
            self__.write_str(disp_(value))?;
            Ok(true)
        }
//@end
//@extract simple_type::AtomicSerializer::serialize_i16 | src/se/simple_type.rs :: impl<W: Write> Serializer for AtomicSerializer<W> :: invoke write_atomic :: fn serialize_i16 | serves=C13 features=serialize
//@rewrite &value.to_string() ==> disp_(value)
        fn serialize_i16(self, value: i16) -> (r: Result<Self::Ok, Self::Error>)
            ensures // an item that is a number: the delimiter (between items only), then its display text; reported as written
                r matches Ok(b) ==> b && (*final(self.writer)).out() == (*old(self.writer)).out() + (if self.write_delimiter { seq![0x20u8] } else { BSeq::empty() }) + disp(value),
        { let mut self__ = self;
            self__.write_str(disp_(value))?;
            Ok(true)
        }
//@end
//@extract simple_type::AtomicSerializer::serialize_i32 | src/se/simple_type.rs :: impl<W: Write> Serializer for AtomicSerializer<W> :: invoke write_atomic :: fn serialize_i32 | serves=C13 features=serialize
//@rewrite &value.to_string() ==> disp_(value)
        fn serialize_i32(self, value: i32) -> (r: Result<Self::Ok, Self::Error>)
            ensures // an item that is a number: the delimiter (between items only), then its display text; reported as written
                r matches Ok(b) ==> b && (*final(self.writer)).out() == (*old(self.writer)).out() + (if self.write_delimiter { seq![0x20u8] } else { BSeq::empty() }) + disp(value),
        { let mut self__ = self;
            self__.write_str(disp_(value))?;
            Ok(true)
        }
//@end
//@extract simple_type::AtomicSerializer::serialize_i64 | src/se/simple_type.rs :: impl<W: Write> Serializer for AtomicSerializer<W> :: invoke write_atomic :: fn serialize_i64 | serves=C13 features=serialize
//@rewrite &value.to_string() ==> disp_(value)
        fn serialize_i64(self, value: i64) -> (r: Result<Self::Ok, Self::Error>)
            ensures // an item that is a number: the delimiter (between items only), then its display text; reported as written
                r matches Ok(b) ==> b && (*final(self.writer)).out() == (*old(self.writer)).out() + (if self.write_delimiter { seq![0x20u8] } else { BSeq::empty() }) + disp(value),
        { let mut self__ = self;
            self__.write_str(disp_(value))?;
            Ok(true)
        }
//@end
//@extract simple_type::AtomicSerializer::serialize_i128 | src/se/simple_type.rs :: impl<W: Write> Serializer for AtomicSerializer<W> :: invoke serde_if_integer128 :: invoke write_atomic :: fn serialize_i128 | serves=C13 features=serialize
//@rewrite &value.to_string() ==> disp_(value)
        fn serialize_i128(self, value: i128) -> (r: Result<Self::Ok, Self::Error>)
            ensures // an item that is a number: the delimiter (between items only), then its display text; reported as written
                r matches Ok(b) ==> b && (*final(self.writer)).out() == (*old(self.writer)).out() + (if self.write_delimiter { seq![0x20u8] } else { BSeq::empty() }) + disp(value),
        { let mut self__ = self;
            self__.write_str(disp_(value))?;
            Ok(true)
        }
//@end
//@extract simple_type::AtomicSerializer::serialize_u8 | src/se/simple_type.rs :: impl<W: Write> Serializer for AtomicSerializer<W> :: invoke write_atomic :: fn serialize_u8 | serves=C13 features=serialize
//@rewrite &value.to_string() ==> disp_(value)
        fn serialize_u8(self, value: u8) -> (r: Result<Self::Ok, Self::Error>)
            ensures // an item that is a number: the delimiter (between items only), then its display text; reported as written
                r matches Ok(b) ==> b && (*final(self.writer)).out() == (*old(self.writer)).out() + (if self.write_delimiter { seq![0x20u8] } else { BSeq::empty() }) + disp(value),
        { let mut self__ = self;
            self__.write_str(disp_(value))?;
            Ok(true)
        }
//@end
//@extract simple_type::AtomicSerializer::serialize_u16 | src/se/simple_type.rs :: impl<W: Write> Serializer for AtomicSerializer<W> :: invoke write_atomic :: fn serialize_u16 | serves=C13 features=serialize
//@rewrite &value.to_string() ==> disp_(value)
        fn serialize_u16(self, value: u16) -> (r: Result<Self::Ok, Self::Error>)
            ensures // an item that is a number: the delimiter (between items only), then its display text; reported as written
                r matches Ok(b) ==> b && (*final(self.writer)).out() == (*old(self.writer)).out() + (if self.write_delimiter { seq![0x20u8] } else { BSeq::empty() }) + disp(value),
        { let mut self__ = self;
            self__.write_str(disp_(value))?;
            Ok(true)
        }
//@end
//@extract simple_type::AtomicSerializer::serialize_u32 | src/se/simple_type.rs :: impl<W: Write> Serializer for AtomicSerializer<W> :: invoke write_atomic :: fn serialize_u32 | serves=C13 features=serialize
//@rewrite &value.to_string() ==> disp_(value)
        fn serialize_u32(self, value: u32) -> (r: Result<Self::Ok, Self::Error>)
            ensures // an item that is a number: the delimiter (between items only), then its display text; reported as written
                r matches Ok(b) ==> b && (*final(self.writer)).out() == (*old(self.writer)).out() + (if self.write_delimiter { seq![0x20u8] } else { BSeq::empty() }) + disp(value),
        { let mut self__ = self;
            self__.write_str(disp_(value))?;
            Ok(true)
        }
//@end
//@extract simple_type::AtomicSerializer::serialize_u64 | src/se/simple_type.rs :: impl<W: Write> Serializer for AtomicSerializer<W> :: invoke write_atomic :: fn serialize_u64 | serves=C13 features=serialize
//@rewrite &value.to_string() ==> disp_(value)
        fn serialize_u64(self, value: u64) -> (r: Result<Self::Ok, Self::Error>)
            ensures // an item that is a number: the delimiter (between items only), then its display text; reported as written
                r matches Ok(b) ==> b && (*final(self.writer)).out() == (*old(self.writer)).out() + (if self.write_delimiter { seq![0x20u8] } else { BSeq::empty() }) + disp(value),
        { let mut self__ = self;
            self__.write_str(disp_(value))?;
            Ok(true)
        }
//@end
//@extract simple_type::AtomicSerializer::serialize_u128 | src/se/simple_type.rs :: impl<W: Write> Serializer for AtomicSerializer<W> :: invoke serde_if_integer128 :: invoke write_atomic :: fn serialize_u128 | serves=C13 features=serialize
//@rewrite &value.to_string() ==> disp_(value)
        fn serialize_u128(self, value: u128) -> (r: Result<Self::Ok, Self::Error>)
            ensures // an item that is a number: the delimiter (between items only), then its display text; reported as written
                r matches Ok(b) ==> b && (*final(self.writer)).out() == (*old(self.writer)).out() + (if self.write_delimiter { seq![0x20u8] } else { BSeq::empty() }) + disp(value),
        { let mut self__ = self;
            self__.write_str(disp_(value))?;
            Ok(true)
        }
//@end
//@extract simple_type::AtomicSerializer::serialize_f32 | src/se/simple_type.rs :: impl<W: Write> Serializer for AtomicSerializer<W> :: invoke write_atomic :: fn serialize_f32 | serves=C13 features=serialize
//@rewrite &value.to_string() ==> disp_(value)
        fn serialize_f32(self, value: f32) -> (r: Result<Self::Ok, Self::Error>)
            ensures // an item that is a number: the delimiter (between items only), then its display text; reported as written
                r matches Ok(b) ==> b && (*final(self.writer)).out() == (*old(self.writer)).out() + (if self.write_delimiter { seq![0x20u8] } else { BSeq::empty() }) + disp(value),
        { let mut self__ = self;
            self__.write_str(disp_(value))?;
            Ok(true)
        }
//@end
//@extract simple_type::AtomicSerializer::serialize_f64 | src/se/simple_type.rs :: impl<W: Write> Serializer for AtomicSerializer<W> :: invoke write_atomic :: fn serialize_f64 | serves=C13 features=serialize
//@rewrite &value.to_string() ==> disp_(value)
        fn serialize_f64(self, value: f64) -> (r: Result<Self::Ok, Self::Error>)
            ensures // an item that is a number: the delimiter (between items only), then its display text; reported as written
                r matches Ok(b) ==> b && (*final(self.writer)).out() == (*old(self.writer)).out() + (if self.write_delimiter { seq![0x20u8] } else { BSeq::empty() }) + disp(value),
        { let mut self__ = self;
            self__.write_str(disp_(value))?;
            Ok(true)
        }
//@end
//@extract simple_type::AtomicSerializer::serialize_char | src/se/simple_type.rs :: impl<W: Write> Serializer for AtomicSerializer<W> :: fn serialize_char | serves=C13 features=serialize
//@rewrite &value.to_string() ==> disp_char_(value)
    fn serialize_char(self, value: char) -> (r: Result<Self::Ok, Self::Error>)
            ensures // C13: a character item goes through the item table like any string item
                r matches Ok(b) ==> b == (char_bytes(value).len() > 0)
                && (*final(self.writer)).out() == (*old(self.writer)).out()
                    + (if b && self.write_delimiter { seq![0x20u8] } else { BSeq::empty() })
                    + spec_escape(char_bytes(value), p_item(self.target, self.level)),
        {
        self.serialize_str(disp_char_(value))
    }
//@end
//@extract simple_type::AtomicSerializer::serialize_bytes | src/se/simple_type.rs :: impl<W: Write> Serializer for AtomicSerializer<W> :: fn serialize_bytes | serves=C13 features=serialize n15=1
    fn serialize_bytes(self, _value: &[u8]) -> (r: Result<Self::Ok, Self::Error>)
            ensures r is Err, *final(self.writer) == *old(self.writer),
        {
        //TODO: Customization point - allow user to decide how to encode bytes
        Err(SeError::Unsupported(
            errmsg_(),
        ))
    }
//@end
}
// ---- sequences of elements and tuple variants ----
impl<'w, 'k, W: Write> SerializeSeq for ElementSerializer<'w, 'k, W> {
    type Ok = WriteResult;
    type Error = SeError;
    open spec fn seq_ok(&self) -> bool { ind_ok(self.ser.indent) && is_xml_name(self.key.0@) }
    /// C13: same validated name for every item. (C19 does not REQUIRE the next item to be indented, so that the code sets the flag
    /// after each item is not demanded here; that it does so even after an item that wrote nothing -- a nested empty sequence -- is part
    /// of the known finding recorded at Struct::write_element#audit)
    open spec fn seq_elem_post(pre: Self, post: Self, r: Result<(), SeError>) -> bool {
        &&& post.key == pre.key && post.ser.level == pre.ser.level && post.ser.expand_empty_elements == pre.ser.expand_empty_elements
    }
    open spec fn seq_end_post(pre: Self, r: Result<WriteResult, SeError>) -> bool { r matches Ok(x) && x is Element }
//@extract element::ElementSerializer::seq_serialize_element | src/se/element.rs :: impl<'w, 'k, W: Write> SerializeSeq for ElementSerializer<'w, 'k, W> :: fn serialize_element | serves=C13,C19 features=serialize
    fn serialize_element<T>(&mut self, value: &T) -> Result<(), Self::Error>
    where
        T: ?Sized + Serialize,
    {
        value.serialize(ElementSerializer {
            ser: self.ser.new_seq_element_serializer(true),
            key: self.key,
        })?;
        // Write indent for the next element
        self.ser.write_indent = true;
        Ok(())
    }
//@end
//@extract element::ElementSerializer::seq_end | src/se/element.rs :: impl<'w, 'k, W: Write> SerializeSeq for ElementSerializer<'w, 'k, W> :: fn end | serves=C19 features=serialize
    fn end(self) -> Result<Self::Ok, Self::Error> {
        Ok(WriteResult::Element)
    }
//@end
}
impl<'w, 'k, W: Write> ElementSerializer<'w, 'k, W> {
// AUDIT COPY (known finding, C19): the same real function under the clause the property asks for -- an item of a sequence of elements
// RE-ENABLES the indent (flag false -> true) only if it wrote something. A NESTED EMPTY sequence as an item writes nothing and the flag is
// set all the same (the pattern repaired in Struct::write_element by 8d87d26; here the writer is a generic fmt::Write whose output the
// function cannot measure, so the local repair does not carry over). Expected to fail exactly this clause (known_findings.txt).
//@extract element::ElementSerializer::seq_serialize_element#audit | - | clone_of=element::ElementSerializer::seq_serialize_element rename=serialize_element:serialize_element__audit serves=C19 audit=1 nocanary=1
//@rewrite Result<(), Self::Error> ==> Result<(), SeError>
//@patch -> Result<(), Self::Error> ==> -> (r: Result<(), SeError>)
//@patch T: ?Sized + Serialize, ==> T: ?Sized + Serialize,\n        requires ind_ok(old(self).ser.indent) && is_xml_name(old(self).key.0@),\n        ensures r is Ok && final(self).ser.write_indent && !old(self).ser.write_indent ==> (*final(self).ser.writer).out() != (*old(self).ser.writer).out(), // C19: re-enabled only by writing markup
//@end
}
impl<'w, 'k, W: Write> SerializeTuple for ElementSerializer<'w, 'k, W> {
    type Ok = WriteResult;
    type Error = SeError;
    open spec fn tup_ok(&self) -> bool { ind_ok(self.ser.indent) && is_xml_name(self.key.0@) }
    open spec fn tup_elem_post(pre: Self, post: Self, r: Result<(), SeError>) -> bool {
        &&& post.key == pre.key && post.ser.level == pre.ser.level && post.ser.expand_empty_elements == pre.ser.expand_empty_elements
    }
    open spec fn tup_end_post(pre: Self, r: Result<WriteResult, SeError>) -> bool { r matches Ok(x) && x is Element }
//@extract element::ElementSerializer::tuple_serialize_element | src/se/element.rs :: impl<'w, 'k, W: Write> SerializeTuple for ElementSerializer<'w, 'k, W> :: fn serialize_element | serves=C13,C19 features=serialize
    fn serialize_element<T>(&mut self, value: &T) -> Result<(), Self::Error>
    where
        T: ?Sized + Serialize,
    {
        SerializeSeq::serialize_element(self, value)
    }
//@end
//@extract element::ElementSerializer::tuple_end | src/se/element.rs :: impl<'w, 'k, W: Write> SerializeTuple for ElementSerializer<'w, 'k, W> :: fn end | serves=C19 features=serialize
    fn end(self) -> Result<Self::Ok, Self::Error> {
        SerializeSeq::end(self)
    }
//@end
}
impl<'w, 'k, W: Write> SerializeTupleVariant for Tuple<'w, 'k, W> {
    type Ok = WriteResult;
    type Error = SeError;
    open spec fn tv_ok(&self) -> bool { self matches Tuple::Element(e) ==> ind_ok(e.ser.indent) && is_xml_name(e.key.0@) }
    open spec fn tv_field_post(pre: Self, post: Self, r: Result<(), SeError>) -> bool {
        (pre is Element) == (post is Element)
    }
    /// C19: a tuple variant written as elements is markup; written as `$text` (an xs:list) it is text in which
    /// whitespace counts: no indent may follow it
    open spec fn tv_end_post(pre: Self, r: Result<WriteResult, SeError>) -> bool {
        r matches Ok(x) ==> (pre is Element ==> x is Element) && (pre is Text ==> x is SensitiveText)
    }
//@extract element::Tuple::serialize_field | src/se/element.rs :: impl<'w, 'k, W: Write> SerializeTupleVariant for Tuple<'w, 'k, W> :: fn serialize_field | serves=C19 features=serialize
    fn serialize_field<T>(&mut self, value: &T) -> Result<(), Self::Error>
    where
        T: ?Sized + Serialize,
    {
        match self {
            Self::Element(ser) => SerializeTuple::serialize_element(ser, value),
            Self::Text(ser) => SerializeTuple::serialize_element(ser, value),
        }
    }
//@end
//@extract element::Tuple::end | src/se/element.rs :: impl<'w, 'k, W: Write> SerializeTupleVariant for Tuple<'w, 'k, W> :: fn end | serves=C19 features=serialize
//@rewrite .map(|_c| ==> .map(|_w: &'w mut W|
    fn end(self) -> Result<Self::Ok, Self::Error> {
        match self {
            Self::Element(ser) => SerializeTuple::end(ser),
            // Do not write indent after `$text` fields because it may be interpreted as
            // part of content when deserialize
            Self::Text(ser) => SerializeTuple::end(ser).map(|_w: &'w mut W| -> (x: WriteResult) ensures x is SensitiveText { WriteResult::SensitiveText }),
        }
    }
//@end
}

/// what Struct::end appends to close the tag that serialize_struct left open
pub open spec fn struct_close<'w, 'k, W: Write>(s: Struct<'w, 'k, W>) -> BSeq {
    let k = s.ser.key.0.spec_bytes();
    if s.children@.len() == 0 {
        if s.ser.ser.expand_empty_elements { seq![0x3eu8] + tag_close(k) } else { seq![0x2fu8, 0x3eu8] }
    } else {
        seq![0x3eu8] + encode_utf8(s.children@)
            + (if s.write_indent { match s.ser.ser.indent.st() {
                None => BSeq::empty(),
                Some(i) => nl_indent(i.indent_char, (if i.current_indent_len >= i.indent_size { i.current_indent_len - i.indent_size } else { 0 }) as nat),
            } } else { BSeq::empty() })
            + tag_close(k)
    }
}
// ---- structs: `<key attr="..">children</key>` -- attributes go straight to the writer, child elements are buffered ----
impl<'w, 'k, W: Write> Struct<'w, 'k, W> {
//@extract element::Struct::write_field | src/se/element.rs :: impl<'w, 'k, W: Write> Struct<'w, 'k, W> :: fn write_field | serves=C13 features=serialize
//@rewrite key.strip_prefix('@') ==> crate::escape_::strshim2::strip_prefix_char(key, '@')
    fn write_field<T>(&mut self, key: &str, value: &T) -> (r: Result<(), SeError>)
    where
        T: ?Sized + Serialize,
        requires old(self).st_ok(),
        ensures final(self).ser.key == old(self).ser.key, final(self).ser.ser.expand_empty_elements == old(self).ser.ser.expand_empty_elements,
            final(self).ser.ser.level == old(self).ser.ser.level,
            // C13: `@name` is an attribute only if `name` is a legal XML name
            r is Ok && key.spec_bytes().len() > 0 && key.spec_bytes()[0] == 0x40 ==> exists|n: &str| #[trigger] is_xml_name(n@) && n.spec_bytes() == key.spec_bytes().subrange(1, key.spec_bytes().len() as int),
    {
        //TODO: Customization point: allow user to determine if field is attribute or not
        if let Some(key) = crate::escape_::strshim2::strip_prefix_char(key, '@') {
            let key = XmlName::try_from(key)?;
            self.write_attribute(key, value)
        } else {
            self.write_element(key, value)
        }
    }
//@end
//@extract element::Struct::write_attribute | src/se/element.rs :: impl<'w, 'k, W: Write> Struct<'w, 'k, W> :: fn write_attribute | serves=C13 features=serialize
//@rewrite value.serialize(SimpleTypeSerializer { ==> value.serialize_attr_value(SimpleTypeSerializer {
    fn write_attribute<T>(&mut self, key: XmlName, value: &T) -> (r: Result<(), SeError>)
    where
        T: ?Sized + Serialize,
        // attributes go to the writer (the tag is still open); the buffered children and the flags are not touched
        ensures final(self).ser.key == old(self).ser.key, final(self).ser.ser.expand_empty_elements == old(self).ser.ser.expand_empty_elements,
            final(self).ser.ser.level == old(self).ser.ser.level,
            final(self).children@ == old(self).children@, final(self).write_indent == old(self).write_indent,
            final(self).ser.ser.indent.st() == old(self).ser.ser.indent.st(),
            // C13: the value is closed by the quote that opened it (the one its serializer escapes: `serialize_attr_value`)
            r is Ok ==> (*final(self).ser.ser.writer).out().len() > 0 && (*final(self).ser.ser.writer).out().last() == 0x22u8,
    {
        //TODO: Customization point: each attribute on new line
        self.ser.ser.writer.write_char(' ')?;
        self.ser.ser.writer.write_str(key.0)?;
        self.ser.ser.writer.write_char('=')?;

        //TODO: Customization point: preferred quote style
        self.ser.ser.writer.write_char('"')?;
        proof { lemma_ascii1('"'); assert((*self.ser.ser.writer).out().last() == 0x22u8); }
        value.serialize_attr_value(SimpleTypeSerializer {
            writer: &mut self.ser.ser.writer,
            target: QuoteTarget::DoubleQAttr,
            level: self.ser.ser.level,
        })?;
        self.ser.ser.writer.write_char('"')?;

        Ok(())
    }
//@end
//@extract element::Struct::write_element | src/se/element.rs :: impl<'w, 'k, W: Write> Struct<'w, 'k, W> :: fn write_element | serves=C13,C19 features=serialize
    /// Writes `value` either as a text content, or as an element.
    ///
    /// If `key` has a magic value [`TEXT_KEY`], then `value` serialized as a
    /// [simple type].
    ///
    /// If `key` has a magic value [`VALUE_KEY`], then `value` serialized as a
    /// [content] without wrapping in tags, otherwise it is wrapped in
    /// `<${key}>...</${key}>`.
    ///
    /// [simple type]: SimpleTypeSerializer
    /// [content]: ContentSerializer
    fn write_element<T>(&mut self, key: &str, value: &T) -> (r: Result<(), SeError>)
    where
        T: ?Sized + Serialize,
        requires old(self).st_ok(),
        ensures final(self).ser.key == old(self).ser.key, final(self).ser.ser.expand_empty_elements == old(self).ser.ser.expand_empty_elements,
            final(self).ser.ser.level == old(self).ser.ser.level,
            // child elements are BUFFERED: the writer -- whose tag is still open -- is not touched
            (*final(self).ser.ser.writer).out() == (*old(self).ser.ser.writer).out(), *final(final(self).ser.ser.writer) == *final(old(self).ser.ser.writer),
            // C19: after a `$text` field no indent; C13: any other key but `$value` is a tag name and must be a legal one
            r is Ok && key@ == "$text"@ ==> !final(self).write_indent,
            r is Ok && key@ != "$text"@ && key@ != "$value"@ ==> is_xml_name(key@),
            // C19 (taken from the property: indentation only in front of markup that does not follow text): a field written as an
            // element RE-ENABLES the indent only if it wrote something -- then `</key>` or `<key/>` is the last thing written. (An empty
            // sequence writes nothing; the pinned tree set the flag all the same: fixed, known_findings.txt)
            r is Ok && key@ != "$text"@ && key@ != "$value"@ && final(self).write_indent && !old(self).write_indent ==> final(self).children@ != old(self).children@,
    {
        let written = self.children.len();
        let ser = ContentSerializer {
            writer: &mut self.children,
            level: self.ser.ser.level,
            indent: self.ser.ser.indent.borrow(),
            // If previous field does not require indent, do not write it
            write_indent: self.write_indent,
            allow_primitive: true,
            expand_empty_elements: self.ser.ser.expand_empty_elements,
        };

        if key == TEXT_KEY {
            value.serialize(TextSerializer(ser.into_simple_type_serializer()?))?;
            // Text was written so we don't need to indent next field
            self.write_indent = false;
        } else if key == VALUE_KEY {
            // If element was written then we need to indent next field unless it is a text field
            self.write_indent = value.serialize(ser)?.allow_indent();
        } else {
            value.serialize(ElementSerializer {
                key: XmlName::try_from(key)?,
                ser,
            })?;
            // Element was written so we need to indent next field unless it is a text field
            // (an empty sequence writes nothing: the previous decision stays in force)
            if self.children.len() != written {
                self.write_indent = true;
            }
        }
        Ok(())
    }
//@end
}
impl<'w, 'k, W: Write> SerializeStruct for Struct<'w, 'k, W> {
    type Ok = WriteResult;
    type Error = SeError;
    open spec fn st_ok(&self) -> bool { ind_ok(self.ser.ser.indent) && is_xml_name(self.ser.key.0@) }
    /// C13: whatever fields are written, the tag that will be closed is the tag that was opened
    open spec fn st_field_post(pre: Self, post: Self, key: &'static str, r: Result<(), SeError>) -> bool {
        post.ser.key == pre.ser.key && post.ser.ser.expand_empty_elements == pre.ser.ser.expand_empty_elements && post.ser.ser.level == pre.ser.ser.level
    }
    open spec fn st_end_post(pre: Self, r: Result<WriteResult, SeError>) -> bool { true }
//@extract element::Struct::serialize_field | src/se/element.rs :: impl<'w, 'k, W: Write> SerializeStruct for Struct<'w, 'k, W> :: fn serialize_field | serves=C13 features=serialize
    fn serialize_field<T>(&mut self, key: &'static str, value: &T) -> Result<(), Self::Error>
    where
        T: ?Sized + Serialize,
    {
        self.write_field(key, value)
    }
//@end
//@extract element::Struct::end | src/se/element.rs :: impl<'w, 'k, W: Write> SerializeStruct for Struct<'w, 'k, W> :: fn end | serves=C13,C19 features=serialize
    fn end(self) -> (r: Result<Self::Ok, Self::Error>)
        ensures
            // C13: the tag opened by serialize_struct is closed, with the SAME name: `/>` (or `></key>`) when nothing was
            // buffered, else `>` + the buffered children + (C19: the indent of the outer level, if the last child allows
            // it) + `</key>`; classified as markup
            r matches Ok(x) ==> x is Element && (*final(self.ser.ser.writer)).out() == (*old(self.ser.ser.writer)).out() + struct_close(self),
    { let mut self__ = self;
        proof { lemma_nl(); lemma_lits(); }
        let ghost o0 = (*self__.ser.ser.writer).out();
        let ghost k = self.ser.key.0.spec_bytes();
        self__.ser.ser.indent.decrease();
        let ghost ib = self__.ser.ser.indent.bytes();

        if self__.children.is_empty() {
            if self__.ser.ser.expand_empty_elements {
                self__.ser.ser.writer.write_str("></")?;
                self__.ser.ser.writer.write_str(self__.ser.key.0)?;
                self__.ser.ser.writer.write_char('>')?;
            } else {
                self__.ser.ser.writer.write_str("/>")?;
            }
        } else {
            self__.ser.ser.writer.write_char('>')?;
            self__.ser.ser.writer.write_str(&self__.children)?;

            if self__.write_indent {
                self__.ser.ser.indent.write_indent(&mut self__.ser.ser.writer)?;
            }

            self__.ser.ser.writer.write_str("</")?;
            self__.ser.ser.writer.write_str(self__.ser.key.0)?;
            self__.ser.ser.writer.write_char('>')?;
            proof {
                let c = encode_utf8(self.children@);
                let i2 = if self.write_indent { ib } else { BSeq::empty() };
                assert(o0 + seq![0x3eu8] + c + i2 + seq![0x3cu8, 0x2fu8] + k + seq![0x3eu8] =~= o0 + (seq![0x3eu8] + c + i2 + tag_close(k)));
                assert(o0 + seq![0x3eu8] + c + BSeq::empty() =~= o0 + seq![0x3eu8] + c);
            }
        }
        proof {
            if self.children@.len() == 0 {
                assert(o0 + seq![0x3eu8, 0x3cu8, 0x2fu8] + k + seq![0x3eu8] =~= o0 + (seq![0x3eu8] + tag_close(k)));
            }
        }
        Ok(WriteResult::Element)
    }
//@end
}

// ---- maps: entries are struct fields whose names are computed; every key goes through Struct::write_field ----
impl<'w, 'k, W: Write> Map<'w, 'k, W> {
//@extract element::Map::make_key | src/se/element.rs :: impl<'w, 'k, W: Write> Map<'w, 'k, W> :: fn make_key | serves=C13 features=serialize
    fn make_key<T>(&mut self, key: &T) -> (r: Result<String, SeError>)
    where
        T: ?Sized + Serialize,
        // the key is serialized into a string of its own: the map is not touched
        ensures *final(self) == *old(self),
    {
        key.serialize(QNameSerializer {
            writer: String::new(),
        })
    }
//@end
}
impl<'w, 'k, W: Write> SerializeMap for Map<'w, 'k, W> {
    type Ok = WriteResult;
    type Error = SeError;
    open spec fn map_ok(&self) -> bool { self.ser.st_ok() }
    /// C13: whatever entries are written, the tag that will be closed is the tag that was opened
    open spec fn map_step_post(pre: Self, post: Self) -> bool {
        post.ser.ser.key == pre.ser.ser.key && post.ser.ser.ser.expand_empty_elements == pre.ser.ser.ser.expand_empty_elements && post.ser.ser.ser.level == pre.ser.ser.ser.level
    }
    open spec fn map_end_post(pre: Self, r: Result<WriteResult, SeError>) -> bool { r matches Ok(x) ==> x is Element && pre.key is None }
//@extract element::Map::serialize_key | src/se/element.rs :: impl<'w, 'k, W: Write> SerializeMap for Map<'w, 'k, W> :: fn serialize_key | serves=C13 features=serialize n15=1
    fn serialize_key<T>(&mut self, key: &T) -> Result<(), Self::Error>
    where
        T: ?Sized + Serialize,
    {
        if let Some(_) = self.key.take() {
            return Err(SeError::Custom(
                errstr_(),
            ));
        }
        self.key = Some(self.make_key(key)?);
        Ok(())
    }
//@end
//@extract element::Map::serialize_value | src/se/element.rs :: impl<'w, 'k, W: Write> SerializeMap for Map<'w, 'k, W> :: fn serialize_value | serves=C13 features=serialize n15=1
    fn serialize_value<T>(&mut self, value: &T) -> Result<(), Self::Error>
    where
        T: ?Sized + Serialize,
    {
        if let Some(key) = self.key.take() {
            return self.ser.write_field(&key, value);
        }
        Err(SeError::Custom(
            errstr_(),
        ))
    }
//@end
//@extract element::Map::serialize_entry | src/se/element.rs :: impl<'w, 'k, W: Write> SerializeMap for Map<'w, 'k, W> :: fn serialize_entry | serves=C13 features=serialize
    fn serialize_entry<K, V>(&mut self, key: &K, value: &V) -> Result<(), Self::Error>
    where
        K: ?Sized + Serialize,
        V: ?Sized + Serialize,
    {
        let key = self.make_key(key)?;
        self.ser.write_field(&key, value)
    }
//@end
//@extract element::Map::end | src/se/element.rs :: impl<'w, 'k, W: Write> SerializeMap for Map<'w, 'k, W> :: fn end | serves=C13 features=serialize n15=1
    fn end(self) -> Result<Self::Ok, Self::Error> { let mut self__ = self;
        if let Some(key) = self__.key.take() {
            return Err(SeError::Custom(errstr_()));
        }
        SerializeStruct::end(self__.ser)
    }
//@end
}
}
