// ---------------------------------------------------------------------------------------------
// U-sese (feature `serialize`): the tag-writing layer of the serde serializer (src/se/mod.rs,
// src/se/content.rs, src/se/element.rs). C13 mechanism: every tag is written through functions that
// (a) take an already validated XmlName, (b) write `<name ...>` and the matching `</name>` (or one
// self-closed tag) and nothing else; every raw name is turned into an XmlName by XmlName::try_from
// (unit xmlname: exactly the legal names pass). C19 mechanism: indentation is written only through
// write_indent -- a line break plus the current indent, only when the flag is set, which is then
// cleared -- and the classification (WriteResult) returned to the caller decides whether the flag is
// set again: text never allows it.
// ---------------------------------------------------------------------------------------------
pub mod sec_ {
use super::*;
use vstd::prelude::*;
use vstd::string::*;
use vstd::utf8::*;
use crate::writer_::Indentation;
use crate::se_::{XmlName, SeError, is_xml_name};
use crate::seesc_::{QuoteLevel, QuoteTarget};
use core::result::Result;
use std::fmt;
use std::str::{from_utf8, Utf8Error};

/// Model of std::fmt::Write (trusted, A-fmtsink): a successful write appends exactly the UTF-8 bytes of its argument;
/// a failed one may have appended anything (the serializer returns the error and the document is abandoned)
pub trait Write {
    /// everything written so far
    spec fn out(&self) -> Seq<u8>;
    fn write_str(&mut self, s: &str) -> (r: Result<(), core::fmt::Error>)
        ensures r is Ok ==> final(self).out() == old(self).out() + s.spec_bytes();
    fn write_char(&mut self, c: char) -> (r: Result<(), core::fmt::Error>)
        ensures r is Ok ==> final(self).out() == old(self).out() + encode_utf8(seq![c]);
}
/// std: `impl<W: fmt::Write + ?Sized> fmt::Write for &mut W` forwards to the referent
impl<'a, W: Write> Write for &'a mut W {
    open spec fn out(&self) -> Seq<u8> { (**self).out() }
    /// ... and keeps referring to the same writer
    fn write_str(&mut self, s: &str) -> (r: Result<(), core::fmt::Error>)
        ensures *final(*final(self)) == *final(*old(self))
    { (**self).write_str(s) }
    fn write_char(&mut self, c: char) -> (r: Result<(), core::fmt::Error>)
        ensures *final(*final(self)) == *final(*old(self))
    { (**self).write_char(c) }
}

/// std::str::from_utf8 (documented contract): the same bytes as a string, or an error if they are not UTF-8
pub assume_specification<'a>[ core::str::from_utf8 ](v: &'a [u8]) -> (r: Result<&'a str, core::str::Utf8Error>)
    ensures match r { Ok(s) => s.spec_bytes() == v@, Err(_) => !valid_utf8(v@) };

impl vstd::std_specs::convert::FromSpecImpl<core::fmt::Error> for SeError {
    open spec fn obeys_from_spec() -> bool { true }
    open spec fn from_spec(e: core::fmt::Error) -> Self { SeError::Fmt(e) }
}
impl From<core::fmt::Error> for SeError {
//@extract errors::SeError::from_fmt | src/errors.rs :: mod serialize :: impl From<fmt::Error> for SeError :: fn from | serves=C13,C19 features=serialize
        fn from(e: fmt::Error) -> (r: Self)
            ensures r == SeError::Fmt(e)
        {
            Self::Fmt(e)
        }
//@end
}
impl vstd::std_specs::convert::FromSpecImpl<core::str::Utf8Error> for SeError {
    open spec fn obeys_from_spec() -> bool { true }
    open spec fn from_spec(e: core::str::Utf8Error) -> Self { SeError::NonEncodable(e) }
}
impl From<core::str::Utf8Error> for SeError {
//@extract errors::SeError::from_utf8 | src/errors.rs :: mod serialize :: impl From<Utf8Error> for SeError :: fn from | serves=C13,C19 features=serialize
        fn from(e: Utf8Error) -> (r: Self)
            ensures r == SeError::NonEncodable(e)
        {
            Self::NonEncodable(e)
        }
//@end
}

/// the UTF-8 encodings of the ASCII characters the tag writers emit
pub proof fn lemma_nl()
    ensures encode_utf8(seq!['\n']) == seq![0x0au8], encode_utf8(seq!['<']) == seq![0x3cu8], encode_utf8(seq!['>']) == seq![0x3eu8],
        encode_utf8(seq!['=']) == seq![0x3du8], encode_utf8(seq!['"']) == seq![0x22u8], encode_utf8(seq![' ']) == seq![0x20u8],
{
    lemma_ascii1('\n'); lemma_ascii1('<'); lemma_ascii1('>'); lemma_ascii1('='); lemma_ascii1('"'); lemma_ascii1(' ');
}
/// a sequence of `n` bytes that are all `c` is THE sequence of n times c
pub proof fn lemma_fill(c: u8, n: nat)
    ensures forall|s: Seq<u8>| s.len() == n && (forall|k: int| 0 <= k < s.len() ==> s[k] == c) ==> s == #[trigger] (seq![0x0au8] + s).subrange(1, 1 + n as int) && s == Seq::new(n, |k: int| c)
{
    assert forall|s: Seq<u8>| s.len() == n && (forall|k: int| 0 <= k < s.len() ==> s[k] == c) implies s == #[trigger] (seq![0x0au8] + s).subrange(1, 1 + n as int) && s == Seq::new(n, |k: int| c) by {
        assert(s =~= Seq::new(n, |k: int| c));
        assert(s =~= (seq![0x0au8] + s).subrange(1, 1 + n as int));
    }
}
pub proof fn lemma_ascii1(c: char)
    requires (c as u32) < 128
    ensures encode_utf8(seq![c]) == seq![c as u8]
{
    let s = seq![c];
    is_ascii_chars_encode_utf8(s);
    assert(encode_utf8(s) =~= seq![c as u8]);
}

//@extract se::WriteResult | src/se/mod.rs :: enum WriteResult | serves=C19 features=serialize
 #[derive(Clone, Copy)]
 pub enum WriteResult {
    /// Text with insignificant spaces was written, for example a number. Adding indent to the
    /// serialized data does not change meaning of the data.
    Text,
    /// The XML tag was written. Adding indent to the serialized data does not change meaning of the data.
    Element,
    /// Nothing was written (i. e. serialized type not represented in XML a all). Adding indent to the
    /// serialized data does not change meaning of the data. This is returned for units, unit structs
    /// and unit variants.
    Nothing,
    /// Text with significant spaces was written, for example a string. Adding indent to the
    /// serialized data may change meaning of the data.
    SensitiveText,
    /// `None` was serialized and nothing was written. `None` does not represented in XML,
    /// but adding indent after it may change meaning of the data.
    SensitiveNothing,
}
//@end
impl WriteResult {
//@extract se::WriteResult::allow_indent | src/se/mod.rs :: impl WriteResult :: fn allow_indent | serves=C19 features=serialize
 pub fn allow_indent(&self) -> (r: bool)
        // C19: after text -- and after a skipped `None`, which may sit inside text -- no indentation may follow
        ensures r == (*self is Element || *self is Nothing)
 {
        matches!(self, Self::Element | Self::Nothing)
    }
//@end
//@extract se::WriteResult::is_text | src/se/mod.rs :: impl WriteResult :: fn is_text | serves=C19 features=serialize
 pub fn is_text(&self) -> (r: bool)
        ensures r == (*self is Text || *self is SensitiveText)
 {
        matches!(self, Self::Text | Self::SensitiveText)
    }
//@end
}

//@extract se::Indent | src/se/mod.rs :: enum Indent | serves=C19 features=serialize
 pub enum Indent<'i> {
    /// No indent should be written before the element
    None,
    /// The specified indent should be written. The type owns the buffer with indent
    Owned(Indentation),
    /// The specified indent should be written. The type borrows buffer with indent
    /// from its owner
    Borrow(&'i mut Indentation),
}
//@end
impl<'i> Indent<'i> {
    /// the indentation state, if indentation is on
    pub open spec fn st(&self) -> Option<Indentation> {
        match self { Indent::None => None, Indent::Owned(i) => Some(*i), Indent::Borrow(i) => Some(**i) }
    }
    /// the state the owner of a borrowed indentation will find when the borrow ends
    #[verifier::prophetic]
    pub open spec fn fut(&self) -> Option<Indentation> {
        match self { Indent::Borrow(i) => Some(*final(*i)), _ => None }
    }
    #[verifier::prophetic]
    pub open spec fn fin(&self) -> Option<Indentation> {
        match self { Indent::None => None, Indent::Owned(i) => Some(*i), Indent::Borrow(i) => Some(*final(*i)) }
    }
    pub open spec fn wf(&self) -> bool { self.st() matches Some(i) ==> i.inv() }
    /// C19: ALL that indentation ever writes: nothing, or one line break and the current indent
    pub open spec fn bytes(&self) -> Seq<u8> {
        match self.st() { None => Seq::empty(), Some(i) => nl_indent(i.indent_char, i.current_indent_len as nat) }
    }
//@extract se::Indent::borrow | src/se/mod.rs :: impl<'i> Indent<'i> :: fn borrow | serves=C19 features=serialize
 pub fn borrow(&mut self) -> (r: Indent)
        ensures
            // the child sees the same state; what the child leaves is what the parent finds
            r.st() == old(self).st(), final(self).st() == r.fin(), !(r is Owned), final(self).fut() == old(self).fut(),
 {
        match self {
            Self::None => Indent::None,
            Self::Owned(ref mut i) => Indent::Borrow(i),
            Self::Borrow(i) => Indent::Borrow(i),
        }
    }
//@end
//@extract se::Indent::increase | src/se/mod.rs :: impl<'i> Indent<'i> :: fn increase | serves=C19 features=serialize
 pub fn increase(&mut self)
        requires old(self).wf(), old(self).st() matches Some(i) ==> i.current_indent_len + i.indent_size <= usize::MAX,
        ensures final(self).wf(), final(self).fut() == old(self).fut(),
            match old(self).st() {
                None => final(self).st() is None,
                Some(i) => final(self).st() matches Some(j) && j.current_indent_len == i.current_indent_len + i.indent_size
                    && j.indent_char == i.indent_char && j.indent_size == i.indent_size,
            },
 {
        match self {
            Self::None => {}
            Self::Owned(i) => i.grow(),
            Self::Borrow(i) => i.grow(),
        }
    }
//@end
//@extract se::Indent::decrease | src/se/mod.rs :: impl<'i> Indent<'i> :: fn decrease | serves=C19 features=serialize
 pub fn decrease(&mut self)
        requires old(self).wf(),
        ensures final(self).wf(), final(self).fut() == old(self).fut(),
            match old(self).st() {
                None => final(self).st() is None,
                Some(i) => final(self).st() matches Some(j) && j.indent_char == i.indent_char && j.indent_size == i.indent_size
                    && j.current_indent_len == (if i.current_indent_len >= i.indent_size { i.current_indent_len - i.indent_size } else { 0 }),
            },
 {
        match self {
            Self::None => {}
            Self::Owned(i) => i.shrink(),
            Self::Borrow(i) => i.shrink(),
        }
    }
//@end
//@extract se::Indent::write_indent | src/se/mod.rs :: impl<'i> Indent<'i> :: fn write_indent | serves=C19 features=serialize
//@rewrite <W: std::fmt::Write>(&mut self, mut writer: W) ==> <W: Write>(&mut self, mut writer: &mut &mut W)
 pub fn write_indent<W: Write>(&mut self, mut writer: &mut &mut W) -> (r: Result<(), SeError>)
        requires old(self).wf(),
        ensures
            final(self).st() == old(self).st(), final(self).fut() == old(self).fut(),
            // the caller's writer is still the same writer ...
            *final(*final(writer)) == *final(*old(writer)),
            // ... and C19: exactly one line break and the current indent were written -- or nothing
            r is Ok ==> (*final(writer)).out() == (*old(writer)).out() + old(self).bytes(),
 {
        proof { lemma_nl(); }
        match self {
            Self::None => {}
            Self::Owned(i) => {
                proof { lemma_fill(i.indent_char, i.current_indent_len as nat); }
                writer.write_char('\n')?;
                writer.write_str(from_utf8(i.current())?)?;
            }
            Self::Borrow(i) => {
                proof { lemma_fill(i.indent_char, i.current_indent_len as nat); }
                writer.write_char('\n')?;
                writer.write_str(from_utf8(i.current())?)?;
            }
        }
        Ok(())
    }
//@end
}

//@extract simple_type::SimpleTypeSerializer | src/se/simple_type.rs :: struct SimpleTypeSerializer | serves=C13 features=serialize
 pub struct SimpleTypeSerializer<W: Write> {
    /// Writer to which this serializer writes content
    pub writer: W,
    /// Target for which element is serializing. Affects additional characters to escape.
    pub target: QuoteTarget,
    /// Defines which XML characters need to be escaped
    pub level: QuoteLevel,
}
//@end

//@extract content::ContentSerializer | src/se/content.rs :: struct ContentSerializer | serves=C13,C19 features=serialize
 pub struct ContentSerializer<'w, 'i, W: Write> {
    pub writer: &'w mut W,
    /// Defines which XML characters need to be escaped in text content
    pub level: QuoteLevel,
    /// Current indentation level. Note, that `Indent::None` means that there is
    /// no indentation at all, but `write_indent == false` means only, that indent
    /// writing is disabled in this instantiation of `ContentSerializer`, but
    /// child serializers should have access to the actual state of indentation.
    pub(super) indent: Indent<'i>,
    /// If `true`, then current indent will be written before writing the content,
    /// but only if content is not empty. This flag is reset after writing indent.
    pub write_indent: bool,
    /// If `true`, then primitive types that serializes to a text content without
    /// surrounding tag will be allowed, otherwise the [`SeError::Unsupported`]
    /// will be returned.
    ///
    /// This method protects from the situation when two consequent values serialized
    /// as a text that makes it impossible to distinguish between them during
    /// deserialization. Instead of ambiguous serialization the error is returned.
    pub allow_primitive: bool,
    // If `true`, then empty elements will be serialized as `<element></element>`
    // instead of `<element/>`.
    pub expand_empty_elements: bool,
}
//@end
/// `<name>`, `</name>`, and the empty element in its two spellings
pub open spec fn tag_open(n: Seq<u8>) -> Seq<u8> { seq![0x3cu8] + n + seq![0x3eu8] }
pub open spec fn tag_close(n: Seq<u8>) -> Seq<u8> { seq![0x3cu8, 0x2fu8] + n + seq![0x3eu8] }
pub open spec fn tag_empty(n: Seq<u8>, expand: bool) -> Seq<u8> {
    if expand { tag_open(n) + tag_close(n) } else { seq![0x3cu8] + n + seq![0x2fu8, 0x3eu8] }
}
pub proof fn lemma_lits()
    ensures "<".spec_bytes() == seq![0x3cu8], "/>".spec_bytes() == seq![0x2fu8, 0x3eu8], "></".spec_bytes() == seq![0x3eu8, 0x3cu8, 0x2fu8],
        "</".spec_bytes() == seq![0x3cu8, 0x2fu8],
{
    reveal_strlit("<"); reveal_strlit("/>"); reveal_strlit("></"); reveal_strlit("</");
    is_ascii_chars_encode_utf8("<"@); is_ascii_chars_encode_utf8("/>"@); is_ascii_chars_encode_utf8("></"@); is_ascii_chars_encode_utf8("</"@);
    assert("<".spec_bytes() =~= seq![0x3cu8]); assert("/>".spec_bytes() =~= seq![0x2fu8, 0x3eu8]);
    assert("></".spec_bytes() =~= seq![0x3eu8, 0x3cu8, 0x2fu8]); assert("</".spec_bytes() =~= seq![0x3cu8, 0x2fu8]);
}
impl<'w, 'i, W: Write> ContentSerializer<'w, 'i, W> {
    /// C19: what this serializer writes in front of its first markup: the indent if the flag is set, else nothing
    pub open(crate) spec fn pre(&self) -> Seq<u8> { if self.write_indent { self.indent.bytes() } else { Seq::empty() } }
//@extract content::ContentSerializer::into_simple_type_serializer_impl | src/se/content.rs :: impl<'w, 'i, W: Write> ContentSerializer<'w, 'i, W> :: fn into_simple_type_serializer_impl | serves=C13 features=serialize
 pub(crate) fn into_simple_type_serializer_impl(self) -> (r: SimpleTypeSerializer<&'w mut W>)
        // text content: the same writer, the Text escaping rules, the same quoting level
        ensures (*r.writer).out() == (*old(self.writer)).out(), *final(r.writer) == *final(self.writer), r.target is Text, r.level == self.level,
 {
        //TODO: Customization point: choose between CDATA and Text representation
        SimpleTypeSerializer {
            writer: self.writer,
            target: QuoteTarget::Text,
            level: self.level,
        }
    }
//@end
//@extract content::ContentSerializer::into_simple_type_serializer | src/se/content.rs :: impl<'w, 'i, W: Write> ContentSerializer<'w, 'i, W> :: fn into_simple_type_serializer | serves=C13 features=serialize
 pub(crate) fn into_simple_type_serializer(self) -> (r: Result<SimpleTypeSerializer<&'w mut W>, SeError>)
        ensures (r is Ok) == self.allow_primitive,
            r matches Ok(x) ==> (*x.writer).out() == (*old(self.writer)).out() && *final(x.writer) == *final(self.writer) && x.target is Text && x.level == self.level,
            r is Err ==> *final(self.writer) == *old(self.writer),
 {
        if self.allow_primitive {
            Ok(self.into_simple_type_serializer_impl())
        } else {
            Err(SeError::Unsupported("consequent primitives would be serialized without delimiter and cannot be deserialized back".into()))
        }
    }
//@end
//@extract content::ContentSerializer::new_seq_element_serializer | src/se/content.rs :: impl<'w, 'i, W: Write> ContentSerializer<'w, 'i, W> :: fn new_seq_element_serializer | serves=C13,C19 features=serialize
 pub(crate) fn new_seq_element_serializer(&mut self, allow_primitive: bool) -> (r: ContentSerializer<W>)
        ensures
            // the child writes to the same writer, with the same settings and the same indentation state; what it leaves
            // behind (bytes written, indentation level) is what this serializer continues with
            (*r.writer).out() == (*old(self).writer).out(), (*final(self).writer).out() == (*final(r.writer)).out(),
            *final(final(self).writer) == *final(old(self).writer),
            r.level == old(self).level, r.write_indent == old(self).write_indent, r.allow_primitive == allow_primitive,
            r.expand_empty_elements == old(self).expand_empty_elements,
            r.indent.st() == old(self).indent.st(), final(self).indent.st() == r.indent.fin(), !(r.indent is Owned),
            final(self).indent.fut() == old(self).indent.fut(),
            final(self).level == old(self).level, final(self).write_indent == old(self).write_indent,
            final(self).allow_primitive == old(self).allow_primitive, final(self).expand_empty_elements == old(self).expand_empty_elements,
 {
        ContentSerializer {
            writer: self.writer,
            level: self.level,
            indent: self.indent.borrow(),
            write_indent: self.write_indent,
            allow_primitive,
            expand_empty_elements: self.expand_empty_elements,
        }
    }
//@end
//@extract content::ContentSerializer::write_empty | src/se/content.rs :: impl<'w, 'i, W: Write> ContentSerializer<'w, 'i, W> :: fn write_empty | serves=C13,C19 features=serialize
 pub(crate) fn write_empty(self, name: XmlName) -> (r: Result<WriteResult, SeError>)
        requires self.indent.wf(),
        ensures
            // C13/C19: exactly one self-closed tag with this name (`<name/>`, or `<name></name>` when empty elements are
            // expanded), preceded by the indent if the flag is set; classified as markup
            r matches Ok(x) ==> x is Element
                && (*final(self.writer)).out() == (*old(self.writer)).out() + self.pre() + tag_empty(name.0.spec_bytes(), self.expand_empty_elements),
 { let mut self__ = self;
        proof { lemma_nl(); lemma_lits(); }
        let ghost o0 = (*self__.writer).out();
        let ghost n = name.0.spec_bytes();
        self__.write_indent()?;
        if self__.expand_empty_elements {
            self__.writer.write_char('<')?;
            self__.writer.write_str(name.0)?;
            self__.writer.write_str("></")?;
            self__.writer.write_str(name.0)?;
            self__.writer.write_char('>')?;
        } else {
            self__.writer.write_str("<")?;
            self__.writer.write_str(name.0)?;
            self__.writer.write_str("/>")?;
        }
        proof {
            let o1 = o0 + self.pre();
            if self.expand_empty_elements {
                assert(o1 + seq![0x3cu8] + n + seq![0x3eu8, 0x3cu8, 0x2fu8] + n + seq![0x3eu8] =~= o1 + tag_empty(n, true));
            } else {
                assert(o1 + seq![0x3cu8] + n + seq![0x2fu8, 0x3eu8] =~= o1 + tag_empty(n, false));
            }
        }
        Ok(WriteResult::Element)
    }
//@end
//@extract content::ContentSerializer::write_wrapped | src/se/content.rs :: impl<'w, 'i, W: Write> ContentSerializer<'w, 'i, W> :: fn write_wrapped | serves=C13,C19 features=serialize
 pub(crate) fn write_wrapped<S>(
        self,
        name: XmlName,
        serialize: S,
    ) -> (r: Result<WriteResult, SeError>)
    where
        S: for<'a> FnOnce(SimpleTypeSerializer<&'a mut W>) -> Result<&'a mut W, SeError>,
        requires self.indent.wf(),
            // the content writer accepts any simple-type serializer
            forall|x: SimpleTypeSerializer<&mut W>| serialize.requires((x,)),
        ensures
            // C13/C19: the indent (if the flag is set) and `<name>` are written BEFORE the content writer runs -- on the same
            // writer, with the Text escaping rules and this quoting level --, and `</name>` with the SAME name is appended
            // to what it returns; classified as markup
            r matches Ok(x) ==> x is Element && exists|sts: SimpleTypeSerializer<&mut W>, w2: &mut W|
                #[trigger] serialize.ensures((sts,), Result::<&mut W, SeError>::Ok(w2))
                && (*sts.writer).out() == (*old(self.writer)).out() + self.pre() + tag_open(name.0.spec_bytes())
                && sts.target is Text && sts.level == self.level && *final(sts.writer) == *final(self.writer)
                && (*final(w2)).out() == (*w2).out() + tag_close(name.0.spec_bytes()),
    { let mut self__ = self;
        proof { lemma_nl(); lemma_lits(); }
        let ghost o0 = (*self__.writer).out();
        let ghost n = name.0.spec_bytes();
        self__.write_indent()?;
        self__.writer.write_char('<')?;
        self__.writer.write_str(name.0)?;
        self__.writer.write_char('>')?;
        proof { assert(o0 + self.pre() + seq![0x3cu8] + n + seq![0x3eu8] =~= o0 + self.pre() + tag_open(n)); }

        let writer = serialize(self__.into_simple_type_serializer_impl())?;
        let ghost o2 = (*writer).out();

        writer.write_str("</")?;
        writer.write_str(name.0)?;
        writer.write_char('>')?;
        proof { assert(o2 + seq![0x3cu8, 0x2fu8] + n + seq![0x3eu8] =~= o2 + tag_close(n)); }
        Ok(WriteResult::Element)
    }
//@end
//@extract content::ContentSerializer::write_indent | src/se/content.rs :: impl<'w, 'i, W: Write> ContentSerializer<'w, 'i, W> :: fn write_indent | serves=C19 features=serialize
 pub(crate) fn write_indent(&mut self) -> (r: Result<(), SeError>)
        requires old(self).indent.wf(),
        ensures
            *final(final(self).writer) == *final(old(self).writer),
            final(self).indent.st() == old(self).indent.st(), final(self).indent.fut() == old(self).indent.fut(),
            final(self).level == old(self).level, final(self).allow_primitive == old(self).allow_primitive,
            final(self).expand_empty_elements == old(self).expand_empty_elements,
            // C19: the indent is written at most once: only if the flag is set, and the flag is cleared
            r is Ok ==> (*final(self).writer).out() == (*old(self).writer).out() + old(self).pre() && !final(self).write_indent,
 {
        if self.write_indent {
            self.indent.write_indent(&mut self.writer)?;
            self.write_indent = false;
        }
        Ok(())
    }
//@end
}
}
