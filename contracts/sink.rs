// ---------------------------------------------------------------------------------------------
// Model of std::io::Write / tokio::io::AsyncWrite (trusted, A-sink): `write_all` appends the bytes in
// order or fails having appended some prefix of them.
// ---------------------------------------------------------------------------------------------
pub trait Write {
    /// everything written so far
    spec fn out(&self) -> Seq<u8>;
    fn write_all(&mut self, v: &[u8]) -> (r: io::Result<()>)
        ensures match r {
            Ok(_) => final(self).out() == old(self).out() + v@,
            Err(_) => exists|k: int| 0 <= k <= v@.len() && final(self).out() == old(self).out() + v@.subrange(0, k),
        };
}
