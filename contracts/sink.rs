// ---------------------------------------------------------------------------------------------
// Model of std::io::Write / tokio::io::AsyncWrite (trusted, A-sink): `write_all` appends the bytes in
// order or fails having appended some prefix of them.
// ---------------------------------------------------------------------------------------------
pub trait Write {
    /// everything written so far
    spec fn out(&self) -> Seq<u8>;
    fn write_all(&mut self, v: &[u8]) -> (r: io::Result<()>)
        ensures match r {
            Ok(_) => final(self).out() == old(self).out() + v@,
            Err(_) => exists|k: int| 0 <= k <= v@.len() && final(self).out() == old(self).out() + v@.subrange(0, k),
        };
    /// std::io::Write::write (documented contract): ONE attempt that may accept only a prefix of the bytes and says how many
    fn write(&mut self, v: &[u8]) -> (r: io::Result<usize>)
        ensures match r {
            Ok(n) => n <= v@.len() && final(self).out() == old(self).out() + v@.subrange(0, n as int),
            Err(_) => final(self).out() == old(self).out(),
        };
}
/// std: `impl<W: io::Write + ?Sized> io::Write for &mut W` forwards to the referent (and keeps referring to the same writer)
impl<'a, W: Write> Write for &'a mut W {
    open spec fn out(&self) -> Seq<u8> { (**self).out() }
    fn write_all(&mut self, v: &[u8]) -> (r: io::Result<()>)
        ensures *final(*final(self)) == *final(*old(self))
    { (**self).write_all(v) }
    fn write(&mut self, v: &[u8]) -> (r: io::Result<usize>)
        ensures *final(*final(self)) == *final(*old(self))
    { (**self).write(v) }
}
