// ---------------------------------------------------------------------------------------------
// Spec vocabulary of the source contract.
// ---------------------------------------------------------------------------------------------
pub open spec fn utf8_bom() -> Seq<u8> { seq![0xEFu8, 0xBB, 0xBF] }
//@if encoding
/// feature `encoding`: the byte-order mark of the detected encoding (XML 1.0 F.1: UTF-16 BE/LE 2 bytes, UTF-8
/// 3 bytes); nothing is removed when the encoding is guessed from the first characters or not at all (C08)
pub open spec fn bom_len(s: Seq<u8>) -> nat {
    match encdetect_::spec_detect(s) { Some((_, n)) => n as nat, None => 0 }
}
pub open spec fn strip_bom(s: Seq<u8>) -> Seq<u8> { s.subrange(bom_len(s) as int, s.len() as int) }
/// the encoding the sniff reports for the piece it sees
pub open spec fn sniffed(s: Seq<u8>) -> Option<u8> {
    match encdetect_::spec_detect(s) { Some((e, _)) => Some(e), None => None }
}
/// a byte-order mark found in a first piece of the input is the byte-order mark of the input
pub proof fn lemma_bom_prefix(p: Seq<u8>, s: Seq<u8>)
    requires p.len() <= s.len(), p =~= s.subrange(0, p.len() as int)
    ensures bom_len(p) <= p.len(), bom_len(p) == 0 || bom_len(p) == bom_len(s)
{
    use encdetect_::has_prefix;
    assert forall|pat: Seq<u8>| pat.len() <= p.len() implies #[trigger] has_prefix(p, pat) == has_prefix(s, pat) by {
        assert(p.subrange(0, pat.len() as int) =~= s.subrange(0, pat.len() as int));
    }
    if p.len() >= 2 {
        assert(has_prefix(p, seq![0xFEu8, 0xFF]) == has_prefix(s, seq![0xFEu8, 0xFF]));
        assert(has_prefix(p, seq![0xFFu8, 0xFE]) == has_prefix(s, seq![0xFFu8, 0xFE]));
    }
    if p.len() >= 3 {
        assert(has_prefix(p, seq![0xEFu8, 0xBB, 0xBF]) == has_prefix(s, seq![0xEFu8, 0xBB, 0xBF]));
    }
}
//@else
pub open spec fn strip_bom(s: Seq<u8>) -> Seq<u8> {
    if sw(s, utf8_bom()) { s.subrange(3, s.len() as int) } else { s }
}
//@endif
/// `i` is the index of the first '<' of `s`
pub open spec fn first_lt(s: Seq<u8>, i: int) -> bool {
    0 <= i < s.len() && s[i] == 0x3c && forall|j: int| 0 <= j < i ==> #[trigger] s[j] != 0x3c
}
pub open spec fn no_lt(s: Seq<u8>) -> bool { forall|j: int| 0 <= j < s.len() ==> #[trigger] s[j] != 0x3c }
/// the kind of `<!` construct announced by the byte after '!'
pub open spec fn bang_kind(b: Option<u8>) -> Option<BangType> {
    match b {
        Some(0x5b) => Some(BangType::CData),
        Some(0x2d) => Some(BangType::Comment),
        Some(0x44) | Some(0x64) => Some(BangType::DocType(0)),
        _ => None,
    }
}
pub open spec fn second(s: Seq<u8>) -> Option<u8> { if s.len() > 1 { Some(s[1]) } else { None } }
/// s is t with a prefix removed
pub open spec fn is_suffix_of(s: Seq<u8>, t: Seq<u8>) -> bool {
    s.len() <= t.len() && s == t.subrange(t.len() - s.len(), t.len() as int)
}
