// ---------------------------------------------------------------------------------------------
// Spec vocabulary of the source contract.
// ---------------------------------------------------------------------------------------------
pub open spec fn utf8_bom() -> Seq<u8> { seq![0xEFu8, 0xBB, 0xBF] }
pub open spec fn strip_bom(s: Seq<u8>) -> Seq<u8> {
    if sw(s, utf8_bom()) { s.subrange(3, s.len() as int) } else { s }
}
/// `i` is the index of the first '<' of `s`
pub open spec fn first_lt(s: Seq<u8>, i: int) -> bool {
    0 <= i < s.len() && s[i] == 0x3c && forall|j: int| 0 <= j < i ==> #[trigger] s[j] != 0x3c
}
pub open spec fn no_lt(s: Seq<u8>) -> bool { forall|j: int| 0 <= j < s.len() ==> #[trigger] s[j] != 0x3c }
/// the kind of `<!` construct announced by the byte after '!'
pub open spec fn bang_kind(b: Option<u8>) -> Option<BangType> {
    match b {
        Some(0x5b) => Some(BangType::CData),
        Some(0x2d) => Some(BangType::Comment),
        Some(0x44) | Some(0x64) => Some(BangType::DocType(0)),
        _ => None,
    }
}
pub open spec fn second(s: Seq<u8>) -> Option<u8> { if s.len() > 1 { Some(s[1]) } else { None } }
/// s is t with a prefix removed
pub open spec fn is_suffix_of(s: Seq<u8>, t: Seq<u8>) -> bool {
    s.len() <= t.len() && s == t.subrange(t.len() - s.len(), t.len() as int)
}
