// ---------------------------------------------------------------------------------------------
// U-enc (feature `encoding`): the precedence of encoding sources (C17, last sentence):
//   Implicit(UTF-8) < BomDetected < XmlDetected (final);  Explicit (reader built from a &str) is final:
// a declaration never overrides the encoding fixed by `from_str`, nor an earlier declaration.
// Transcoding itself (encoding_rs) is outside the verified code.
// ---------------------------------------------------------------------------------------------
pub mod enc_ {
use super::*;
use vstd::prelude::*;
pub type Result<T> = core::result::Result<T, Error>;



impl ReaderState {
//@extract state::ReaderState::emit_question_mark#enc | src/reader/state.rs :: impl ReaderState :: fn emit_question_mark | serves=C17 features=encoding
 pub(crate) fn emit_question_mark<'b>(&mut self, buf: &'b [u8]) -> (r: Result<Event<'b>>)
        requires
            buf@.len() >= 1, buf@[0] == 0x3f,
            old(self).offset >= buf@.len() + 2,
        ensures
            final(self).offset == old(self).offset, final(self).state == old(self).state, final(self).config == old(self).config,
            // C17: the encoding changes only when an XML declaration names one AND the current choice may still be
            // refined (implicit default or BOM sniff); an encoding fixed by from_str (Explicit) or by an earlier
            // declaration (XmlDetected) is never overridden; nothing but a declaration event changes it here
            final(self).encoding == (
                if (r matches Ok(Event::Decl(d))) && (old(self).encoding is Implicit || old(self).encoding is BomDetected)
                    && spec_encoder(buf@.subrange(1, buf@.len() - 1)) is Some {
                    EncodingRef::XmlDetected(spec_encoder(buf@.subrange(1, buf@.len() - 1))->Some_0)
                } else { old(self).encoding }),
 {
        assert!(buf.len() > 0);
        assert!(buf[0] == b'?');

        let len = buf.len();
        // We accept at least <??>
        //                     ~~ - len = 2
        if len > 1 && buf[len - 1] == b'?' {
            // Cut of `?` and `?` from start and end
            let content = &buf[1..len - 1];
            let len = content.len();

            if content.starts_with(&[b'x', b'm', b'l']) && (len == 3 || is_whitespace(content[3])) {
                let event = BytesDecl::from_start(BytesStart::wrap(content, 3));

                // Try getting encoding from the declaration event
                if self.encoding.can_be_refined() {
                    if let Some(encoding) = event.encoder() {
                        self.encoding = EncodingRef::XmlDetected(encoding);
                    }
                }

                Ok(Event::Decl(event))
            } else {
                Ok(Event::PI(BytesPI::wrap(content, name_len(content))))
            }
        } else {
            // <?....EOF
            //  ^^^^^ - `buf` does not contains `<`, but we want to report error at `<`,
            //          so we move offset to it (-2 for `<` and `>`)
            self.last_error_offset = self.offset - len as u64 - 2;
            Err(Error::Syntax(SyntaxError::UnclosedPIOrXmlDecl))
        }
    }
//@end
}

// ---- construction from a &str locks the encoding ----
//@extract reader::Reader#enc | src/reader/mod.rs :: struct Reader | serves=C17 features=encoding
 pub struct Reader<R> {
    /// Source of data for parse
    pub reader: R,
    /// Configuration and current parse state
    pub state: ReaderState,
}
//@end
/// model of NamespaceResolver (not relevant for C17)
pub struct NamespaceResolver { pub opaque: u8 }
impl NamespaceResolver {
    #[verifier::external_body]
    pub fn default() -> Self { unimplemented!() }
}
//@extract ns_reader::NsReader#enc | src/reader/ns_reader.rs :: struct NsReader | serves=C17 features=encoding
 pub struct NsReader<R> {
    /// An XML reader
    pub(super) reader: Reader<R>,
    /// A buffer to manage namespaces
    pub(super) ns_resolver: NamespaceResolver,
    /// We cannot pop data from the namespace stack until returned `Empty` or `End`
    /// event will be processed by the user, so we only mark that we should that
    /// in the next [`Self::read_event_impl()`] call.
    pub pending_pop: bool,
}
//@end

impl Default for Config {
//@extract reader::Config::default | src/reader/mod.rs :: impl Default for Config :: fn default | serves=C17,C16 features=encoding
    fn default() -> Self {
        Self {
            allow_unmatched_ends: false,
            check_comments: false,
            check_end_names: true,
            expand_empty_elements: false,
            trim_markup_names_in_closing_tags: true,
            trim_text_start: false,
            trim_text_end: false,
        }
    }
//@end
}
impl Default for ReaderState {
//@extract state::ReaderState::default#enc | src/reader/state.rs :: impl Default for ReaderState :: fn default | serves=C17 features=encoding
    fn default() -> (r: Self)
        // a reader starts with the implicit default, which may still be refined by a BOM or a declaration
        ensures r.encoding is Implicit, r.state is Init, r.offset == 0
    {
        Self {
            offset: 0,
            last_error_offset: 0,
            state: ParseState::Init,
            config: Config::default(),
            opened_buffer: Vec::new(),
            opened_starts: Vec::new(),

            encoding: EncodingRef::Implicit(UTF_8),
        }
    }
//@end
}
impl<R> Reader<R> {
//@extract reader::Reader::from_reader#enc | src/reader/mod.rs :: impl<R> Reader<R> :: fn from_reader | serves=C17 features=encoding
 pub fn from_reader(reader: R) -> (r: Self)
        ensures r.reader == reader, r.state.encoding is Implicit, r.state.state is Init
 {
        Self {
            reader,
            state: ReaderState::default(),
        }
    }
//@end
}
impl<'a> Reader<&'a [u8]> {
//@extract slice_reader::Reader::from_str#enc | src/reader/slice_reader.rs :: impl<'a> Reader<&'a [u8]> :: fn from_str | serves=C17 features=encoding
 pub fn from_str(s: &'a str) -> (r: Self)
        // C17: a reader built from a &str has its encoding fixed (Explicit): no declaration can override it
        ensures r.state.encoding is Explicit, r.state.state is Init
 {
        // Rust strings are guaranteed to be UTF-8, so lock the encoding
        {
            let mut reader = Self::from_reader(s.as_bytes());
            reader.state.encoding = EncodingRef::Explicit(UTF_8);
            reader
        }
    }
//@end
}
impl<R> NsReader<R> {
//@extract ns_reader::NsReader::new#enc | src/reader/ns_reader.rs :: impl<R> NsReader<R> :: fn new | serves=C17 features=encoding
    pub(crate) fn new(reader: Reader<R>) -> (r: Self)
        ensures r.reader == reader
    {
        Self {
            reader,
            ns_resolver: NamespaceResolver::default(),
            pending_pop: false,
        }
    }
//@end
}
impl<'i> NsReader<&'i [u8]> {
//@extract ns_reader::NsReader::from_str#enc | src/reader/ns_reader.rs :: impl<'i> NsReader<&'i [u8]> :: fn from_str | serves=C17 features=encoding
 pub(crate) fn from_str(s: &'i str) -> (r: Self)
        ensures r.reader.state.encoding is Explicit, r.reader.state.state is Init
 {
        Self::new(Reader::from_str(s))
    }
//@end
}
}
