// ---------------------------------------------------------------------------------------------
// U-buffered: impl XmlSource for every BufRead (src/reader/buffered_reader.rs, macro
// impl_buffered_source!, sync instantiation). Proved against the SAME trait contract as the slice
// source, for every chunking and every interrupt pattern admitted by the BufRead model (C02, C18).
// ---------------------------------------------------------------------------------------------
pub mod buffered_ {
use super::*;
use vstd::prelude::*;
pub type Result<T> = core::result::Result<T, Error>;

//@if encoding
/// the piece of input the encoding sniff sees: what the first successful fill_buf returns
pub open spec fn first_piece<R: BufRead>(r: &R) -> Seq<u8> {
    if r.next_len() <= r.rest().len() { r.rest().subrange(0, r.next_len() as int) } else { r.rest() }
}
//@endif
impl<'b, R: BufRead> XmlSource<'b, &'b mut Vec<u8>> for R {
    open spec fn remaining(&self) -> Seq<u8> { self.rest() }
    open spec fn faults(&self) -> nat { self.nfaults() }
    open spec fn buffered(&self) -> nat { self.avail() }
    /// the sniff sees exactly the first piece the reader delivers, however often it is interrupted before (C02, C18)
//@if encoding
    open spec fn after_bom(&self) -> Seq<u8> {
        self.rest().subrange(bom_len(first_piece(self)) as int, self.rest().len() as int)
    }
    open spec fn bom_enc(&self) -> Option<u8> { sniffed(first_piece(self)) }
    proof fn law_after_bom(&self) {
        lemma_bom_prefix(first_piece(self), self.rest());
        if bom_len(first_piece(self)) == 0 { assert(self.after_bom() =~= self.rest()); }
    }
//@else
    open spec fn after_bom(&self) -> Seq<u8> { if self.next_len() >= 3 { strip_bom(self.rest()) } else { self.rest() } }
    proof fn law_after_bom(&self) {}
//@endif

//@if encoding
//@extract buffered::detect_encoding | src/reader/buffered_reader.rs :: impl<'b, R: BufRead> XmlSource<'b, &'b mut Vec<u8>> for R :: invoke impl_buffered_source :: fn detect_encoding | serves=C01,C02,C03,C08,C12,C17,C18
 #[verifier::loop_isolation(false)]
 #[verifier::allow_complex_invariants]
 fn detect_encoding(&mut self) -> (r: io::Result<Option<&'static encoding_rs::Encoding>>) {
            let __lv1: io::Result<Option<&'static Encoding>>; loop
                invariant_except_break self.rest() == old(self).rest(), self.nfaults() == old(self).nfaults(), self.next_len() == old(self).next_len(),
                ensures
                    (__lv1 is Err) == (self.nfaults() > old(self).nfaults()), self.nfaults() >= old(self).nfaults(),
                    match __lv1 {
                        Ok(e) => self.rest() == old(self).after_bom() && match e {
                            Some(enc) => old(self).bom_enc() == Some(enc.id),
                            None => old(self).bom_enc() is None,
                        },
                        Err(_) => self.rest() == old(self).rest(),
                    },
                decreases self.budget()
            {
                { __lv1 = match self .fill_buf() {
                    Ok(n) => if let Some((enc, bom_len)) = crate::encoding::detect_encoding(n) {
                        self .consume(bom_len);
                        Ok(Some(enc))
                    } else {
                        Ok(None)
                    },
                    Err(ref e) if e.kind() == io::ErrorKind::Interrupted => continue,
                    Err(e) => Err(e),
                }; break; };
            } __lv1
        }
//@end
//@else
//@extract buffered::remove_utf8_bom | src/reader/buffered_reader.rs :: impl<'b, R: BufRead> XmlSource<'b, &'b mut Vec<u8>> for R :: invoke impl_buffered_source :: fn remove_utf8_bom | serves=C01,C02,C03,C08,C12,C17,C18
 #[verifier::loop_isolation(false)]
 #[verifier::allow_complex_invariants]
 fn remove_utf8_bom(&mut self) -> (r: io::Result<()>)
 {
            use crate::encoding::UTF8_BOM;

            let __lv1; loop
                invariant_except_break self.rest() == old(self).rest(), self.nfaults() == old(self).nfaults(), self.next_len() == old(self).next_len(),
                ensures
                    __lv1 is Ok ==> self.rest() == (if old(self).next_len() >= 3 { strip_bom(old(self).rest()) } else { old(self).rest() }),
                    (__lv1 is Err) == (self.nfaults() > old(self).nfaults()), self.nfaults() >= old(self).nfaults(),
                    match __lv1 {
                        Ok(()) => self.rest() == old(self).after_bom(),
                        Err(_) => self.rest() == old(self).rest(),
                    },
                decreases self.budget()
            {
                { __lv1 = match self .fill_buf() {
                    Ok(n) => {
                        if n.starts_with(UTF8_BOM) {
                            proof { assert(sw(old(self).rest(), utf8_bom())); }
                            self .consume(UTF8_BOM.len());
                        }
                        Ok(())
                    },
                    Err(ref e) if e.kind() == io::ErrorKind::Interrupted => continue,
                    Err(e) => Err(e),
                }; break; };
            } __lv1
        }
//@end
//@endif

//@extract buffered::read_text | src/reader/buffered_reader.rs :: impl<'b, R: BufRead> XmlSource<'b, &'b mut Vec<u8>> for R :: invoke impl_buffered_source :: fn read_text | serves=C01,C02,C03,C08,C12,C18
 #[verifier::loop_isolation(false)]
 #[verifier::allow_complex_invariants]
 fn read_text (
            &mut self,
            buf: &'b mut Vec<u8>,
            position: &mut u64,
        ) -> (r: ReadTextResult<'b, &'b mut Vec<u8>>) {
            let ghost r0 = self.rest();
            let ghost b0 = buf@;
            let mut read = 0;
            let start = buf.len();
            proof { assert(r0.subrange(0, 0) =~= Seq::<u8>::empty()); }
            loop
                invariant
                    self.nfaults() == old(self).nfaults(),
                    *position == *old(position),
                    read <= r0.len(), self.rest() == r0.subrange(read as int, r0.len() as int),
                    buf@ == b0 + r0.subrange(0, read as int), start == b0.len(),
                    no_lt(r0.subrange(0, read as int)),
                decreases self.rest().len() + self.budget()
            {
                let available = match self .fill_buf() {
                    Ok(n) if n.is_empty() => break,
                    Ok(n) => n,
                    Err(ref e) if e.kind() == io::ErrorKind::Interrupted => continue,
                    Err(e) => {
                        *position += read;
                        proof { assert(is_suffix_of(self.rest(), r0)); }
                        return ReadTextResult::Err(e);
                    }
                };

                proof {
                    axiom_slice_len(available);
                    assert forall|j: int| 0 <= j < available@.len() implies available@[j] == r0[read + j] by {}
                }
                match memchr::memchr(b'<', available) {
                    // Special handling is needed only on the first iteration.
                    // On next iterations we already read something and should emit Text event
                    Some(0) if read == 0 => {
                        self .consume(1);
                        *position += 1;
                        proof { assert(r0.subrange(0, 0) =~= Seq::<u8>::empty()); assert(buf@ =~= b0); }
                        return ReadTextResult::Markup(buf);
                    }
                    Some(i) => {
                        buf.extend_from_slice(&available[..i]);

                        let used = i + 1;
                        self .consume(used);
                        read += used as u64;

                        *position += read;
                        proof {
                            let k = (read - 1) as int;
                            assert(r0.subrange(0, k - i) + available@.subrange(0, i as int) =~= r0.subrange(0, k));
                            assert(buf@.subrange(start as int, buf@.len() as int) =~= r0.subrange(0, k));
                            assert(r0[k] == available@[i as int]);
                            assert forall|j: int| 0 <= j < k implies #[trigger] r0[j] != 0x3c by {
                                if j < k - i { assert(r0.subrange(0, k - i)[j] == r0[j]); } else { assert(available@[j - (k - i)] == r0[j]); }
                            }
                            assert(self.rest() =~= r0.subrange(k + 1, r0.len() as int));
                        }
                        return ReadTextResult::UpToMarkup(&buf[start..]);
                    }
                    None => {
                        buf.extend_from_slice(available);

                        let used = available.len();
                        self .consume(used);
                        read += used as u64;
                        proof {
                            let k = read as int;
                            assert(r0.subrange(0, k - used) + available@ =~= r0.subrange(0, k));
                            assert forall|j: int| 0 <= j < k implies #[trigger] r0.subrange(0, k)[j] != 0x3c by {
                                if j < k - used { assert(r0.subrange(0, k - used)[j] == r0[j]); } else { assert(available@[j - (k - used)] == r0[j]); }
                            }
                            assert(self.rest() =~= r0.subrange(k, r0.len() as int));
                        }
                    }
                }
            }

            *position += read;
            proof {
                assert(r0.subrange(0, read as int) =~= r0);
                assert(buf@.subrange(start as int, buf@.len() as int) =~= r0);
            }
            ReadTextResult::UpToEof(&buf[start..])
        }
//@end

//@extract buffered::read_with | src/reader/buffered_reader.rs :: impl<'b, R: BufRead> XmlSource<'b, &'b mut Vec<u8>> for R :: invoke impl_buffered_source :: fn read_with | serves=C01,C02,C03,C08,C12,C18
 #[verifier::loop_isolation(false)]
 #[verifier::allow_complex_invariants]
 fn read_with< P: Parser>(
            &mut self,
            mut parser: P,
            buf: &'b mut Vec<u8>,
            position: &mut u64,
        ) -> (r: Result<&'b [u8]>) {
            let ghost r0 = self.rest();
            let ghost p0 = parser;
            let ghost b0 = buf@;
            proof { p0.law_empty(); assert(r0.subrange(0, 0) =~= Seq::<u8>::empty()); }
            let mut read = 0;
            let start = buf.len();
            loop
                invariant
                    self.nfaults() == old(self).nfaults(),
                    *position == *old(position),
                    read <= r0.len(), self.rest() == r0.subrange(read as int, r0.len() as int),
                    buf@ == b0 + r0.subrange(0, read as int), start == b0.len(),
                    p0.end(r0.subrange(0, read as int)) is None,
                    parser == p0.after(r0.subrange(0, read as int)),
                decreases self.rest().len() + self.budget()
            {
                let available = match self .fill_buf() {
                    Ok(n) if n.is_empty() => break,
                    Ok(n) => n,
                    Err(ref e) if e.kind() == io::ErrorKind::Interrupted => continue,
                    Err(e) => {
                        *position += read;
                        proof { assert(is_suffix_of(self.rest(), r0)); }
                        return Err(Error::Io(e.into()));
                    }
                };

                proof {
                    axiom_slice_len(available);
                    let c = r0.subrange(0, read as int);
                    assert(c + available@ =~= r0.subrange(0, read + available@.len()));
                    p0.law_concat(c, available@);
                    p0.law_concat(r0.subrange(0, read + available@.len()), r0.subrange(read + available@.len(), r0.len() as int));
                    assert(r0.subrange(0, read + available@.len()) + r0.subrange(read + available@.len(), r0.len() as int) =~= r0);
                    parser.law_bounds(available@);
                }
                if let Some(i) = parser.feed(available) {
                    buf.extend_from_slice(&available[..i]);

                    // +1 for `>` which we do not include
                    self .consume(i + 1);
                    read += i as u64 + 1;

                    *position += read;
                    proof {
                        assert(r0.subrange(0, (read - i - 1) as int) + available@.subrange(0, i as int) =~= r0.subrange(0, (read - 1) as int));
                        assert(buf@.subrange(start as int, buf@.len() as int) =~= r0.subrange(0, (read - 1) as int));
                        assert(self.rest() =~= r0.subrange(read as int, r0.len() as int));
                    }
                    return Ok(&buf[start..]);
                }

                // The `>` symbol not yet found, continue reading
                buf.extend_from_slice(available);

                let used = available.len();
                self .consume(used);
                read += used as u64;
                proof { assert(self.rest() =~= r0.subrange(read as int, r0.len() as int)); }
            }

            *position += read;
            proof { assert(r0.subrange(0, read as int) =~= r0); }
            Err(Error::Syntax(P::eof_error()))
        }
//@end

//@extract buffered::read_bang_element | src/reader/buffered_reader.rs :: impl<'b, R: BufRead> XmlSource<'b, &'b mut Vec<u8>> for R :: invoke impl_buffered_source :: fn read_bang_element | serves=C01,C02,C03,C08,C12,C18 n11=1,2
 #[verifier::loop_isolation(false)]
 fn read_bang_element (
            &mut self,
            buf: &'b mut Vec<u8>,
            position: &mut u64,
        ) -> (r: Result<(BangType, &'b [u8])>) {
            let ghost r0 = self.rest();
            let ghost b0 = buf@;
            // Peeked one bang ('!') before being called, so it's guaranteed to
            // start with it.
            let start = buf.len();
            let mut read = 1;
            buf.push(b'!');
            self .consume(1);

            proof {
                assert(buf@ =~= b0 + r0.subrange(0, 1));
                assert(r0.subrange(1, r0.len() as int).len() > 0 ==> r0.subrange(1, r0.len() as int)[0] == r0[1]);
            }
            let mut bang_type = match BangType::new(match self.peek_one() { Ok(v__) => v__, Err(e__) => return Err(From::from(e__)) }) { Ok(v__) => v__, Err(e__) => return Err(From::from(e__)) };
            let ghost kind0 = bang_type;
            proof {
                assert(bang_kind(second(r0)) == Some(kind0));
                reveal_with_fuel(dt_bal, 2);
                assert(r0.subrange(0, 1).subrange(0, 0) =~= Seq::<u8>::empty());
                assert(dt_bal(r0.subrange(0, 1)) == 0);
                assert forall|k: int| 0 <= k < 1 implies !bang_term(kind0, r0, k) by {
                    assert(r0.subrange(0, 0) =~= Seq::<u8>::empty());
                }
            }

            loop
                invariant
                    self.nfaults() == old(self).nfaults(),
                    *position == *old(position),
                    1 <= read <= r0.len(), self.rest() == r0.subrange(read as int, r0.len() as int),
                    buf@ == b0 + r0.subrange(0, read as int), start == b0.len(),
                    same_kind(bang_type, kind0), bang_kind(second(r0)) == Some(kind0),
                    no_bang_term_before(kind0, r0, read as int),
                    bang_type matches BangType::DocType(b) ==> b == dt_bal(r0.subrange(0, read as int)),
                decreases self.rest().len() + self.budget()
            {
                match self .fill_buf() {
                    // Note: Do not update position, so the error points to
                    // somewhere sane rather than at the EOF
                    Ok(n) if n.is_empty() => break,
                    Ok(available) => {
                        // We only parse from start because we don't want to consider
                        // whatever is in the buffer before the bang element
                        let ghost tlen = read as int + available@.len();
                        let ghost t = r0.subrange(0, tlen);
                        proof {
                            assert(buf@.subrange(start as int, buf@.len() as int) =~= r0.subrange(0, read as int));
                            assert(r0.subrange(0, read as int) + available@ =~= t);
                            assert forall|k: int| 0 <= k < tlen implies bang_term(bang_type, t, k) == bang_term(kind0, r0, k) by {
                                lemma_bang_term_prefix(kind0, r0, tlen, k);
                            }
                        }
                        if let Some((consumed, used)) = bang_type.parse(&buf[start..], available) {
                            buf.extend_from_slice(consumed);

                            self .consume(used);
                            read += used as u64;

                            *position += read;
                            proof {
                                let k = (read - 1) as int;
                                assert(r0.subrange(0, read - used) + available@.subrange(0, used - 1) =~= r0.subrange(0, k));
                                assert(buf@.subrange(start as int, buf@.len() as int) =~= r0.subrange(0, k));
                                assert(self.rest() =~= r0.subrange(k + 1, r0.len() as int));
                                lemma_bang_term_prefix(kind0, r0, tlen, k);
                                assert forall|j: int| 0 <= j < k implies !bang_term(bang_type, r0, j) by {
                                    lemma_bang_term_prefix(kind0, r0, tlen, j);
                                    assert(!bang_term(kind0, t, j));
                                }
                            }
                            return Ok((bang_type, &buf[start..]));
                        } else {
                            buf.extend_from_slice(available);

                            let used = available.len();
                            self .consume(used);
                            read += used as u64;
                            proof {
                                assert(self.rest() =~= r0.subrange(read as int, r0.len() as int));
                                assert forall|j: int| 0 <= j < read implies !bang_term(kind0, r0, j) by {
                                    lemma_bang_term_prefix(kind0, r0, tlen, j);
                                    assert(!bang_term(kind0, t, j));
                                }
                            }
                        }
                    }
                    Err(ref e) if e.kind() == io::ErrorKind::Interrupted => continue,
                    Err(e) => {
                        *position += read;
                        return Err(Error::Io(e.into()));
                    }
                }
            }

            *position += read;
            Err(bang_type.to_err().into())
        }
//@end

//@extract buffered::skip_whitespace | src/reader/buffered_reader.rs :: impl<'b, R: BufRead> XmlSource<'b, &'b mut Vec<u8>> for R :: invoke impl_buffered_source :: fn skip_whitespace | serves=C01,C02,C03,C08,C12,C16,C18
//@rewrite n.iter().position(|b| ==> shim::position_ref(n, |b: &u8|
 #[verifier::loop_isolation(false)]
 #[verifier::allow_complex_invariants]
 fn skip_whitespace(&mut self, position: &mut u64) -> (r: io::Result<()>) {
            let ghost r0 = self.rest();
            proof { assert(r0.subrange(0, r0.len() as int) =~= r0); }
            let __lv1; loop
                invariant_except_break
                    self.nfaults() == old(self).nfaults(),
                    is_suffix_of(self.rest(), r0),
                    *position == *old(position) + (r0.len() - self.rest().len()),
                    trimmed_start(self.rest()) == trimmed_start(r0),
                ensures
                    (__lv1 is Err) == (self.nfaults() > old(self).nfaults()), self.nfaults() >= old(self).nfaults(),
                    is_suffix_of(self.rest(), r0),
                    *position == *old(position) + (r0.len() - self.rest().len()),
                    __lv1 is Ok ==> self.rest() == trimmed_start(r0),
                decreases self.rest().len() + self.budget()
            {
                let ghost cur = self.rest();
                { __lv1 = match self .fill_buf() {
                    Ok(n) => {
                        proof { axiom_slice_len(n); }
                        let count = shim::position_ref(n, |b: &u8| -> (r: bool) ensures r == !is_ws(*b) { !is_whitespace(*b) }).unwrap_or(n.len());
                        if count > 0 {
                            self .consume(count);
                            *position += count as u64;
                            proof {
                                assert forall|j: int| 0 <= j < count implies is_ws(#[trigger] cur[j]) by { assert(n@[j] == cur[j]); }
                                lemma_trimmed_start_skip(cur, count as int);
                                assert(self.rest() =~= r0.subrange(r0.len() - self.rest().len(), r0.len() as int));
                            }
                            continue;
                        } else {
                            proof {
                                if cur.len() > 0 { assert(n@[0] == cur[0]); }
                                lemma_trimmed_start(cur, 0);
                                assert(cur.subrange(0, cur.len() as int) =~= cur);
                            }
                            Ok(())
                        }
                    }
                    Err(ref e) if e.kind() == io::ErrorKind::Interrupted => continue,
                    Err(e) => Err(e),
                }; break; };
            } __lv1
        }
//@end

//@extract buffered::peek_one | src/reader/buffered_reader.rs :: impl<'b, R: BufRead> XmlSource<'b, &'b mut Vec<u8>> for R :: invoke impl_buffered_source :: fn peek_one | serves=C01,C02,C03,C08,C12,C18
 #[verifier::loop_isolation(false)]
 #[verifier::allow_complex_invariants]
 fn peek_one(&mut self) -> (r: io::Result<Option<u8>>) {
            let __lv1; loop
                invariant_except_break self.rest() == old(self).rest(), self.nfaults() == old(self).nfaults(),
                ensures
                    (__lv1 is Err) == (self.nfaults() > old(self).nfaults()), self.nfaults() >= old(self).nfaults(),
                    self.rest() == old(self).rest(),
                    match __lv1 {
                        Ok(Some(b)) => old(self).rest().len() > 0 && b == old(self).rest()[0] && self.avail() >= 1,
                        Ok(None) => old(self).rest().len() == 0,
                        Err(_) => true,
                    },
                decreases self.budget()
            {
                { __lv1 = match self .fill_buf() {
                    Ok(n) => Ok(n.first().cloned()),
                    Err(ref e) if e.kind() == io::ErrorKind::Interrupted => continue,
                    Err(e) => Err(e),
                }; break; };
            } __lv1
        }
//@end
}
}
