// ---------------------------------------------------------------------------------------------
// Assumed contracts for std functions that vstd does not specify (trusted; each is the std
// documentation of the function).
// ---------------------------------------------------------------------------------------------
pub assume_specification<'a, T: Copy>[ Option::<&'a T>::copied ](o: Option<&'a T>) -> (r: Option<T>)
    ensures r == (match o { Some(x) => Some(*x), None => None::<T> });

// ---- Cow<[u8]> ----
pub uninterp spec fn cow_target<'a, 'b, B: ?Sized + ToOwned>(c: &'b Cow<'a, B>) -> &'b B;
pub assume_specification<'a, 'b, B: ?Sized + ToOwned>[ <Cow<'a, B> as core::ops::Deref>::deref ](c: &'b Cow<'a, B>) -> (r: &'b B)
    ensures r == cow_target(c);
/// dereferencing a Cow<[u8]> gives the bytes it holds (std: Deref for Cow)
pub axiom fn axiom_cow_bytes<'a>(c: &Cow<'a, [u8]>)
    ensures cow_target(c)@ == c@;
pub assume_specification<'a, T: Clone>[ <Cow<'a, [T]> as From<&'a [T]>>::from ](s: &'a [T]) -> (r: Cow<'a, [T]>)
    ensures r == Cow::<'a, [T]>::Borrowed(s);
pub assume_specification<'a, T: Clone>[ <Cow<'a, [T]> as From<Vec<T>>>::from ](v: Vec<T>) -> (r: Cow<'a, [T]>)
    ensures r == Cow::<'a, [T]>::Owned(v);

// ---- Result / Cow<str> helpers used on error paths (values uninterpreted) ----
pub uninterp spec fn spec_unwrap_or_default<T, E>(r: core::result::Result<T, E>) -> T;
pub assume_specification<T: Default, E>[ core::result::Result::<T, E>::unwrap_or_default ](r: core::result::Result<T, E>) -> (v: T)
    ensures v == spec_unwrap_or_default(r), r matches Ok(t) ==> v == t;
pub uninterp spec fn spec_cow_into_owned<'a, B: ?Sized + ToOwned>(c: Cow<'a, B>) -> <B as ToOwned>::Owned;
pub assume_specification<'a, B: ?Sized + ToOwned>[ Cow::<'a, B>::into_owned ](c: Cow<'a, B>) -> (v: <B as ToOwned>::Owned)
    ensures v == spec_cow_into_owned(c);

// ---- slices ----
pub uninterp spec fn spec_pattern<T, P: core::slice::SlicePattern<Item = T> + ?Sized>(p: &P) -> Seq<T>;
/// an array used as a slice pattern stands for its elements (std: SlicePattern for [T; N])
pub axiom fn axiom_pattern_array<T, const N: usize>()
    ensures forall|a: &[T; N]| #[trigger] spec_pattern::<T, [T; N]>(a) == a@;
pub assume_specification<'a, T: PartialEq, P: core::slice::SlicePattern<Item = T> + ?Sized>[ <[T]>::strip_suffix ](s: &'a [T], suffix: &P) -> (r: Option<&'a [T]>)
    ensures ({
        let x = spec_pattern::<T, P>(suffix);
        let ends = x.len() <= s@.len() && forall|i: int| 0 <= i < x.len() ==> s@[s@.len() - x.len() + i] == x[i];
        match r {
            Some(p) => ends && p@ == s@.subrange(0, s@.len() - x.len()),
            None => !ends,
        }
    });
pub uninterp spec fn spec_items<'a, T: 'a, I: IntoIterator<Item = &'a T>>(i: I) -> Seq<T>;
pub assume_specification<'a, T: Copy + 'a, A: core::alloc::Allocator, I: IntoIterator<Item = &'a T>>[ <Vec<T, A> as Extend<&'a T>>::extend ](v: &mut Vec<T, A>, i: I)
    ensures final(v)@ == old(v)@ + spec_items::<T, I>(i);
/// extending from a slice appends its elements (std: Extend<&T> for Vec<T>)
pub axiom fn axiom_items_slice<T>()
    ensures forall|s: &[T]| #[trigger] spec_items::<T, &[T]>(s) == s@;
pub uninterp spec fn ascii_lower(b: u8) -> u8;
pub assume_specification[ <[u8]>::eq_ignore_ascii_case ](a: &[u8], b: &[u8]) -> (r: bool)
    ensures r == (a@.len() == b@.len() && forall|i: int| 0 <= i < a@.len() ==> ascii_lower(a@[i]) == ascii_lower(b@[i]));

pub assume_specification<T, U, F: FnOnce(T) -> U>[ Option::<T>::map_or ](o: Option<T>, default: U, f: F) -> (r: U)
    requires o matches Some(t) ==> f.requires((t,)),
    ensures match o { Some(t) => f.ensures((t,), r), None => r == default };

/// std: u8::is_ascii_whitespace -- U+0020 SPACE, U+0009 TAB, U+000A LF, U+000C FORM FEED, U+000D CR
pub assume_specification[ u8::is_ascii_whitespace ](b: &u8) -> (r: bool)
    ensures r == (*b == 0x20 || *b == 0x09 || *b == 0x0a || *b == 0x0c || *b == 0x0d);

// ---- VecDeque / slices used by the replay queue ----
/// std: "the total number of elements the vector can hold without reallocating": at least its length, nothing more is promised
pub assume_specification<T, A: core::alloc::Allocator>[ Vec::<T, A>::capacity ](v: &Vec<T, A>) -> (r: usize)
    ensures r >= v@.len();
pub assume_specification<T, A: core::alloc::Allocator>[ std::collections::VecDeque::<T, A>::is_empty ](d: &std::collections::VecDeque<T, A>) -> (r: bool)
    ensures r == (d@.len() == 0);
pub assume_specification<T, A: core::alloc::Allocator>[ std::collections::VecDeque::<T, A>::front ](d: &std::collections::VecDeque<T, A>) -> (r: Option<&T>)
    ensures match r { Some(x) => d@.len() > 0 && *x == d@[0], None => d@.len() == 0 };
pub assume_specification<T, A: core::alloc::Allocator>[ std::collections::VecDeque::<T, A>::back ](d: &std::collections::VecDeque<T, A>) -> (r: Option<&T>)
    ensures match r { Some(x) => d@.len() > 0 && *x == d@[d@.len() - 1], None => d@.len() == 0 };
pub assume_specification<T: Clone>[ <[T] as std::borrow::ToOwned>::to_owned ](s: &[T]) -> (r: Vec<T>)
    ensures r@.len() == s@.len(), forall|i: int| 0 <= i < s@.len() ==> cloned::<T>(s@[i], #[trigger] r@[i]);
pub assume_specification<T: Clone>[ <[T]>::to_vec ](s: &[T]) -> (r: Vec<T>)
    ensures r@.len() == s@.len(), forall|i: int| 0 <= i < s@.len() ==> cloned::<T>(s@[i], #[trigger] r@[i]), copy_of(s@, r@);
/// `r` is an element-wise clone of `s` (named so that the byte case can be stated without naming the vector)
pub open spec fn copy_of<T: Clone>(s: Seq<T>, r: Seq<T>) -> bool {
    r.len() == s.len() && forall|i: int| 0 <= i < s.len() ==> cloned::<T>(s[i], #[trigger] r[i])
}
/// a clone of a byte string is that byte string (u8: Copy)
pub proof fn lemma_copy_of_bytes()
    ensures forall|s: Seq<u8>, r: Seq<u8>| #[trigger] copy_of(s, r) ==> r == s
{
    axiom_cloned_u8();
    assert forall|s: Seq<u8>, r: Seq<u8>| #[trigger] copy_of(s, r) implies r == s by { assert(r =~= s); }
}

/// cloning a byte gives the same byte (u8: Copy)
pub axiom fn axiom_cloned_u8()
    ensures forall|a: u8, b: u8| #[trigger] cloned::<u8>(a, b) ==> a == b;

pub assume_specification<T>[ <[T]>::split_last ](s: &[T]) -> (r: Option<(&T, &[T])>)
    ensures match r {
        Some((last, rest)) => s@.len() > 0 && *last == s@[s@.len() - 1] && rest@ == s@.subrange(0, s@.len() - 1),
        None => s@.len() == 0,
    };
pub assume_specification<T>[ core::mem::replace ](dest: &mut T, src: T) -> (r: T)
    ensures r == *old(dest), *final(dest) == src;

// ---- comparing a byte slice with a Vec (std: `impl PartialEq<Vec<U>> for &[T]` compares element-wise) ----
pub uninterp spec fn spec_seq_eq<T, U>(a: Seq<T>, b: Seq<U>) -> bool;
pub axiom fn axiom_seq_eq_u8()
    ensures forall|a: Seq<u8>, b: Seq<u8>| #[trigger] spec_seq_eq::<u8, u8>(a, b) == (a == b);
pub assume_specification<'a, T: PartialEq<U>, U, A: core::alloc::Allocator>[ <&'a [T] as PartialEq<Vec<U, A>>>::eq ](a: &&'a [T], b: &Vec<U, A>) -> (r: bool)
    ensures r == spec_seq_eq::<T, U>((*a)@, b@);
