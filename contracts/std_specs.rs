// ---------------------------------------------------------------------------------------------
// Assumed contracts for std functions that vstd does not specify (trusted; each is the std
// documentation of the function).
// ---------------------------------------------------------------------------------------------
pub assume_specification<'a, T: Copy>[ Option::<&'a T>::copied ](o: Option<&'a T>) -> (r: Option<T>)
    ensures r == (match o { Some(x) => Some(*x), None => None::<T> });
