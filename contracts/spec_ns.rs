// ---------------------------------------------------------------------------------------------
// Spec vocabulary for namespaces (C05).
// ---------------------------------------------------------------------------------------------
impl ns_::NamespaceResolver {
    /// representation invariant: entries are laid out consecutively in `buffer`, levels never decrease
    /// towards the end and never exceed the current nesting level
    pub open spec fn wf(&self) -> bool {
        &&& forall|i: int| 0 <= i < self.bindings@.len() ==> (#[trigger] self.bindings@[i]).start + self.bindings@[i].prefix_len + self.bindings@[i].value_len <= self.buffer@.len()
        &&& forall|i: int, j: int| 0 <= i <= j < self.bindings@.len() ==> self.bindings@[i].level <= self.bindings@[j].level
        &&& forall|i: int, j: int| 0 <= i < j < self.bindings@.len() ==> self.bindings@[i].start + self.bindings@[i].prefix_len + self.bindings@[i].value_len <= self.bindings@[j].start
        &&& forall|i: int| 0 <= i < self.bindings@.len() ==> (#[trigger] self.bindings@[i]).level <= self.nesting_level
    }
}
impl<R> ns_::NsReader<R> {
    /// C05 scope discipline: one namespace scope per open element, plus the scope of the element whose
    /// Empty/End event was handed out last (it is closed by the next read)
    pub closed spec fn inv(&self) -> bool {
        &&& self.reader.inv()
        &&& self.ns_resolver.wf()
        &&& self.ns_resolver.nesting_level as int == self.reader.state.stack().len() + (if self.pending_pop { 1int } else { 0int })
    }
    /// how `inv` is established for a newly made reader
    pub(crate) proof fn lemma_inv_intro(&self)
        requires self.reader.inv(), self.ns_resolver.wf(),
            self.ns_resolver.nesting_level as int == self.reader.state.stack().len() + (if self.pending_pop { 1int } else { 0int }),
        ensures self.inv()
    {}
    pub(crate) proof fn lemma_inv_intro_all()
        ensures forall|x: Self| x.reader.inv() && x.ns_resolver.wf()
            && x.ns_resolver.nesting_level as int == x.reader.state.stack().len() + (if x.pending_pop { 1int } else { 0int }) ==> #[trigger] x.inv()
    {}
    /// what `inv` says, for the callers outside this module (the serde event sources, C14)
    pub(crate) proof fn lemma_inv(&self)
        requires self.inv()
        ensures self.reader.inv(), self.ns_resolver.wf(),
            self.ns_resolver.nesting_level as int == self.reader.state.stack().len() + (if self.pending_pop { 1int } else { 0int }),
    {}
}

// ---- namespace resolution (Namespaces in XML 1.1, sections 5 and 6) ----
/// abstract result of a resolution
pub enum AbsRes { Unbound, Bound(Seq<u8>), Unknown(Seq<u8>) }

impl ns_::NamespaceEntry {
    /// the declared prefix: None for a default-namespace declaration `xmlns="..."`
    pub open spec fn spec_prefix(&self, buf: Seq<u8>) -> Option<Seq<u8>> {
        if self.prefix_len == 0 { None } else { Some(buf.subrange(self.start as int, self.start + self.prefix_len)) }
    }
    pub open spec fn spec_value(&self, buf: Seq<u8>) -> Seq<u8> {
        buf.subrange(self.start + self.prefix_len, self.start + self.prefix_len + self.value_len)
    }
    /// what this declaration says about a name with the given prefix; None: it does not concern the name
    pub open spec fn decides(&self, buf: Seq<u8>, prefix: Option<Seq<u8>>, use_default: bool) -> Option<AbsRes> {
        match (self.spec_prefix(buf), prefix) {
            // a default declaration and an unprefixed name: applies to elements only (never to attributes);
            // `xmlns=""` removes the default
            (None, None) => if use_default && self.value_len > 0 { Some(AbsRes::Bound(self.spec_value(buf))) } else { Some(AbsRes::Unbound) },
            // the same prefix: `xmlns:p=""` makes p unknown again
            (Some(d), Some(u)) => if d == u { if self.value_len == 0 { Some(AbsRes::Unknown(u)) } else { Some(AbsRes::Bound(self.spec_value(buf))) } } else { None },
            _ => None,
        }
    }
}
/// the nearest declaration (the last one in document order among those in scope) that concerns the
/// name decides; an undeclared prefix is unknown, an unprefixed name without default is unbound
pub open spec fn spec_resolve(bs: Seq<ns_::NamespaceEntry>, buf: Seq<u8>, prefix: Option<Seq<u8>>, use_default: bool) -> AbsRes
    decreases bs.len()
{
    if bs.len() == 0 {
        match prefix { Some(p) => AbsRes::Unknown(p), None => AbsRes::Unbound }
    } else {
        match bs.last().decides(buf, prefix, use_default) {
            Some(r) => r,
            None => spec_resolve(bs.drop_last(), buf, prefix, use_default),
        }
    }
}
/// the first position from the back that decides
pub proof fn lemma_resolve_at(bs: Seq<ns_::NamespaceEntry>, buf: Seq<u8>, prefix: Option<Seq<u8>>, use_default: bool, i: int)
    requires 0 <= i < bs.len(), bs[i].decides(buf, prefix, use_default) is Some,
        forall|j: int| i < j < bs.len() ==> (#[trigger] bs[j]).decides(buf, prefix, use_default) is None
    ensures spec_resolve(bs, buf, prefix, use_default) == bs[i].decides(buf, prefix, use_default)->Some_0
    decreases bs.len()
{
    if i < bs.len() - 1 {
        assert(bs.last().decides(buf, prefix, use_default) is None);
        lemma_resolve_at(bs.drop_last(), buf, prefix, use_default, i);
    }
}
pub proof fn lemma_resolve_none(bs: Seq<ns_::NamespaceEntry>, buf: Seq<u8>, prefix: Option<Seq<u8>>, use_default: bool)
    requires forall|j: int| 0 <= j < bs.len() ==> (#[trigger] bs[j]).decides(buf, prefix, use_default) is None
    ensures spec_resolve(bs, buf, prefix, use_default) == (match prefix { Some(p) => AbsRes::Unknown(p), None => AbsRes::Unbound })
    decreases bs.len()
{
    if bs.len() > 0 { lemma_resolve_none(bs.drop_last(), buf, prefix, use_default); }
}
pub open spec fn rr_view<'a>(r: ns_::ResolveResult<'a>) -> AbsRes {
    match r {
        ns_::ResolveResult::Unbound => AbsRes::Unbound,
        ns_::ResolveResult::Bound(n) => AbsRes::Bound(n.0@),
        ns_::ResolveResult::Unknown(v) => AbsRes::Unknown(v@),
    }
}
pub open spec fn pfx_view<'a>(p: Option<ns_::Prefix<'a>>) -> Option<Seq<u8>> {
    match p { Some(x) => Some(x.0@), None => None }
}
/// QName ::= Prefix ':' LocalPart | LocalPart : the prefix is what precedes the first ':'
pub open spec fn spec_prefix_of(name: Seq<u8>) -> Option<Seq<u8>> {
    if exists|i: int| first_colon(name, i) { let i = choose|i: int| first_colon(name, i); Some(name.subrange(0, i)) } else { None }
}
pub proof fn lemma_prefix_of(s: Seq<u8>)
    ensures
        forall|i: int| first_colon(s, i) ==> spec_prefix_of(s) == Some(s.subrange(0, i)),
        (forall|j: int| 0 <= j < s.len() ==> #[trigger] s[j] != 0x3a) ==> spec_prefix_of(s) is None,
{
    assert forall|i: int| first_colon(s, i) implies spec_prefix_of(s) == Some(s.subrange(0, i)) by {
        let k = choose|k: int| first_colon(s, k);
        if k < i { assert(s[k] != 0x3a); } else if i < k { assert(s[i] != 0x3a); }
    }
    if forall|j: int| 0 <= j < s.len() ==> #[trigger] s[j] != 0x3a {
        if exists|i: int| first_colon(s, i) { let i = choose|i: int| first_colon(s, i); assert(s[i] != 0x3a); }
    }
}

/// the binding at index i is in effect: bound to a non-empty namespace and not re-declared later
pub open spec fn listed(bs: Seq<ns_::NamespaceEntry>, buf: Seq<u8>, i: int) -> bool {
    0 <= i < bs.len() && bs[i].value_len > 0
        && forall|j: int| i < j < bs.len() ==> (#[trigger] bs[j]).spec_prefix(buf) != bs[i].spec_prefix(buf)
}
/// a listed binding is what resolution of its prefix yields (C05: "the in-scope prefix listing agrees with this")
pub proof fn lemma_listed_resolves(bs: Seq<ns_::NamespaceEntry>, buf: Seq<u8>, i: int)
    requires listed(bs, buf, i)
    ensures spec_resolve(bs, buf, bs[i].spec_prefix(buf), true) == AbsRes::Bound(bs[i].spec_value(buf))
{
    let p = bs[i].spec_prefix(buf);
    assert forall|j: int| i < j < bs.len() implies (#[trigger] bs[j]).decides(buf, p, true) is None by {
        assert(bs[j].spec_prefix(buf) != p);
    }
    lemma_resolve_at(bs, buf, p, true, i);
}
pub open spec fn pd_view<'a>(p: ns_::PrefixDeclaration<'a>) -> Option<Seq<u8>> {
    match p { ns_::PrefixDeclaration::Default => None, ns_::PrefixDeclaration::Named(x) => Some(x@) }
}
