// ---------------------------------------------------------------------------------------------
// Spec vocabulary for namespaces (C05).
// ---------------------------------------------------------------------------------------------
impl ns_::NamespaceResolver {
    /// representation invariant: entries are laid out consecutively in `buffer`, levels never decrease
    /// towards the end and never exceed the current nesting level
    pub open spec fn wf(&self) -> bool {
        &&& forall|i: int| 0 <= i < self.bindings@.len() ==> (#[trigger] self.bindings@[i]).start + self.bindings@[i].prefix_len + self.bindings@[i].value_len <= self.buffer@.len()
        &&& forall|i: int, j: int| 0 <= i <= j < self.bindings@.len() ==> self.bindings@[i].level <= self.bindings@[j].level
        &&& forall|i: int, j: int| 0 <= i < j < self.bindings@.len() ==> self.bindings@[i].start + self.bindings@[i].prefix_len + self.bindings@[i].value_len <= self.bindings@[j].start
        &&& forall|i: int| 0 <= i < self.bindings@.len() ==> (#[trigger] self.bindings@[i]).level <= self.nesting_level
    }
}
impl<R> ns_::NsReader<R> {
    /// C05 scope discipline: one namespace scope per open element, plus the scope of the element whose
    /// Empty/End event was handed out last (it is closed by the next read)
    pub closed spec fn inv(&self) -> bool {
        &&& self.reader.inv()
        &&& self.ns_resolver.wf()
        &&& self.ns_resolver.nesting_level as int == self.reader.state.stack().len() + (if self.pending_pop { 1int } else { 0int })
    }
}
