// ---------------------------------------------------------------------------------------------
// Spec vocabulary for the byte scanners, written from the XML grammar and the statement of C01
// (not from the code):
//   * a start/end tag ends at the first '>' that is outside a quoted attribute value;
//   * a processing instruction / XML declaration ends at the first "?>";
//   * a comment `<!--...-->` ends at the first "-->" whose "--" lies after the opening "<!--",
//     i.e. the '>' is at index >= 5 of the bytes after '<' (so `<!-->` and `<!--->` are not comments);
//   * a CDATA section ends at the first "]]>";
//   * a DOCTYPE ends at the first '>' at '<'/'>' nesting depth 0.
// ---------------------------------------------------------------------------------------------

// ---- tags: quote automaton (AttValue ::= '"' [^"]* '"' | "'" [^']* "'") ----
pub open spec fn q_step(q: ElementParser, b: u8) -> ElementParser {
    match q {
        ElementParser::Outside => if b == 0x27 { ElementParser::SingleQ } else if b == 0x22 { ElementParser::DoubleQ } else { ElementParser::Outside },
        ElementParser::SingleQ => if b == 0x27 { ElementParser::Outside } else { ElementParser::SingleQ },
        ElementParser::DoubleQ => if b == 0x22 { ElementParser::Outside } else { ElementParser::DoubleQ },
    }
}
/// index of the first '>' that is read in state Outside, when scanning `s` from state `q`
pub open spec fn tag_end(q: ElementParser, s: Seq<u8>) -> Option<int> decreases s.len() {
    if s.len() == 0 { None }
    else if q is Outside && s[0] == 0x3e { Some(0int) }
    else { match tag_end(q_step(q, s[0]), s.subrange(1, s.len() as int)) { Some(i) => Some(i + 1), None => None } }
}
pub open spec fn q_after(q: ElementParser, s: Seq<u8>) -> ElementParser decreases s.len() {
    if s.len() == 0 { q } else { q_after(q_step(q, s[0]), s.subrange(1, s.len() as int)) }
}

pub proof fn lemma_tag_concat(q: ElementParser, a: Seq<u8>, b: Seq<u8>)
    ensures
        tag_end(q, a + b) == (match tag_end(q, a) {
            Some(i) => Some(i),
            None => match tag_end(q_after(q, a), b) { Some(j) => Some(a.len() + j), None => None },
        }),
        tag_end(q, a) is None ==> q_after(q, a + b) == q_after(q_after(q, a), b),
    decreases a.len()
{
    if a.len() == 0 {
        assert(a + b =~= b);
    } else {
        let a1 = a.subrange(1, a.len() as int);
        assert((a + b).subrange(1, (a + b).len() as int) =~= a1 + b);
        assert((a + b)[0] == a[0]);
        if !(q is Outside && a[0] == 0x3e) {
            lemma_tag_concat(q_step(q, a[0]), a1, b);
        }
    }
}
pub proof fn lemma_tag_bounds(q: ElementParser, s: Seq<u8>)
    ensures tag_end(q, s) matches Some(i) ==> 0 <= i < s.len() && s[i] == 0x3e
    decreases s.len()
{
    if s.len() > 0 && !(q is Outside && s[0] == 0x3e) { lemma_tag_bounds(q_step(q, s[0]), s.subrange(1, s.len() as int)); }
}
/// bytes that are none of `>`, `'`, `"` neither end the tag nor change the quote state
pub proof fn lemma_tag_plain(q: ElementParser, s: Seq<u8>)
    requires forall|j: int| 0 <= j < s.len() ==> !memchr::is_needle3(0x3e, 0x27, 0x22, #[trigger] s[j])
    ensures tag_end(q, s) is None, q_after(q, s) == q
    decreases s.len()
{
    if s.len() > 0 { lemma_tag_plain(q, s.subrange(1, s.len() as int)); }
}
pub proof fn lemma_tag_one(q: ElementParser, b: u8)
    ensures tag_end(q, seq![b]) == (if q is Outside && b == 0x3e { Some(0int) } else { None }),
            q_after(q, seq![b]) == q_step(q, b),
{
    reveal_with_fuel(tag_end, 2); reveal_with_fuel(q_after, 2);
    assert(seq![b].subrange(1, 1) =~= Seq::<u8>::empty());
}

// ---- processing instructions: first "?>" ; `prev` = the byte before s[0] was '?' ----
pub open spec fn pi_end(prev: bool, s: Seq<u8>) -> Option<int> decreases s.len() {
    if s.len() == 0 { None }
    else if prev && s[0] == 0x3e { Some(0int) }
    else { match pi_end(s[0] == 0x3f, s.subrange(1, s.len() as int)) { Some(i) => Some(i + 1), None => None } }
}
/// explicit characterisation: `i` is the index of a '>' that directly follows a '?'
pub open spec fn pi_term(prev: bool, s: Seq<u8>, i: int) -> bool {
    0 <= i < s.len() && s[i] == 0x3e && (if i == 0 { prev } else { s[i - 1] == 0x3f })
}
pub proof fn lemma_pi_first(prev: bool, s: Seq<u8>)
    ensures match pi_end(prev, s) {
        Some(i) => pi_term(prev, s, i) && forall|j: int| 0 <= j < i ==> !pi_term(prev, s, j),
        None => forall|j: int| 0 <= j < s.len() ==> !pi_term(prev, s, j),
    }
    decreases s.len()
{
    if s.len() > 0 && !(prev && s[0] == 0x3e) {
        let s1 = s.subrange(1, s.len() as int);
        lemma_pi_first(s[0] == 0x3f, s1);
        assert forall|j: int| 1 <= j < s.len() implies pi_term(prev, s, j) == pi_term(s[0] == 0x3f, s1, j - 1) by {}
        match pi_end(s[0] == 0x3f, s1) {
            Some(i1) => {
                assert forall|j: int| 0 <= j < i1 + 1 implies !pi_term(prev, s, j) by {
                    if j >= 1 { assert(!pi_term(s[0] == 0x3f, s1, j - 1)); }
                }
            }
            None => {
                assert forall|j: int| 0 <= j < s.len() implies !pi_term(prev, s, j) by {
                    if j >= 1 { assert(!pi_term(s[0] == 0x3f, s1, j - 1)); }
                }
            }
        }
    }
}
/// the unique decision given the explicit characterisation
pub proof fn lemma_pi_decide(prev: bool, s: Seq<u8>, i: int)
    requires pi_term(prev, s, i), forall|j: int| 0 <= j < i ==> !pi_term(prev, s, j)
    ensures pi_end(prev, s) == Some(i)
{
    lemma_pi_first(prev, s);
    match pi_end(prev, s) {
        Some(k) => { if k < i { assert(!pi_term(prev, s, k)); } else if k > i { assert(pi_term(prev, s, i)); } }
        None => { assert(!pi_term(prev, s, i)); }
    }
}
pub proof fn lemma_pi_none(prev: bool, s: Seq<u8>)
    requires forall|j: int| 0 <= j < s.len() ==> !pi_term(prev, s, j)
    ensures pi_end(prev, s) is None
{
    lemma_pi_first(prev, s);
    match pi_end(prev, s) { Some(k) => { assert(pi_term(prev, s, k)); } None => {} }
}
pub open spec fn pi_last(prev: bool, s: Seq<u8>) -> bool {
    if s.len() == 0 { prev } else { s[s.len() - 1] == 0x3f }
}
pub proof fn lemma_pi_concat(prev: bool, a: Seq<u8>, b: Seq<u8>)
    ensures
        pi_end(prev, a + b) == (match pi_end(prev, a) {
            Some(i) => Some(i),
            None => match pi_end(pi_last(prev, a), b) { Some(j) => Some(a.len() + j), None => None },
        }),
    decreases a.len()
{
    if a.len() == 0 {
        assert(a + b =~= b);
    } else {
        let a1 = a.subrange(1, a.len() as int);
        assert((a + b).subrange(1, (a + b).len() as int) =~= a1 + b);
        assert((a + b)[0] == a[0]);
        if !(prev && a[0] == 0x3e) {
            lemma_pi_concat(a[0] == 0x3f, a1, b);
            if a1.len() > 0 { assert(a1[a1.len() - 1] == a[a.len() - 1]); }
        }
    }
}

// ---- `<!` constructs; `t` are the bytes after '<', so t[0] == '!' ----
pub open spec fn comment_term(t: Seq<u8>, k: int) -> bool {
    5 <= k < t.len() && t[k] == 0x3e && t[k - 1] == 0x2d && t[k - 2] == 0x2d
}
pub open spec fn cdata_term(t: Seq<u8>, k: int) -> bool {
    2 <= k < t.len() && t[k] == 0x3e && t[k - 1] == 0x5d && t[k - 2] == 0x5d
}
/// number of '<' minus number of '>' in s
pub open spec fn dt_bal(s: Seq<u8>) -> int decreases s.len() {
    if s.len() == 0 { 0 } else {
        dt_bal(s.subrange(0, s.len() - 1)) + (if s[s.len() - 1] == 0x3c { 1int } else if s[s.len() - 1] == 0x3e { -1int } else { 0int })
    }
}
pub open spec fn doctype_term(t: Seq<u8>, k: int) -> bool {
    0 <= k < t.len() && t[k] == 0x3e && dt_bal(t.subrange(0, k)) == 0
}
/// generic "k is the first index satisfying term"
pub open spec fn bang_term(ty: BangType, t: Seq<u8>, k: int) -> bool {
    match ty {
        BangType::Comment => comment_term(t, k),
        BangType::CData => cdata_term(t, k),
        BangType::DocType(_) => doctype_term(t, k),
    }
}
pub open spec fn no_bang_term_before(ty: BangType, t: Seq<u8>, n: int) -> bool {
    forall|j: int| 0 <= j < n ==> !bang_term(ty, t, j)
}
pub open spec fn same_kind(a: BangType, b: BangType) -> bool {
    (a is Comment && b is Comment) || (a is CData && b is CData) || (a is DocType && b is DocType)
}
pub proof fn lemma_dt_bal_step(s: Seq<u8>, n: int)
    requires 0 <= n < s.len()
    ensures dt_bal(s.subrange(0, n + 1)) == dt_bal(s.subrange(0, n)) + (if s[n] == 0x3c { 1int } else if s[n] == 0x3e { -1int } else { 0int })
{
    let p = s.subrange(0, n + 1);
    assert(p.subrange(0, p.len() - 1) =~= s.subrange(0, n));
    assert(p[p.len() - 1] == s[n]);
}
pub proof fn lemma_dt_bal_plain(s: Seq<u8>, lo: int, hi: int)
    requires 0 <= lo <= hi <= s.len(), forall|j: int| lo <= j < hi ==> s[j] != 0x3c && s[j] != 0x3e
    ensures dt_bal(s.subrange(0, hi)) == dt_bal(s.subrange(0, lo))
    decreases hi - lo
{
    if lo < hi {
        lemma_dt_bal_plain(s, lo, hi - 1);
        lemma_dt_bal_step(s, hi - 1);
    }
}
pub proof fn lemma_dt_bal_bound(s: Seq<u8>)
    ensures dt_bal(s) <= s.len()
    decreases s.len()
{
    if s.len() > 0 { lemma_dt_bal_bound(s.subrange(0, s.len() - 1)); }
}
/// on a prefix without terminator the balance never goes negative
pub proof fn lemma_dt_bal_nonneg(t: Seq<u8>, n: int)
    requires 0 <= n <= t.len(), forall|j: int| 0 <= j < n ==> !doctype_term(t, j)
    ensures dt_bal(t.subrange(0, n)) >= 0
    decreases n
{
    if n > 0 {
        lemma_dt_bal_nonneg(t, n - 1);
        lemma_dt_bal_step(t, n - 1);
        if t[n - 1] == 0x3e { assert(!doctype_term(t, n - 1)); }
    } else {
        assert(t.subrange(0, 0) =~= Seq::<u8>::empty());
    }
}

/// whether index k terminates the construct depends only on the bytes up to k
pub proof fn lemma_bang_term_prefix(ty: BangType, t: Seq<u8>, n: int, k: int)
    requires 0 <= k < n <= t.len()
    ensures bang_term(ty, t.subrange(0, n), k) == bang_term(ty, t, k)
{
    assert(t.subrange(0, n).subrange(0, k) =~= t.subrange(0, k));
}

impl BangType {
    pub open spec fn spec_to_err(&self) -> SyntaxError {
        match self {
            BangType::CData => SyntaxError::UnclosedCData,
            BangType::Comment => SyntaxError::UnclosedComment,
            BangType::DocType(_) => SyntaxError::UnclosedDoctype,
        }
    }
}
