// ---------------------------------------------------------------------------------------------
// U-deio: the text-trimming helpers shared by the from_str and from_reader paths of the serde
// deserializer (C14): trimming a borrowed and an owned text gives the same bytes.
// ---------------------------------------------------------------------------------------------
pub mod deio_ {
use super::*;
use vstd::prelude::*;
use std::mem::replace;

/// t is a contiguous piece of s
pub open spec fn is_piece_of(t: Seq<u8>, s: Seq<u8>) -> bool {
    exists|lo: int| 0 <= lo && lo + t.len() <= s.len() && t == #[trigger] s.subrange(lo, lo + t.len())
}

//@extract utils::trim_xml_start | src/utils.rs :: fn trim_xml_start | serves=C14,C16
 pub fn trim_xml_start(mut bytes: &[u8]) -> (r: &[u8])
    ensures r@ == trimmed_start(bytes@), is_piece_of(r@, bytes@)
 {
    let ghost b0 = bytes@;
    let ghost mut lo: int = 0;
    proof { assert(b0.subrange(0, b0.len() as int) =~= b0); }
    // Note: A pattern matching based approach (instead of indexing) allows
    // making the function const.
    loop
        invariant 0 <= lo <= b0.len(), bytes@ == b0.subrange(lo, b0.len() as int), trimmed_start(bytes@) == trimmed_start(b0),
        ensures trimmed_start(bytes@) == bytes@,
        decreases bytes@.len()
    { match bytes.split_first() { Some((first, rest)) => {
        if is_whitespace(*first) {
            proof {
                assert(rest@ =~= b0.subrange(lo + 1, b0.len() as int));
                assert(bytes@.subrange(1, bytes@.len() as int) =~= rest@);
                lo = lo + 1;
            }
            bytes = rest;
        } else {
            break;
        }
    } _ => { break; } } }
    proof { assert(bytes@ == b0.subrange(lo, lo + bytes@.len() as int)); }
    bytes
}
//@end

//@extract utils::trim_xml_end | src/utils.rs :: fn trim_xml_end | serves=C14,C16
 pub fn trim_xml_end(mut bytes: &[u8]) -> (r: &[u8])
    ensures r@ == trimmed_end(bytes@), is_piece_of(r@, bytes@)
 {
    let ghost b0 = bytes@;
    proof { assert(b0.subrange(0, b0.len() as int) =~= b0); }
    // Note: A pattern matching based approach (instead of indexing) allows
    // making the function const.
    loop
        invariant bytes@.len() <= b0.len(), bytes@ == b0.subrange(0, bytes@.len() as int), trimmed_end(bytes@) == trimmed_end(b0),
        ensures trimmed_end(bytes@) == bytes@,
        decreases bytes@.len()
    { match bytes.split_last() { Some((last, rest)) => {
        if is_whitespace(*last) {
            proof {
                assert(rest@ =~= b0.subrange(0, bytes@.len() - 1));
                assert(bytes@.drop_last() =~= rest@);
            }
            bytes = rest;
        } else {
            break;
        }
    } _ => { break; } } }
    proof { assert(bytes@ == b0.subrange(0, 0 + bytes@.len() as int)); }
    bytes
}
//@end

//@extract events::trim_cow | src/events/mod.rs :: fn trim_cow | serves=C14
pub fn trim_cow<'a, F>(value: Cow<'a, [u8]>, trim: F) -> (r: Cow<'a, [u8]>)
where
    F: FnOnce(&[u8]) -> &[u8],
    requires
        forall|s: &[u8]| trim.requires((s,)),
        // `trim` returns a piece of its argument (a trimming function)
        forall|s: &[u8], t: &[u8]| trim.ensures((s,), t) ==> is_piece_of(t@, s@),
    ensures
        // C14: whether the text is borrowed (from_str) or owned (from_reader), the result holds exactly what
        // `trim` returns for these bytes
        exists|s: &[u8], t: &[u8]| s@ == value@ && #[trigger] trim.ensures((s,), t) && r@ == t@,
{
    proof { axiom_cloned_u8(); }
    match value {
        Cow::Borrowed(bytes) => Cow::Borrowed(trim(bytes)),
        Cow::Owned(mut bytes) => {
            let ghost b0 = bytes@;
            let trimmed = trim(&bytes);
            let ghost t0 = trimmed@;
            if trimmed.len() != bytes.len() {
                bytes = trimmed.to_vec();
                proof { assert(bytes@ =~= t0); }
            } else {
                proof {
                    assert(is_piece_of(t0, b0));
                    let lo = choose|lo: int| 0 <= lo && lo + t0.len() <= b0.len() && t0 == #[trigger] b0.subrange(lo, lo + t0.len());
                    assert(lo == 0);
                    assert(b0.subrange(0, b0.len() as int) =~= b0);
                }
            }
            Cow::Owned(bytes)
        }
    }
}
//@end

impl<'a> BytesText<'a> {
//@extract events::BytesText::inplace_trim_start | src/events/mod.rs :: impl<'a> BytesText<'a> :: fn inplace_trim_start | serves=C14
 pub fn inplace_trim_start(&mut self) -> (r: bool)
        ensures final(self).content@ == trimmed_start(old(self).content@), final(self).decoder == old(self).decoder,
            r == (final(self).content@.len() == 0),
 {
        self.content = trim_cow(
            replace(&mut self.content, Cow::Borrowed(&[])),
            trim_xml_start,
        );
        proof { axiom_cow_bytes(&self.content); }
        self.content.is_empty()
    }
//@end
//@extract events::BytesText::inplace_trim_end | src/events/mod.rs :: impl<'a> BytesText<'a> :: fn inplace_trim_end | serves=C14
 pub fn inplace_trim_end(&mut self) -> (r: bool)
        ensures final(self).content@ == trimmed_end(old(self).content@), final(self).decoder == old(self).decoder,
            r == (final(self).content@.len() == 0),
 {
        self.content = trim_cow(replace(&mut self.content, Cow::Borrowed(&[])), trim_xml_end);
        proof { axiom_cow_bytes(&self.content); }
        self.content.is_empty()
    }
//@end
}
}
