// ---------------------------------------------------------------------------------------------
// U-deio: the text-trimming helpers shared by the from_str and from_reader paths of the serde
// deserializer (C14): trimming a borrowed and an owned text gives the same bytes.
// ---------------------------------------------------------------------------------------------
pub mod deio_ {
use super::*;
use vstd::prelude::*;
use std::mem::replace;

/// t is a contiguous piece of s
pub open spec fn is_piece_of(t: Seq<u8>, s: Seq<u8>) -> bool {
    exists|lo: int| 0 <= lo && lo + t.len() <= s.len() && t == #[trigger] s.subrange(lo, lo + t.len())
}

//@extract utils::trim_xml_start | src/utils.rs :: fn trim_xml_start | serves=C14,C16
 pub fn trim_xml_start(mut bytes: &[u8]) -> (r: &[u8])
    ensures r@ == trimmed_start(bytes@), is_piece_of(r@, bytes@)
 {
    let ghost b0 = bytes@;
    let ghost mut lo: int = 0;
    proof { assert(b0.subrange(0, b0.len() as int) =~= b0); }
    // Note: A pattern matching based approach (instead of indexing) allows
    // making the function const.
    loop
        invariant 0 <= lo <= b0.len(), bytes@ == b0.subrange(lo, b0.len() as int), trimmed_start(bytes@) == trimmed_start(b0),
        ensures trimmed_start(bytes@) == bytes@,
        decreases bytes@.len()
    { match bytes.split_first() { Some((first, rest)) => {
        if is_whitespace(*first) {
            proof {
                assert(rest@ =~= b0.subrange(lo + 1, b0.len() as int));
                assert(bytes@.subrange(1, bytes@.len() as int) =~= rest@);
                lo = lo + 1;
            }
            bytes = rest;
        } else {
            break;
        }
    } _ => { break; } } }
    proof { assert(bytes@ == b0.subrange(lo, lo + bytes@.len() as int)); }
    bytes
}
//@end

//@extract utils::trim_xml_end | src/utils.rs :: fn trim_xml_end | serves=C14,C16
 pub fn trim_xml_end(mut bytes: &[u8]) -> (r: &[u8])
    ensures r@ == trimmed_end(bytes@), is_piece_of(r@, bytes@)
 {
    let ghost b0 = bytes@;
    proof { assert(b0.subrange(0, b0.len() as int) =~= b0); }
    // Note: A pattern matching based approach (instead of indexing) allows
    // making the function const.
    loop
        invariant bytes@.len() <= b0.len(), bytes@ == b0.subrange(0, bytes@.len() as int), trimmed_end(bytes@) == trimmed_end(b0),
        ensures trimmed_end(bytes@) == bytes@,
        decreases bytes@.len()
    { match bytes.split_last() { Some((last, rest)) => {
        if is_whitespace(*last) {
            proof {
                assert(rest@ =~= b0.subrange(0, bytes@.len() - 1));
                assert(bytes@.drop_last() =~= rest@);
            }
            bytes = rest;
        } else {
            break;
        }
    } _ => { break; } } }
    proof { assert(bytes@ == b0.subrange(0, 0 + bytes@.len() as int)); }
    bytes
}
//@end

//@extract events::trim_cow | src/events/mod.rs :: fn trim_cow | serves=C14
pub fn trim_cow<'a, F>(value: Cow<'a, [u8]>, trim: F) -> (r: Cow<'a, [u8]>)
where
    F: FnOnce(&[u8]) -> &[u8],
    requires
        forall|s: &[u8]| trim.requires((s,)),
        // `trim` returns a piece of its argument (a trimming function)
        forall|s: &[u8], t: &[u8]| trim.ensures((s,), t) ==> is_piece_of(t@, s@),
    ensures
        // C14: whether the text is borrowed (from_str) or owned (from_reader), the result holds exactly what
        // `trim` returns for these bytes
        exists|s: &[u8], t: &[u8]| s@ == value@ && #[trigger] trim.ensures((s,), t) && r@ == t@,
{
    proof { axiom_cloned_u8(); }
    match value {
        Cow::Borrowed(bytes) => Cow::Borrowed(trim(bytes)),
        Cow::Owned(mut bytes) => {
            let ghost b0 = bytes@;
            let trimmed = trim(&bytes);
            let ghost t0 = trimmed@;
            if trimmed.len() != bytes.len() {
                bytes = trimmed.to_vec();
                proof { assert(bytes@ =~= t0); }
            } else {
                proof {
                    assert(is_piece_of(t0, b0));
                    let lo = choose|lo: int| 0 <= lo && lo + t0.len() <= b0.len() && t0 == #[trigger] b0.subrange(lo, lo + t0.len());
                    assert(lo == 0);
                    assert(b0.subrange(0, b0.len() as int) =~= b0);
                }
            }
            Cow::Owned(bytes)
        }
    }
}
//@end

impl<'a> BytesText<'a> {
//@extract events::BytesText::inplace_trim_start | src/events/mod.rs :: impl<'a> BytesText<'a> :: fn inplace_trim_start | serves=C14
 pub fn inplace_trim_start(&mut self) -> (r: bool)
        ensures final(self).content@ == trimmed_start(old(self).content@), final(self).decoder == old(self).decoder,
            r == (final(self).content@.len() == 0),
 {
        self.content = trim_cow(
            replace(&mut self.content, Cow::Borrowed(&[])),
            trim_xml_start,
        );
        proof { axiom_cow_bytes(&self.content); }
        self.content.is_empty()
    }
//@end
//@extract events::BytesText::inplace_trim_end | src/events/mod.rs :: impl<'a> BytesText<'a> :: fn inplace_trim_end | serves=C14
 pub fn inplace_trim_end(&mut self) -> (r: bool)
        ensures final(self).content@ == trimmed_end(old(self).content@), final(self).decoder == old(self).decoder,
            r == (final(self).content@.len() == 0),
 {
        self.content = trim_cow(replace(&mut self.content, Cow::Borrowed(&[])), trim_xml_end);
        proof { axiom_cow_bytes(&self.content); }
        self.content.is_empty()
    }
//@end
}

// ---- from_reader hands out OWNED events, from_str BORROWED ones: the conversion keeps every byte ----
/// std: `Cow::<[u8]>::into_owned` gives a vector with the same bytes (borrowed: a copy; owned: the vector itself)
pub axiom fn axiom_into_owned_bytes<'a>(c: Cow<'a, [u8]>)
    ensures spec_cow_into_owned(c)@ == c@;

impl<'a> BytesStart<'a> {
//@extract events::BytesStart::into_owned | src/events/mod.rs :: impl<'a> BytesStart<'a> :: fn into_owned | serves=C14
 pub fn into_owned(self) -> (r: BytesStart<'static>)
        // C14: the owned event has the same bytes and the same name length
        ensures r.buf@ == self.buf@, r.name_len == self.name_len
 {
        proof { axiom_into_owned_bytes(self.buf); }
        BytesStart {
            buf: Cow::Owned(self.buf.into_owned()),
            name_len: self.name_len,
        }
    }
//@end
}
impl<'a> BytesEnd<'a> {
//@extract events::BytesEnd::into_owned | src/events/mod.rs :: impl<'a> BytesEnd<'a> :: fn into_owned | serves=C14
 pub fn into_owned(self) -> (r: BytesEnd<'static>)
        ensures r.name@ == self.name@
 {
        proof { axiom_into_owned_bytes(self.name); }
        BytesEnd {
            name: Cow::Owned(self.name.into_owned()),
        }
    }
//@end
}
impl<'a> BytesText<'a> {
//@extract events::BytesText::into_owned | src/events/mod.rs :: impl<'a> BytesText<'a> :: fn into_owned | serves=C14,C17
 pub fn into_owned(self) -> (r: BytesText<'static>)
        ensures r.content@ == self.content@, r.decoder == self.decoder
 {
        proof { axiom_into_owned_bytes(self.content); }
        BytesText {
            content: self.content.into_owned().into(),
            decoder: self.decoder,
        }
    }
//@end
}
impl<'a> BytesCData<'a> {
//@extract events::BytesCData::into_owned | src/events/mod.rs :: impl<'a> BytesCData<'a> :: fn into_owned | serves=C14,C17
 pub fn into_owned(self) -> (r: BytesCData<'static>)
        ensures r.content@ == self.content@, r.decoder == self.decoder
 {
        proof { axiom_into_owned_bytes(self.content); }
        BytesCData {
            content: self.content.into_owned().into(),
            decoder: self.decoder,
        }
    }
//@end
}

//@extract de::PayloadEvent | src/de/mod.rs :: enum PayloadEvent | serves=C14 features=serialize
 pub enum PayloadEvent<'a> {
    /// Start tag (with attributes) `<tag attr="value">`.
    Start(BytesStart<'a>),
    /// End tag `</tag>`.
    End(BytesEnd<'a>),
    /// Escaped character data between tags.
    Text(BytesText<'a>),
    /// Unescaped character data stored in `<![CDATA[...]]>`.
    CData(BytesCData<'a>),
    /// Document type definition data (DTD) stored in `<!DOCTYPE ...>`.
    DocType(BytesText<'a>),
    /// End of XML document.
    Eof,
}
//@end
/// same kind, same bytes, same name length
pub open spec fn same_payload<'a, 'b>(a: PayloadEvent<'a>, b: PayloadEvent<'b>) -> bool {
    match (a, b) {
        (PayloadEvent::Start(x), PayloadEvent::Start(y)) => x.buf@ == y.buf@ && x.name_len == y.name_len,
        (PayloadEvent::End(x), PayloadEvent::End(y)) => x.name@ == y.name@,
        (PayloadEvent::Text(x), PayloadEvent::Text(y)) => x.content@ == y.content@ && x.decoder == y.decoder,
        (PayloadEvent::CData(x), PayloadEvent::CData(y)) => x.content@ == y.content@ && x.decoder == y.decoder,
        (PayloadEvent::DocType(x), PayloadEvent::DocType(y)) => x.content@ == y.content@ && x.decoder == y.decoder,
        (PayloadEvent::Eof, PayloadEvent::Eof) => true,
        _ => false,
    }
}
/// what the start trimmer makes of a raw event when `trim_start` is set or not: comments, processing instructions,
/// declarations and empty-element events are dropped; a text loses its leading whitespace if the previous payload
/// event was markup, and is dropped if nothing is left
pub open spec fn trim_spec<'a>(trim_start: bool, e: Event<'a>, r: Option<PayloadEvent<'a>>, trim_next: bool) -> bool {
    match e {
        Event::DocType(x) => r == Some(PayloadEvent::DocType(x)) && trim_next,
        Event::Start(x) => r == Some(PayloadEvent::Start(x)) && trim_next,
        Event::End(x) => r == Some(PayloadEvent::End(x)) && trim_next,
        Event::Eof => r == Some(PayloadEvent::<'a>::Eof) && trim_next,
        Event::CData(x) => r == Some(PayloadEvent::CData(x)) && !trim_next,
        Event::Text(x) => {
            let c = if trim_start { trimmed_start(x.content@) } else { x.content@ };
            if trim_start && c.len() == 0 { r is None && trim_next == trim_start }
            else { r matches Some(PayloadEvent::Text(y)) && y.content@ == c && y.decoder == x.decoder && !trim_next }
        },
        _ => r is None && trim_next == trim_start,
    }
}
impl<'a> PayloadEvent<'a> {
//@extract de::PayloadEvent::into_owned | src/de/mod.rs :: impl<'a> PayloadEvent<'a> :: fn into_owned | serves=C14 features=serialize
    pub fn into_owned(self) -> (r: PayloadEvent<'static>)
        // C14: what from_reader hands out is, byte for byte, what from_str hands out
        ensures same_payload(self, r)
    {
        match self {
            PayloadEvent::Start(e) => PayloadEvent::Start(e.into_owned()),
            PayloadEvent::End(e) => PayloadEvent::End(e.into_owned()),
            PayloadEvent::Text(e) => PayloadEvent::Text(e.into_owned()),
            PayloadEvent::CData(e) => PayloadEvent::CData(e.into_owned()),
            PayloadEvent::DocType(e) => PayloadEvent::DocType(e.into_owned()),
            PayloadEvent::Eof => PayloadEvent::Eof,
        }
    }
//@end
}
//@extract de::StartTrimmer | src/de/mod.rs :: struct StartTrimmer | serves=C14 features=serialize
////////////////////////////////////////////////////////////////////////////////////////////////////

/// Helper struct that contains a state for an algorithm of converting events
/// from raw events to semi-trimmed events that is independent from a way of
/// events reading.
pub struct StartTrimmer {
    /// If `true`, then leading whitespace will be removed from next returned
    /// [`Event::Text`]. This field is set to `true` after reading each event
    /// except [`Event::Text`] and [`Event::CData`], so [`Event::Text`] events
    /// read right after them does not trimmed.
    pub trim_start: bool,
}
//@end
impl Default for StartTrimmer {
//@extract de::StartTrimmer::default | src/de/mod.rs :: impl Default for StartTrimmer :: fn default | serves=C14 features=serialize
    fn default() -> (r: Self)
        // the first text of a document is trimmed at its start
        ensures r.trim_start
    {
        Self { trim_start: true }
    }
//@end
}
impl StartTrimmer {
//@extract de::StartTrimmer::trim | src/de/mod.rs :: impl StartTrimmer :: fn trim | serves=C14 features=serialize
    pub fn trim<'a>(&mut self, event: Event<'a>) -> (r: Option<PayloadEvent<'a>>)
        // C14: one function serves both paths; what it does depends on the event and the flag only
        ensures trim_spec(old(self).trim_start, event, r, final(self).trim_start)
    {
        let (event, trim_next_event) = match event {
            Event::DocType(e) => (PayloadEvent::DocType(e), true),
            Event::Start(e) => (PayloadEvent::Start(e), true),
            Event::End(e) => (PayloadEvent::End(e), true),
            Event::Eof => (PayloadEvent::Eof, true),

            // Do not trim next text event after Text or CDATA event
            Event::CData(e) => (PayloadEvent::CData(e), false),
            Event::Text(mut e) => {
                // If event is empty after trimming, skip it
                if self.trim_start && e.inplace_trim_start() {
                    return None;
                }
                (PayloadEvent::Text(e), false)
            }

            _ => return None,
        };
        self.trim_start = trim_next_event;
        Some(event)
    }
//@end
}
}
