// ---------------------------------------------------------------------------------------------
// U-decode (feature `encoding`; C17 "bytes that are malformed in the active encoding give a decoding error,
// never replacement characters"): `encoding::decode` and `encoding::decode_into` on the real text, against an
// ASSUMED model of the encoding_rs API they call. The model is the documentation of encoding_rs 0.8:
//   * `strict_decode(e, bytes)`: the decoding of `bytes` in `e` without BOM handling, None if any sequence is
//     malformed -- this is what C17 calls "decoding"; it is uninterpreted here;
//   * the *_without_replacement functions return it; the replacing / BOM-removing variants return something else;
//   * a streaming decoder that is told `last = false` may hold back a trailing incomplete sequence.
// What is proved is that quick-xml asks the library for the strict, complete decoding and turns "malformed"
// into an error. What the library does with the bytes is not (and cannot be) proved here.
// ---------------------------------------------------------------------------------------------
pub mod decode_ {
use super::*;
use vstd::prelude::*;
use vstd::string::StringSliceAdditionalSpecFns;
use core::str::Utf8Error;

/// decoding of `bytes` in encoding `e`, no BOM handling, None if malformed (assumed, uninterpreted)
pub uninterp spec fn strict_decode(e: &Encoding, bytes: Seq<u8>) -> Option<Seq<char>>;
/// decoding with U+FFFD for malformed sequences, after removing a BOM of the encoding (assumed, uninterpreted)
pub uninterp spec fn lossy_decode_bom_removed(e: &Encoding, bytes: Seq<u8>) -> (Seq<char>, bool);
/// what a streaming decoder has produced for `bytes` when it was not told that the input ends: the decoding of
/// some prefix (a trailing incomplete sequence is held back); None if a malformed sequence was met
pub uninterp spec fn partial_decode(e: &Encoding, bytes: Seq<u8>) -> Option<Seq<char>>;
/// std::str::from_utf8 is the strict UTF-8 decoder (assumed: encoding_rs and std agree on UTF-8)
pub uninterp spec fn utf8_chars(bytes: Seq<u8>) -> Option<Seq<char>>;
pub axiom fn axiom_utf8_strict(e: &Encoding, bytes: Seq<u8>)
    requires e.id == 0
    ensures strict_decode(e, bytes) == utf8_chars(bytes);

#[verifier::external_type_specification]
#[verifier::external_body]
pub struct ExUtf8Error(core::str::Utf8Error);
pub assume_specification<'a>[ core::str::from_utf8 ](v: &'a [u8]) -> (r: core::result::Result<&'a str, core::str::Utf8Error>)
    ensures match r { Ok(s) => utf8_chars(v@) == Some(s@), Err(_) => utf8_chars(v@) is None };

impl PartialEq for Encoding {
    /// encoding_rs: encodings are compared by identity; the model gives each static its own id
    fn eq(&self, o: &Encoding) -> (r: bool) ensures r == (self.id == o.id) { self.id == o.id }
}
impl vstd::std_specs::cmp::PartialEqSpecImpl for Encoding {
    open spec fn obeys_eq_spec() -> bool { true }
    open spec fn eq_spec(&self, o: &Self) -> bool { self.id == o.id }
}
pub enum DecoderResult { InputEmpty, OutputFull, Malformed(u8, u8) }
/// model of encoding_rs::Decoder: remembers its encoding
pub struct RsDecoder { pub enc: &'static Encoding }
impl Encoding {
    #[verifier::external_body]
    pub fn decode_without_bom_handling_and_without_replacement<'a>(&'static self, bytes: &'a [u8]) -> (r: Option<Cow<'a, str>>)
        ensures match r { Some(s) => strict_decode(self, bytes@) == Some(s@), None => strict_decode(self, bytes@) is None }
    { unimplemented!() }
    #[verifier::external_body]
    pub fn decode_with_bom_removal<'a>(&'static self, bytes: &'a [u8]) -> (r: (Cow<'a, str>, bool))
        ensures (r.0@, r.1) == lossy_decode_bom_removed(self, bytes@)
    { unimplemented!() }
    #[verifier::external_body]
    pub fn new_decoder_without_bom_handling(&'static self) -> (d: RsDecoder)
        ensures d.enc == self
    { unimplemented!() }
}
impl RsDecoder {
    /// encoding_rs: None only if the computation overflows usize (at most 3 bytes of UTF-8 per input byte, plus a few)
    #[verifier::external_body]
    pub fn max_utf8_buffer_length_without_replacement(&self, n: usize) -> (r: Option<usize>)
        ensures n <= usize::MAX / 4 ==> r is Some, r matches Some(m) ==> m == max_len(self.enc, n as nat)
    { unimplemented!() }
    /// encoding_rs: with `last == true` the whole of `src` is decoded (or found malformed); with `last == false`
    /// a trailing incomplete sequence is held back. OutputFull only if the destination has too little spare capacity.
    #[verifier::external_body]
    pub fn decode_to_string_without_replacement(&mut self, src: &[u8], dst: &mut String, last: bool) -> (r: (DecoderResult, usize))
        ensures
            final(self).enc == old(self).enc,
            match r.0 {
                DecoderResult::InputEmpty => r.1 == src@.len() && exists|out: Seq<char>| final(dst)@ == old(dst)@ + out
                    && (if last { strict_decode(old(self).enc, src@) == Some(out) } else { partial_decode(old(self).enc, src@) == Some(out) }),
                DecoderResult::Malformed(_, _) => last ==> strict_decode(old(self).enc, src@) is None,
                DecoderResult::OutputFull => spare(old(dst)) < max_len(old(self).enc, src@.len()),
            }
    { unimplemented!() }
}
/// spare capacity of a String; the worst-case output length the decoder advertises (both uninterpreted)
pub uninterp spec fn spare(dst: &String) -> nat;
pub uninterp spec fn max_len(e: &Encoding, n: nat) -> nat;
pub assume_specification[ String::reserve ](s: &mut String, additional: usize)
    ensures final(s)@ == old(s)@, spare(final(s)) >= additional;

//@extract encoding::EncodingError | src/encoding.rs :: enum EncodingError | serves=C17 features=encoding
 pub enum EncodingError {
    /// Input was not valid UTF-8
    Utf8(Utf8Error),
    /// Input did not adhere to the given encoding
    Other(&'static Encoding),
}
//@end
impl vstd::std_specs::convert::FromSpecImpl<core::str::Utf8Error> for EncodingError {
    open spec fn obeys_from_spec() -> bool { false }
    open spec fn from_spec(e: core::str::Utf8Error) -> Self { arbitrary() }
}
impl From<core::str::Utf8Error> for EncodingError {
//@extract encoding::EncodingError::from | src/encoding.rs :: impl From<Utf8Error> for EncodingError :: fn from | serves=C17 features=encoding
    fn from(e: Utf8Error) -> (r: Self)
        ensures r == EncodingError::Utf8(e)
    {
        Self::Utf8(e)
    }
//@end
}

//@extract encoding::decode | src/encoding.rs :: fn decode | serves=C17 features=encoding
 pub fn decode<'b>(
    bytes: &'b [u8],
    encoding: &'static Encoding,
) -> (r: Result<Cow<'b, str>, EncodingError>)
    // C17: the strict decoding of exactly these bytes in this encoding, or an error -- never replacement
    // characters, never a byte removed
    ensures match r {
        Ok(s) => strict_decode(encoding, bytes@) == Some(s@),
        Err(e) => strict_decode(encoding, bytes@) is None && e == EncodingError::Other(encoding),
    }
{
    encoding
        .decode_without_bom_handling_and_without_replacement(bytes)
        .ok_or(EncodingError::Other(encoding))
}
//@end

//@extract encoding::decode_into | src/encoding.rs :: fn decode_into | serves=C17 features=encoding n11=1
 pub fn decode_into(
    bytes: &[u8],
    encoding: &'static Encoding,
    buf: &mut String,
) -> (r: Result<(), EncodingError>)
    // A-size: the worst-case output length is representable
    requires bytes@.len() <= usize::MAX / 4
    // C17: the complete strict decoding of the bytes is appended, or an error is returned
    ensures match r {
        Ok(()) => exists|out: Seq<char>| strict_decode(encoding, bytes@) == Some(out) && final(buf)@ == old(buf)@ + out,
        Err(_) => strict_decode(encoding, bytes@) is None,
    }
{
    proof { if encoding.id == 0 { axiom_utf8_strict(encoding, bytes@); } }
    if encoding == UTF_8 {
        buf.push_str(match std::str::from_utf8(bytes) { Ok(v__) => v__, Err(e__) => return Err(From::from(e__)) });
        return Ok(());
    }

    let mut decoder = encoding.new_decoder_without_bom_handling();
    buf.reserve(
        decoder
            .max_utf8_buffer_length_without_replacement(bytes.len())
            // SAFETY: None can be returned only if required size will overflow usize,
            // but in that case String::reserve also panics
            .unwrap(),
    );
    let (result, read) = decoder.decode_to_string_without_replacement(bytes, buf, true);
    match result {
        DecoderResult::InputEmpty => {
            assert!(read == bytes.len());
            Ok(())
        }
        DecoderResult::Malformed(_, _) => Err(EncodingError::Other(encoding)),
        // SAFETY: We allocate enough space above
        DecoderResult::OutputFull => unreachable!(),
    }
}
//@end

// ---- the methods of `Decoder` through which every payload accessor decodes (C17: "decoding their payloads with the reader's decoder") ----
// second copies under other names: the shared fragment types.rs declares `Decoder::decode` as an uninterpreted function for the
// other units; here the REAL text is verified to be the strict decoding in the decoder's own encoding (seed C17_f: a "fast path"
// that borrows any well-formed UTF-8 unchanged)
impl Decoder {
//@extract encoding::Decoder::decode#enc | src/encoding.rs :: impl Decoder :: fn decode | serves=C17 features=encoding
//@rewrite fn decode ==> fn decode_method
 pub(crate) fn decode_method<'b>(&self, bytes: &'b [u8]) -> (r: Result<Cow<'b, str>, EncodingError>)
        // C17: the strict decoding of exactly these bytes in THE DECODER'S encoding, or an error -- whatever the bytes look like
        ensures match r {
            Ok(s) => strict_decode(self.encoding, bytes@) == Some(s@),
            Err(e) => strict_decode(self.encoding, bytes@) is None,
        }
 {

        let decoded = decode(bytes, self.encoding);

        decoded
    }
//@end
//@extract encoding::Decoder::decode_into#enc | src/encoding.rs :: impl Decoder :: fn decode_into | serves=C17 features=encoding n11=1
//@rewrite fn decode_into ==> fn decode_into_method
 pub(crate) fn decode_into_method(&self, bytes: &[u8], buf: &mut String) -> (r: Result<(), EncodingError>)
        requires bytes@.len() <= usize::MAX / 4
        ensures match r {
            Ok(()) => exists|out: Seq<char>| strict_decode(self.encoding, bytes@) == Some(out) && final(buf)@ == old(buf)@ + out,
            Err(_) => strict_decode(self.encoding, bytes@) is None,
        }
 {

        match decode_into(bytes, self.encoding, buf) { Ok(v__) => v__, Err(e__) => return Err(From::from(e__)) };

        Ok(())
    }
//@end
}
}
