// ---------------------------------------------------------------------------------------------
// U-events: constructors whose output must be legal markup (C09).
// ---------------------------------------------------------------------------------------------
pub mod events_ {
use super::*;
use vstd::prelude::*;
use vstd::string::*;

//@extract events::CDataIterator | src/events/mod.rs :: struct CDataIterator | serves=C09
 pub struct CDataIterator<'a> {
    /// The unprocessed data which should be emitted as `BytesCData` events.
    /// At each iteration, the processed data is cut from this slice.
    pub unprocessed: &'a [u8],
    pub finished: bool,
}
//@end


// (the method of `impl Iterator for CDataIterator` is hosted in an inherent impl: vstd's Iterator model is not needed for it)
impl<'a> CDataIterator<'a> {
//@extract events::CDataIterator::next | src/events/mod.rs :: impl<'a> Iterator for CDataIterator<'a> :: fn next | serves=C09
    #[verifier::loop_isolation(false)]
    pub fn next(&mut self) -> (r: Option<BytesCData<'a>>)
        ensures
            // C09: splitting arbitrary content into CDATA sections
            old(self).finished ==> r is None && *final(self) == *old(self),          // ends and stays ended
            !old(self).finished ==> match r {
                None => false,
                Some(chunk) => {
                    let u = old(self).unprocessed@;
                    &&& forall|k: int| !cdata_close_at(chunk.content@, k)                // each section body is free of "]]>"
                    &&& if final(self).finished {
                            // the last section is everything that was left
                            chunk.content@ == u
                        } else {
                            &&& chunk.content@ + final(self).unprocessed@ == u            // nothing lost, nothing invented
                            // the cut is between "]]" and ">": the next section starts with '>'
                            &&& chunk.content@.len() >= 2 && chunk.content@.len() < u.len()
                            &&& cdata_close_at(u, chunk.content@.len() as int)
                            &&& final(self).unprocessed@.len() < u.len()                // progress
                        }
                },
            },
    {
        let ghost u = self.unprocessed@;
        proof { axiom_slice_len(self.unprocessed); }
        if self.finished {
            return None;
        }

        { let mut __it1 = memchr::memchr_iter(b'>', self.unprocessed); loop
            invariant __it1.wf(), __it1.hay@ == u, __it1.n1 == 0x3e, __it1.n2 == 0x3e, __it1.n3 == 0x3e,
                *self == *old(self),
                forall|k: int| 0 <= k < __it1.pos ==> !cdata_close_at(u, k),
            decreases u.len() - __it1.pos
        { match __it1.next() { None => { break; } Some( gt) => {
            if self.unprocessed[..gt].ends_with(&[b']', b']']) {
                let (slice, rest) = self.unprocessed.split_at(gt);
                self.unprocessed = rest;
                proof {
                    assert(slice@ + rest@ =~= u);
                    assert(cdata_close_at(u, gt as int));
                    assert forall|k: int| !cdata_close_at(slice@, k) by { if cdata_close_at(slice@, k) { assert(cdata_close_at(u, k)); } }
                }
                return Some(BytesCData::wrap(slice, Decoder::utf8()));
            }
        } } } }

        self.finished = true;
        Some(BytesCData::wrap(self.unprocessed, Decoder::utf8()))
    }
//@end
}
impl<'a> BytesCData<'a> {
//@extract events::BytesCData::escaped | src/events/mod.rs :: impl<'a> BytesCData<'a> :: fn escaped | serves=C09
 pub fn escaped(content: &'a str) -> (r: CDataIterator<'a>)
        // C09: the splitting constructor starts with ALL the bytes of the content, nothing processed yet
        ensures r.unprocessed@ == content.spec_bytes(), !r.finished
 {
        CDataIterator {
            unprocessed: content.as_bytes(),
            finished: false,
        }
    }
//@end
}
}
