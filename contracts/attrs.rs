// ---------------------------------------------------------------------------------------------
// U-attrs (C11 duplicate detection, C09 reading pushed attributes back): `IterState::check_for_duplicates`
// on the real text, for every tag content and every number of keys seen so far (the Kani stand-in of C11
// covers `IterState::next` with at most one earlier key). Also `IterState::new` and `Attributes::wrap`.
// ---------------------------------------------------------------------------------------------
pub assume_specification<Idx: Clone>[ <core::ops::Range<Idx> as Clone>::clone ](r: &core::ops::Range<Idx>) -> (c: core::ops::Range<Idx>)
    ensures call_ensures(Idx::clone, (&r.start,), c.start), call_ensures(Idx::clone, (&r.end,), c.end);

pub mod attrs_ {
use super::*;
use vstd::prelude::*;
use core::ops::Range;

pub mod shim_a {
    use vstd::prelude::*;
    /// contract of `v.iter().find(f)` (N2): the first element for which `f` answers true
    pub fn find_ref<'a, T, F: Fn(&&'a T) -> bool>(s: &'a Vec<T>, f: F) -> (r: Option<&'a T>)
        requires forall|i: int| 0 <= i < s@.len() ==> f.requires((&&#[trigger] s@[i],)),
        ensures match r {
            Some(x) => exists|i: int| 0 <= i < s@.len() && *x == s@[i] && f.ensures((&&s@[i],), true)
                && forall|j: int| 0 <= j < i ==> f.ensures((&&#[trigger] s@[j],), false),
            None => forall|j: int| 0 <= j < s@.len() ==> f.ensures((&&#[trigger] s@[j],), false),
        }
    {
        let mut i = 0;
        while i < s.len()
            invariant i <= s@.len(), forall|k: int| 0 <= k < s@.len() ==> f.requires((&&#[trigger] s@[k],)),
                forall|j: int| 0 <= j < i ==> f.ensures((&&#[trigger] s@[j],), false),
            decreases s@.len() - i
        {
            let x = &s[i];
            if f(&x) { return Some(x); }
            i = i + 1;
        }
        None
    }
}

/// the bytes of a key given by its range
pub open spec fn key_text(slice: Seq<u8>, r: Range<usize>) -> Seq<u8> { slice.subrange(r.start as int, r.end as int) }
/// every remembered key lies inside the tag content
pub open spec fn keys_in(keys: Seq<Range<usize>>, n: nat) -> bool {
    forall|i: int| 0 <= i < keys.len() ==> (#[trigger] keys[i]).start <= keys[i].end && keys[i].end <= n
}

//@extract attributes::AttrError | src/events/attributes.rs :: enum AttrError | serves=C09,C11
 enum AttrError {
    /// Attribute key was not followed by `=`, position relative to the start of
    /// the owning tag is provided.
    ///
    /// Example of input that raises this error:
    ///
    /// ```xml
    /// <tag key another="attribute"/>
    /// <!--     ^~~ error position, recovery position (8) -->
    /// ```
    ///
    /// This error can be raised only when the iterator is in XML mode.
    ExpectedEq(usize),
    /// Attribute value was not found after `=`, position relative to the start
    /// of the owning tag is provided.
    ///
    /// Example of input that raises this error:
    ///
    /// ```xml
    /// <tag key = />
    /// <!--       ^~~ error position, recovery position (10) -->
    /// ```
    ///
    /// This error can be returned only for the last attribute in the list,
    /// because otherwise any content after `=` will be threated as a value.
    /// The XML
    ///
    /// ```xml
    /// <tag key = another-key = "value"/>
    /// <!--                   ^ ^- recovery position (24) -->
    /// <!--                   '~~ error position (22) -->
    /// ```
    ///
    /// will be treated as `Attribute { key = b"key", value = b"another-key" }`
    /// and or [`Attribute`] is returned, or [`AttrError::UnquotedValue`] is raised,
    /// depending on the parsing mode.
    ExpectedValue(usize),
    /// Attribute value is not quoted, position relative to the start of the
    /// owning tag is provided.
    ///
    /// Example of input that raises this error:
    ///
    /// ```xml
    /// <tag key = value />
    /// <!--       ^    ^~~ recovery position (15) -->
    /// <!--       '~~ error position (10) -->
    /// ```
    ///
    /// This error can be raised only when the iterator is in XML mode.
    UnquotedValue(usize),
    /// Attribute value was not finished with a matching quote, position relative
    /// to the start of owning tag and a quote is provided. That position is always
    /// a last character in the tag content.
    ///
    /// Example of input that raises this error:
    ///
    /// ```xml
    /// <tag key = "value  />
    /// <tag key = 'value  />
    /// <!--               ^~~ error position, recovery position (18) -->
    /// ```
    ///
    /// This error can be returned only for the last attribute in the list,
    /// because all input was consumed during scanning for a quote.
    ExpectedQuote(usize, u8),
    /// An attribute with the same name was already encountered. Two parameters
    /// define (1) the error position relative to the start of the owning tag
    /// for a new attribute and (2) the start position of a previously encountered
    /// attribute with the same name.
    ///
    /// Example of input that raises this error:
    ///
    /// ```xml
    /// <tag key = 'value'  key="value2" attr3='value3' />
    /// <!-- ^              ^            ^~~ recovery position (32) -->
    /// <!-- |              '~~ error position (19) -->
    /// <!-- '~~ previous position (4) -->
    /// ```
    ///
    /// This error is returned only when [`Attributes::with_checks()`] is set
    /// to `true` (that is default behavior).
    Duplicated(usize, usize),
}
//@end
//@extract attributes::State | src/events/attributes.rs :: enum State | serves=C11
enum State {
    /// Iteration finished, iterator will return `None` to all [`IterState::next`]
    /// requests.
    Done,
    /// The last attribute returned was deserialized successfully. Contains an
    /// offset from which next attribute should be searched.
    Next(usize),
    /// The last attribute returns [`AttrError::UnquotedValue`], offset pointed
    /// to the beginning of the value. Recover should skip a value
    SkipValue(usize),
    /// The last attribute returns [`AttrError::Duplicated`], offset pointed to
    /// the equal (`=`) sign. Recover should skip it and a value
    SkipEqValue(usize),
}
//@end
//@extract attributes::IterState | src/events/attributes.rs :: struct IterState | serves=C09,C11
 struct IterState {
    /// Iteration state that determines what actions should be done before the
    /// actual parsing of the next attribute
    state: State,
    /// If `true`, enables ability to parse unquoted values and key-only (empty)
    /// attributes
    html: bool,
    /// If `true`, checks for duplicate names
    check_duplicates: bool,
    /// If `check_duplicates` is set, contains the ranges of already parsed attribute
    /// names. We store a ranges instead of slices to able to report a previous
    /// attribute position
    keys: Vec<Range<usize>>,
}
//@end

impl IterState {
//@extract attributes::IterState::new | src/events/attributes.rs :: impl IterState :: fn new | serves=C11
 fn new(offset: usize, html: bool) -> (r: Self)
        // a fresh iterator checks for duplicates and has seen no key
        ensures r.check_duplicates, r.keys@.len() == 0, r.html == html, r.state == State::Next(offset)
 {
        Self {
            state: State::Next(offset),
            html,
            check_duplicates: true,
            keys: Vec::new(),
        }
    }
//@end
//@extract attributes::IterState::check_for_duplicates | src/events/attributes.rs :: impl IterState :: fn check_for_duplicates | serves=C09,C11
//@rewrite self .keys .iter() .find(|r| ==> shim_a::find_ref(&self.keys, |r: &&Range<usize>|
    fn check_for_duplicates(
        &mut self,
        slice: &[u8],
        key: Range<usize>,
    ) -> (r: Result<Range<usize>, AttrError>)
        requires
            key.start <= key.end <= slice@.len(),
            keys_in(old(self).keys@, slice@.len()),
        ensures
            final(self).state == old(self).state, final(self).html == old(self).html, final(self).check_duplicates == old(self).check_duplicates,
            keys_in(final(self).keys@, slice@.len()),
            // C11 / C09: with the check on, a key is a duplicate iff an earlier key has EXACTLY the same bytes; the
            // error names this key and the FIRST such earlier key; a new key is remembered, a duplicate is not.
            // With the check off nothing is remembered and nothing is rejected.
            match r {
                Ok(k) => k == key && (if old(self).check_duplicates {
                        final(self).keys@ == old(self).keys@.push(key)
                        && forall|i: int| 0 <= i < old(self).keys@.len() ==> key_text(slice@, #[trigger] old(self).keys@[i]) != key_text(slice@, key)
                    } else { final(self).keys@ == old(self).keys@ }),
                Err(e) => old(self).check_duplicates && final(self).keys@ == old(self).keys@
                    && exists|i: int| 0 <= i < old(self).keys@.len()
                        && key_text(slice@, #[trigger] old(self).keys@[i]) == key_text(slice@, key)
                        && (forall|j: int| 0 <= j < i ==> key_text(slice@, #[trigger] old(self).keys@[j]) != key_text(slice@, key))
                        && e == AttrError::Duplicated(key.start, old(self).keys@[i].start),
            },
    {
        if self.check_duplicates {
            if let Some(prev) = shim_a::find_ref(&self.keys, |r: &&Range<usize>| -> (b: bool)
                    requires (**r).start <= (**r).end && (**r).end <= slice@.len()
                    ensures b == (key_text(slice@, **r) =~= key_text(slice@, key))
                { slice[(*r).clone()] == slice[key.clone()] })
            {
                return Err(AttrError::Duplicated(key.start, prev.start));
            }
            self.keys.push(key.clone());
        }
        Ok(key)
    }
//@end
}
}
