// ---------------------------------------------------------------------------------------------
// U-attrs (C11 duplicate detection, C09 reading pushed attributes back): `IterState::check_for_duplicates`
// on the real text, for every tag content and every number of keys seen so far (the Kani stand-in of C11
// covers `IterState::next` with at most one earlier key). Also `IterState::new` and `Attributes::wrap`.
// ---------------------------------------------------------------------------------------------
pub assume_specification<Idx: Clone>[ <core::ops::Range<Idx> as Clone>::clone ](r: &core::ops::Range<Idx>) -> (c: core::ops::Range<Idx>)
    ensures call_ensures(Idx::clone, (&r.start,), c.start), call_ensures(Idx::clone, (&r.end,), c.end);

pub mod attrs_ {
use super::*;
use vstd::prelude::*;
use vstd::string::*;
use vstd::utf8::*;
use core::ops::Range;

pub mod shim_a {
    use vstd::prelude::*;
    /// contract of `v.iter().find(f)` (N2): the first element for which `f` answers true
    pub fn find_ref<'a, T, F: Fn(&&'a T) -> bool>(s: &'a Vec<T>, f: F) -> (r: Option<&'a T>)
        requires forall|i: int| 0 <= i < s@.len() ==> f.requires((&&#[trigger] s@[i],)),
        ensures match r {
            Some(x) => exists|i: int| 0 <= i < s@.len() && *x == s@[i] && f.ensures((&&s@[i],), true)
                && forall|j: int| 0 <= j < i ==> f.ensures((&&#[trigger] s@[j],), false),
            None => forall|j: int| 0 <= j < s@.len() ==> f.ensures((&&#[trigger] s@[j],), false),
        }
    {
        let mut i = 0;
        while i < s.len()
            invariant i <= s@.len(), forall|k: int| 0 <= k < s@.len() ==> f.requires((&&#[trigger] s@[k],)),
                forall|j: int| 0 <= j < i ==> f.ensures((&&#[trigger] s@[j],), false),
            decreases s@.len() - i
        {
            let x = &s[i];
            if f(&x) { return Some(x); }
            i = i + 1;
        }
        None
    }
    /// model of `(offset..).zip(slice[offset..].iter())` (N2): a cursor over the indexed bytes of `slice` from `offset`
    pub struct Cursor<'a> { pub pos: usize, pub s: &'a [u8] }
    impl<'a> Cursor<'a> {
        /// `slice[offset..]` panics unless offset <= len: the same obligation
        pub fn new(offset: usize, s: &'a [u8]) -> (r: Self)
            requires offset <= s@.len()
            ensures r.pos == offset, r.s == s
        { Cursor { pos: offset, s } }
        /// contract of `Iterator::find` on it: the first (index, byte) from the cursor on whose byte satisfies `f`;
        /// the cursor moves behind it (to the end if there is none). `c` names the byte class `f` decides.
        pub fn find<F: Fn(u8) -> bool>(&mut self, c: Ghost<super::Cls>, f: F) -> (r: Option<(usize, u8)>)
            requires
                old(self).pos <= old(self).s@.len(),
                forall|b: u8| f.requires((b,)),
                forall|b: u8, x: bool| f.ensures((b,), x) ==> x == super::cls(c@, b),
            ensures
                final(self).s == old(self).s, final(self).pos <= final(self).s@.len(),
                match super::first_from(old(self).s@, old(self).pos as int, c@) {
                    Some(i) => r == Some((i as usize, old(self).s@[i])) && final(self).pos == i + 1 && old(self).pos <= i < old(self).s@.len()
                        && super::cls(c@, old(self).s@[i]),
                    None => r is None && final(self).pos == old(self).s@.len(),
                },
        {
            let ghost p0 = self.pos as int;
            while self.pos < self.s.len()
                invariant
                    self.s == old(self).s, p0 == old(self).pos, p0 <= self.pos <= self.s@.len(),
                    forall|b: u8| f.requires((b,)),
                    forall|b: u8, x: bool| f.ensures((b,), x) ==> x == super::cls(c@, b),
                    super::first_from(self.s@, p0, c@) == super::first_from(self.s@, self.pos as int, c@),
                decreases self.s@.len() - self.pos
            {
                let i = self.pos;
                let b = self.s[i];
                proof {
                    assert(super::first_from(self.s@, i as int, c@) == (if super::cls(c@, b) { Some(i as int) } else { super::first_from(self.s@, i + 1, c@) }));
                }
                self.pos = i + 1;
                let hit = f(b);
                proof { assert(hit == super::cls(c@, b)); }
                if hit {
                    proof { assert(super::first_from(self.s@, p0, c@) == Some(i as int)); }
                    return Some((i, b));
                }
            }
            None
        }
    }
}

/// byte classes the attribute tokenizer searches for
pub enum Cls { Ws, NotWs, EqOrWs, Byte(u8) }
pub open spec fn cls(c: Cls, b: u8) -> bool {
    match c { Cls::Ws => is_ws(b), Cls::NotWs => !is_ws(b), Cls::EqOrWs => b == 0x3d || is_ws(b), Cls::Byte(q) => b == q }
}
/// index of the first byte of class `c` at or after `from`
pub open spec fn first_from(s: Seq<u8>, from: int, c: Cls) -> Option<int> decreases s.len() - from {
    if from < 0 || from >= s.len() { None } else if cls(c, s[from]) { Some(from) } else { first_from(s, from + 1, c) }
}
pub proof fn lemma_first_from(s: Seq<u8>, from: int, c: Cls)
    requires 0 <= from
    ensures match first_from(s, from, c) {
        Some(i) => from <= i < s.len() && cls(c, s[i]) && forall|j: int| from <= j < i ==> !cls(c, #[trigger] s[j]),
        None => forall|j: int| from <= j < s.len() ==> !cls(c, #[trigger] s[j]),
    }
    decreases s.len() - from
{
    if from < s.len() && !cls(c, s[from]) { lemma_first_from(s, from + 1, c); }
}

/// a byte that is not whitespace is not the first whitespace
pub proof fn lemma_ws_skip_first(s: Seq<u8>, v: int)
    requires 0 <= v < s.len(), !is_ws(s[v])
    ensures first_from(s, v, Cls::Ws) == first_from(s, v + 1, Cls::Ws)
{}
/// where parsing of the next attribute is attempted (documentation of `AttrError`: "recovery position")
pub open spec fn recover_spec(st: State, s: Seq<u8>) -> Option<int> {
    match st {
        State::Done => None,
        State::Next(o) => Some(o as int),
        // after UnquotedValue: behind the unquoted value = the first whitespace after it
        State::SkipValue(o) => first_from(s, o as int, Cls::Ws),
        // after Duplicated (o = position of `=`): behind the whole value, quoted or not
        State::SkipEqValue(o) => match first_from(s, o + 1, Cls::NotWs) {
            None => None,
            Some(v) => if s[v] == 0x22 || s[v] == 0x27 {
                    match first_from(s, v + 1, Cls::Byte(s[v])) { Some(e) => Some(e + 1), None => None }
                } else { first_from(s, v + 1, Cls::Ws) },
        },
    }
}
/// type invariant of the iterator state for a tag content of `n` bytes
pub open spec fn state_ok(st: State, n: nat) -> bool {
    match st { State::Done => true, State::Next(o) => o <= n, State::SkipValue(o) => o <= n, State::SkipEqValue(o) => o < n }
}

/// the bytes of a key given by its range
pub open spec fn key_text(slice: Seq<u8>, r: Range<usize>) -> Seq<u8> { slice.subrange(r.start as int, r.end as int) }
pub open spec fn rng(a: int, b: int) -> Range<usize> { Range { start: a as usize, end: b as usize } }
/// index (>= from) of the first remembered key with exactly the same bytes as `key`
pub open spec fn dup_first(keys: Seq<Range<usize>>, s: Seq<u8>, key: Range<usize>, from: int) -> Option<int> decreases keys.len() - from {
    if from < 0 || from >= keys.len() { None }
    else if key_text(s, keys[from]) == key_text(s, key) { Some(from) }
    else { dup_first(keys, s, key, from + 1) }
}
pub proof fn lemma_dup_first(keys: Seq<Range<usize>>, s: Seq<u8>, key: Range<usize>, from: int)
    requires 0 <= from
    ensures match dup_first(keys, s, key, from) {
        Some(i) => from <= i < keys.len() && key_text(s, keys[i]) == key_text(s, key)
            && forall|j: int| from <= j < i ==> key_text(s, #[trigger] keys[j]) != key_text(s, key),
        None => forall|j: int| from <= j < keys.len() ==> key_text(s, #[trigger] keys[j]) != key_text(s, key),
    }
    decreases keys.len() - from
{
    if from < keys.len() && key_text(s, keys[from]) != key_text(s, key) { lemma_dup_first(keys, s, key, from + 1); }
}
/// outcome of the duplicate check (documentation of `Attributes::with_checks` and `AttrError::Duplicated`): with
/// the check on, a key whose bytes equal those of an earlier key is an error naming it and the FIRST such key;
/// otherwise the key is accepted and (check on) remembered
pub open spec fn dup_check(check: bool, keys: Seq<Range<usize>>, s: Seq<u8>, key: Range<usize>) -> (core::result::Result<Range<usize>, AttrError>, Seq<Range<usize>>) {
    if !check { (Ok(key), keys) } else {
        match dup_first(keys, s, key, 0) {
            Some(i) => (Err(AttrError::Duplicated(key.start, keys[i].start)), keys),
            None => (Ok(key), keys.push(key)),
        }
    }
}
/// result, successor state and remembered keys of one step
pub struct Step { pub out: Option<AttrResult>, pub state: State, pub keys: Seq<Range<usize>> }
/// a key that is not followed by `=`: an attribute without value in HTML mode, ExpectedEq(pos) in XML mode
pub open spec fn key_only_spec(html: bool, check: bool, keys: Seq<Range<usize>>, s: Seq<u8>, key: Range<usize>, pos: int, next: State) -> Step {
    if html {
        let (r, k2) = dup_check(check, keys, s, key);
        Step { out: Some(match r { Ok(k) => Ok(Attr::Empty(k)), Err(e) => Err(e) }), state: next, keys: k2 }
    } else { Step { out: Some(Err(AttrError::ExpectedEq(pos as usize))), state: next, keys } }
}
/// key and `=` (at `eq`) found: duplicate check, then the value
pub open spec fn value_spec(html: bool, check: bool, keys: Seq<Range<usize>>, s: Seq<u8>, key: Range<usize>, eq: int) -> Step {
    let n = s.len() as int;
    let (r, k2) = dup_check(check, keys, s, key);
    match r {
        // recovery skips `=` and the whole value
        Err(e) => Step { out: Some(Err(e)), state: State::SkipEqValue(eq as usize), keys: k2 },
        Ok(_) => match first_from(s, eq + 1, Cls::NotWs) {
            None => Step { out: Some(Err(AttrError::ExpectedValue(n as usize))), state: State::Done, keys: k2 },
            Some(v) => if s[v] == 0x22 || s[v] == 0x27 {
                    match first_from(s, v + 1, Cls::Byte(s[v])) {
                        Some(e) => Step { out: Some(Ok(if s[v] == 0x22 { Attr::DoubleQ(key, rng(v + 1, e)) } else { Attr::SingleQ(key, rng(v + 1, e)) })),
                                          state: State::Next((e + 1) as usize), keys: k2 },
                        None => Step { out: Some(Err(AttrError::ExpectedQuote(n as usize, s[v]))), state: State::Done, keys: k2 },
                    }
                } else if html {
                    let e = match first_from(s, v + 1, Cls::Ws) { Some(e) => e, None => n };
                    Step { out: Some(Ok(Attr::Unquoted(key, rng(v, e)))), state: State::Next(e as usize), keys: k2 }
                } else {
                    // recovery skips the unquoted value
                    Step { out: Some(Err(AttrError::UnquotedValue(v as usize))), state: State::SkipValue(v as usize), keys: k2 }
                },
        },
    }
}
/// ONE STEP of the attribute iterator, written from the documentation of `Attributes` / `AttrError`: blanks, a
/// key of at least one byte ending at `=` or a blank, optional blanks, `=`, optional blanks, a quoted value
/// (or, HTML mode, an unquoted one ending at a blank) -- or the documented error with its position and the
/// documented recovery point
pub open spec fn next_spec(st: State, html: bool, check: bool, keys: Seq<Range<usize>>, s: Seq<u8>) -> Step {
    let n = s.len() as int;
    match recover_spec(st, s) {
        None => Step { out: None, state: st, keys },
        Some(offset) => match first_from(s, offset, Cls::NotWs) {
            None => Step { out: None, state: State::Done, keys },
            Some(k0) => match first_from(s, k0 + 1, Cls::EqOrWs) {
                None => key_only_spec(html, check, keys, s, rng(k0, n), n, State::Done),
                Some(k1) => if s[k1] == 0x3d { value_spec(html, check, keys, s, rng(k0, k1), k1) } else {
                    match first_from(s, k1 + 1, Cls::NotWs) {
                        None => key_only_spec(html, check, keys, s, rng(k0, k1), n, State::Done),
                        Some(p) => if s[p] == 0x3d { value_spec(html, check, keys, s, rng(k0, k1), p) }
                                   else { key_only_spec(html, check, keys, s, rng(k0, k1), p, State::Next(p as usize)) },
                    }
                },
            },
        },
    }
}
/// how much of the content is still ahead of the iterator (termination measure of a loop over the attributes)
pub open spec fn ahead(st: State, n: nat) -> nat {
    match st {
        State::Done => 0,
        State::Next(o) => if o <= n { (n - o + 1) as nat } else { 0 },
        State::SkipValue(o) => if o <= n { (n - o + 1) as nat } else { 0 },
        State::SkipEqValue(o) => if o <= n { (n - o + 1) as nat } else { 0 },
    }
}
/// every step that yields something moves on: the iteration over a tag terminates (C03)
pub proof fn lemma_next_progress(st: State, html: bool, check: bool, keys: Seq<Range<usize>>, s: Seq<u8>)
    requires state_ok(st, s.len()), s.len() <= usize::MAX
    ensures ({
        let step = next_spec(st, html, check, keys, s);
        step.out is Some ==> ahead(step.state, s.len()) < ahead(st, s.len())
    })
{
    let n = s.len() as int;
    match st {
        State::SkipValue(o) => { lemma_first_from(s, o as int, Cls::Ws); }
        State::SkipEqValue(o) => {
            lemma_first_from(s, o + 1, Cls::NotWs);
            match first_from(s, o + 1, Cls::NotWs) {
                Some(v) => { lemma_first_from(s, v + 1, Cls::Byte(s[v])); lemma_first_from(s, v + 1, Cls::Ws); }
                None => {}
            }
        }
        _ => {}
    }
    match recover_spec(st, s) {
        None => {}
        Some(offset) => {
            lemma_first_from(s, offset, Cls::NotWs);
            match first_from(s, offset, Cls::NotWs) {
                None => {}
                Some(k0) => {
                    lemma_first_from(s, k0 + 1, Cls::EqOrWs);
                    match first_from(s, k0 + 1, Cls::EqOrWs) {
                        None => {}
                        Some(k1) => {
                            lemma_first_from(s, k1 + 1, Cls::NotWs);
                            let eq = if s[k1] == 0x3d { Some(k1) } else { match first_from(s, k1 + 1, Cls::NotWs) { Some(p) => if s[p] == 0x3d { Some(p) } else { None }, None => None } };
                            match eq {
                                Some(e) => {
                                    lemma_first_from(s, e + 1, Cls::NotWs);
                                    match first_from(s, e + 1, Cls::NotWs) {
                                        Some(v) => { lemma_first_from(s, v + 1, Cls::Byte(s[v])); lemma_first_from(s, v + 1, Cls::Ws); }
                                        None => {}
                                    }
                                }
                                None => {}
                            }
                        }
                    }
                }
            }
        }
    }
}
/// THE ATTRIBUTES OF A TAG as the iterator yields them from state `st` on (duplicate check off), up to the first
/// error: the iteration of next_spec. Terminates by lemma_next_progress.
#[verifier::opaque]
pub open spec fn attr_items(st: State, html: bool, s: Seq<u8>) -> Seq<Attr<Range<usize>>>
    decreases ahead(st, s.len()) via attr_items_decreases
{
    if !state_ok(st, s.len()) || s.len() > usize::MAX { Seq::empty() } else {
        let step = next_spec(st, html, false, Seq::<Range<usize>>::empty(), s);
        match step.out {
            Some(Ok(a)) => seq![a] + attr_items(step.state, html, s),
            _ => Seq::empty(),
        }
    }
}
#[via_fn]
proof fn attr_items_decreases(st: State, html: bool, s: Seq<u8>) {
    if state_ok(st, s.len()) && s.len() <= usize::MAX {
        lemma_next_progress(st, html, false, Seq::<Range<usize>>::empty(), s);
    }
}
/// with the duplicate check off the remembered keys play no role
pub proof fn lemma_next_keys_irrelevant(st: State, html: bool, keys: Seq<Range<usize>>, s: Seq<u8>)
    ensures ({
        let a = next_spec(st, html, false, keys, s);
        let b = next_spec(st, html, false, Seq::<Range<usize>>::empty(), s);
        a.out == b.out && a.state == b.state && a.keys == keys
    })
{}
/// every remembered key lies inside the tag content
pub open spec fn keys_in(keys: Seq<Range<usize>>, n: nat) -> bool {
    forall|i: int| 0 <= i < keys.len() ==> (#[trigger] keys[i]).start <= keys[i].end && keys[i].end <= n
}

//@extract attributes::Attr | src/events/attributes.rs :: enum Attr | serves=C11
 pub enum Attr<T> {
    /// Attribute with value enclosed in double quotes (`"`). Attribute key and
    /// value provided. This is a canonical XML-style attribute.
    DoubleQ(T, T),
    /// Attribute with value enclosed in single quotes (`'`). Attribute key and
    /// value provided. This is an XML-style attribute.
    SingleQ(T, T),
    /// Attribute with value not enclosed in quotes. Attribute key and value
    /// provided. This is HTML-style attribute, it can be returned in HTML-mode
    /// parsing only. In an XML mode [`AttrError::UnquotedValue`] will be raised
    /// instead.
    ///
    /// Attribute value can be invalid according to the [HTML specification],
    /// in particular, it can contain `"`, `'`, `=`, `<`, and <code>&#96;</code>
    /// characters. The absence of the `>` character is nevertheless guaranteed,
    /// since the parser extracts [events] based on them even before the start
    /// of parsing attributes.
    ///
    /// [HTML specification]: https://html.spec.whatwg.org/#unquoted
    /// [events]: crate::events::Event::Start
    Unquoted(T, T),
    /// Attribute without value. Attribute key provided. This is HTML-style attribute,
    /// it can be returned in HTML-mode parsing only. In XML mode
    /// [`AttrError::ExpectedEq`] will be raised instead.
    Empty(T),
}
//@end
/// transcription of `type AttrResult = Result<Attr<Range<usize>>, AttrError>;`
pub type AttrResult = core::result::Result<Attr<Range<usize>>, AttrError>;
//@extract attributes::AttrError | src/events/attributes.rs :: enum AttrError | serves=C09,C11
 pub enum AttrError {
    /// Attribute key was not followed by `=`, position relative to the start of
    /// the owning tag is provided.
    ///
    /// Example of input that raises this error:
    ///
    /// ```xml
    /// <tag key another="attribute"/>
    /// <!--     ^~~ error position, recovery position (8) -->
    /// ```
    ///
    /// This error can be raised only when the iterator is in XML mode.
    ExpectedEq(usize),
    /// Attribute value was not found after `=`, position relative to the start
    /// of the owning tag is provided.
    ///
    /// Example of input that raises this error:
    ///
    /// ```xml
    /// <tag key = />
    /// <!--       ^~~ error position, recovery position (10) -->
    /// ```
    ///
    /// This error can be returned only for the last attribute in the list,
    /// because otherwise any content after `=` will be threated as a value.
    /// The XML
    ///
    /// ```xml
    /// <tag key = another-key = "value"/>
    /// <!--                   ^ ^- recovery position (24) -->
    /// <!--                   '~~ error position (22) -->
    /// ```
    ///
    /// will be treated as `Attribute { key = b"key", value = b"another-key" }`
    /// and or [`Attribute`] is returned, or [`AttrError::UnquotedValue`] is raised,
    /// depending on the parsing mode.
    ExpectedValue(usize),
    /// Attribute value is not quoted, position relative to the start of the
    /// owning tag is provided.
    ///
    /// Example of input that raises this error:
    ///
    /// ```xml
    /// <tag key = value />
    /// <!--       ^    ^~~ recovery position (15) -->
    /// <!--       '~~ error position (10) -->
    /// ```
    ///
    /// This error can be raised only when the iterator is in XML mode.
    UnquotedValue(usize),
    /// Attribute value was not finished with a matching quote, position relative
    /// to the start of owning tag and a quote is provided. That position is always
    /// a last character in the tag content.
    ///
    /// Example of input that raises this error:
    ///
    /// ```xml
    /// <tag key = "value  />
    /// <tag key = 'value  />
    /// <!--               ^~~ error position, recovery position (18) -->
    /// ```
    ///
    /// This error can be returned only for the last attribute in the list,
    /// because all input was consumed during scanning for a quote.
    ExpectedQuote(usize, u8),
    /// An attribute with the same name was already encountered. Two parameters
    /// define (1) the error position relative to the start of the owning tag
    /// for a new attribute and (2) the start position of a previously encountered
    /// attribute with the same name.
    ///
    /// Example of input that raises this error:
    ///
    /// ```xml
    /// <tag key = 'value'  key="value2" attr3='value3' />
    /// <!-- ^              ^            ^~~ recovery position (32) -->
    /// <!-- |              '~~ error position (19) -->
    /// <!-- '~~ previous position (4) -->
    /// ```
    ///
    /// This error is returned only when [`Attributes::with_checks()`] is set
    /// to `true` (that is default behavior).
    Duplicated(usize, usize),
}
//@end
//@extract attributes::State | src/events/attributes.rs :: enum State | serves=C11
pub enum State {
    /// Iteration finished, iterator will return `None` to all [`IterState::next`]
    /// requests.
    Done,
    /// The last attribute returned was deserialized successfully. Contains an
    /// offset from which next attribute should be searched.
    Next(usize),
    /// The last attribute returns [`AttrError::UnquotedValue`], offset pointed
    /// to the beginning of the value. Recover should skip a value
    SkipValue(usize),
    /// The last attribute returns [`AttrError::Duplicated`], offset pointed to
    /// the equal (`=`) sign. Recover should skip it and a value
    SkipEqValue(usize),
}
//@end
//@extract attributes::IterState | src/events/attributes.rs :: struct IterState | serves=C09,C11
 pub struct IterState {
    /// Iteration state that determines what actions should be done before the
    /// actual parsing of the next attribute
    pub state: State,
    /// If `true`, enables ability to parse unquoted values and key-only (empty)
    /// attributes
    pub html: bool,
    /// If `true`, checks for duplicate names
    pub check_duplicates: bool,
    /// If `check_duplicates` is set, contains the ranges of already parsed attribute
    /// names. We store a ranges instead of slices to able to report a previous
    /// attribute position
    pub keys: Vec<Range<usize>>,
}
//@end

impl IterState {
//@extract attributes::IterState::new | src/events/attributes.rs :: impl IterState :: fn new | serves=C11
 fn new(offset: usize, html: bool) -> (r: Self)
        // a fresh iterator checks for duplicates and has seen no key
        ensures r.check_duplicates, r.keys@.len() == 0, r.html == html, r.state == State::Next(offset)
 {
        Self {
            state: State::Next(offset),
            html,
            check_duplicates: true,
            keys: Vec::new(),
        }
    }
//@end
//@extract attributes::IterState::check_for_duplicates | src/events/attributes.rs :: impl IterState :: fn check_for_duplicates | serves=C09,C11
//@rewrite self .keys .iter() .find(|r| ==> shim_a::find_ref(&self.keys, |r: &&Range<usize>|
    fn check_for_duplicates(
        &mut self,
        slice: &[u8],
        key: Range<usize>,
    ) -> (r: Result<Range<usize>, AttrError>)
        requires
            key.start <= key.end <= slice@.len(),
            keys_in(old(self).keys@, slice@.len()),
        ensures
            final(self).state == old(self).state, final(self).html == old(self).html, final(self).check_duplicates == old(self).check_duplicates,
            keys_in(final(self).keys@, slice@.len()),
            (r, final(self).keys@) == dup_check(old(self).check_duplicates, old(self).keys@, slice@, key),
            // C11 / C09: with the check on, a key is a duplicate iff an earlier key has EXACTLY the same bytes; the
            // error names this key and the FIRST such earlier key; a new key is remembered, a duplicate is not.
            // With the check off nothing is remembered and nothing is rejected.
            match r {
                Ok(k) => k == key && (if old(self).check_duplicates {
                        final(self).keys@ == old(self).keys@.push(key)
                        && forall|i: int| 0 <= i < old(self).keys@.len() ==> key_text(slice@, #[trigger] old(self).keys@[i]) != key_text(slice@, key)
                    } else { final(self).keys@ == old(self).keys@ }),
                Err(e) => old(self).check_duplicates && final(self).keys@ == old(self).keys@
                    && exists|i: int| 0 <= i < old(self).keys@.len()
                        && key_text(slice@, #[trigger] old(self).keys@[i]) == key_text(slice@, key)
                        && (forall|j: int| 0 <= j < i ==> key_text(slice@, #[trigger] old(self).keys@[j]) != key_text(slice@, key))
                        && e == AttrError::Duplicated(key.start, old(self).keys@[i].start),
            },
    {
        proof { lemma_dup_first(self.keys@, slice@, key, 0); }
        if self.check_duplicates {
            if let Some(prev) = shim_a::find_ref(&self.keys, |r: &&Range<usize>| -> (b: bool)
                    requires (**r).start <= (**r).end && (**r).end <= slice@.len()
                    ensures b == (key_text(slice@, **r) =~= key_text(slice@, key))
                { slice[(*r).clone()] == slice[key.clone()] })
            {
                return Err(AttrError::Duplicated(key.start, prev.start));
            }
            self.keys.push(key.clone());
        }
        Ok(key)
    }
//@end
//@extract attributes::IterState::recover | src/events/attributes.rs :: impl IterState :: fn recover | serves=C11
    /// Recover from an error that could have been made on a previous step.
    /// Returns an offset from which parsing should continue.
    /// If there no input left, returns `None`.
    fn recover(&self, slice: &[u8]) -> (r: Option<usize>)
        requires state_ok(self.state, slice@.len())
        ensures match recover_spec(self.state, slice@) { Some(o) => r == Some(o as usize) && 0 <= o <= slice@.len(), None => r is None }
    {
        match self.state {
            State::Done => None,
            State::Next(offset) => Some(offset),
            State::SkipValue(offset) => self.skip_value(slice, offset),
            State::SkipEqValue(offset) => self.skip_eq_value(slice, offset),
        }
    }
//@end
//@extract attributes::IterState::skip_value | src/events/attributes.rs :: impl IterState :: fn skip_value | serves=C11
//@rewrite (offset..).zip(slice[offset..].iter()) ==> shim_a::Cursor::new(offset, slice)
//@rewrite-all iter.find(|(_, &b)| ==> iter.find(|b: u8|
    fn skip_value(&self, slice: &[u8], offset: usize) -> (r: Option<usize>)
        requires offset <= slice@.len()
        ensures match first_from(slice@, offset as int, Cls::Ws) { Some(e) => r == Some(e as usize) && offset <= e < slice@.len(), None => r is None }
    {
        let mut iter = shim_a::Cursor::new(offset, slice);

        match iter.find(Ghost(Cls::Ws), |b: u8| -> (x: bool) ensures x == cls(Cls::Ws, b) { is_whitespace(b) }) {
            // Input: `    key  =  value `
            //                     |    ^
            //                offset    e
            Some((e, _)) => Some(e),
            // Input: `    key  =  value`
            //                     |    ^
            //                offset    e = len()
            None => None,
        }
    }
//@end
//@extract attributes::IterState::skip_eq_value | src/events/attributes.rs :: impl IterState :: fn skip_eq_value | serves=C11
//@rewrite (offset + 1..).zip(slice[offset + 1..].iter()) ==> shim_a::Cursor::new(offset + 1, slice)
//@rewrite-all iter.find(|(_, &b)| ==> iter.find(|b: u8|
    fn skip_eq_value(&self, slice: &[u8], offset: usize) -> (r: Option<usize>)
        requires offset < slice@.len()
        ensures match recover_spec(State::SkipEqValue(offset), slice@) { Some(o) => r == Some(o as usize) && 0 <= o <= slice@.len(), None => r is None }
    {
        proof { axiom_slice_len(slice); }
        // `offset` is the position of `=`, the value is searched after it
        let mut iter = shim_a::Cursor::new(offset + 1, slice);

        // Skip all up to the quote and get the quote type
        let quote = match iter.find(Ghost(Cls::NotWs), |b: u8| -> (x: bool) ensures x == cls(Cls::NotWs, b) { !is_whitespace(b) }) {
            // Input: `    key  =  "`
            //                  |  ^
            //             offset
            Some((_, b'"')) => b'"',
            // Input: `    key  =  '`
            //                  |  ^
            //             offset
            Some((_, b'\'')) => b'\'',

            // Input: `    key  =  x`
            //                  |  ^
            //             offset
            Some((offset, _)) => { proof { lemma_ws_skip_first(slice@, offset as int); } return self.skip_value(slice, offset) },
            // Input: `    key  =  `
            //                  |  ^
            //             offset
            None => return None,
        };

        match iter.find(Ghost(Cls::Byte(quote)), |b: u8| -> (x: bool) ensures x == cls(Cls::Byte(quote), b) { b == quote }) {
            // Input: `    key  =  "   "`
            //                          ^
            Some((e, b'"')) => Some(e + 1), // +1 for `"`
            // Input: `    key  =  '   '`
            //                          ^
            Some((e, _)) => Some(e + 1), // +1 for `'`

            // Input: `    key  =  "   `
            // Input: `    key  =  '   `
            //                         ^
            // Closing quote not found
            None => None,
        }
    }
//@end
//@extract attributes::IterState::key_only | src/events/attributes.rs :: impl IterState :: fn key_only | serves=C11
//@rewrite .map(Attr::Empty) ==> .map(|k: Range<usize>| Attr::Empty(k))
    fn key_only(&mut self, slice: &[u8], key: Range<usize>, offset: usize) -> (r: Option<AttrResult>)
        requires key.start <= key.end <= slice@.len(), keys_in(old(self).keys@, slice@.len()),
        ensures
            final(self).state == old(self).state, final(self).html == old(self).html, final(self).check_duplicates == old(self).check_duplicates,
            keys_in(final(self).keys@, slice@.len()),
            ({ let st = key_only_spec(old(self).html, old(self).check_duplicates, old(self).keys@, slice@, key, offset as int, old(self).state);
               r == st.out && final(self).keys@ == st.keys }),
    {
        Some(if self.html {
            self.check_for_duplicates(slice, key).map(|k: Range<usize>| -> (a: Attr<Range<usize>>) ensures a == Attr::Empty(k) { Attr::Empty(k) })
        } else {
            Err(AttrError::ExpectedEq(offset))
        })
    }
//@end
//@extract attributes::IterState::double_q | src/events/attributes.rs :: impl IterState :: fn double_q | serves=C11
    fn double_q(&mut self, key: Range<usize>, value: Range<usize>) -> (r: Option<AttrResult>)
        requires value.end < usize::MAX
        ensures r == Some::<AttrResult>(Ok(Attr::DoubleQ(key, value))), final(self).state == State::Next((value.end + 1) as usize),
            final(self).html == old(self).html, final(self).check_duplicates == old(self).check_duplicates, final(self).keys == old(self).keys,
    {
        self.state = State::Next(value.end + 1); // +1 for `"`

        Some(Ok(Attr::DoubleQ(key, value)))
    }
//@end
//@extract attributes::IterState::single_q | src/events/attributes.rs :: impl IterState :: fn single_q | serves=C11
    fn single_q(&mut self, key: Range<usize>, value: Range<usize>) -> (r: Option<AttrResult>)
        requires value.end < usize::MAX
        ensures r == Some::<AttrResult>(Ok(Attr::SingleQ(key, value))), final(self).state == State::Next((value.end + 1) as usize),
            final(self).html == old(self).html, final(self).check_duplicates == old(self).check_duplicates, final(self).keys == old(self).keys,
    {
        self.state = State::Next(value.end + 1); // +1 for `'`

        Some(Ok(Attr::SingleQ(key, value)))
    }
//@end
//@extract attributes::IterState::next | src/events/attributes.rs :: impl IterState :: fn next | serves=C11
//@rewrite (offset..).zip(slice[offset..].iter()) ==> shim_a::Cursor::new(offset, slice)
//@rewrite-all iter.find(|(_, &b)| ==> iter.find(|b: u8|
 fn next(&mut self, slice: &[u8]) -> (r: Option<AttrResult>)
        requires state_ok(old(self).state, slice@.len()), keys_in(old(self).keys@, slice@.len())
        ensures
            // C11: one call = one documented step, for every tag content, every state, every number of keys seen
            ({ let st = next_spec(old(self).state, old(self).html, old(self).check_duplicates, old(self).keys@, slice@);
               r == st.out && final(self).state == st.state && final(self).keys@ == st.keys }),
            final(self).html == old(self).html, final(self).check_duplicates == old(self).check_duplicates,
            // the type invariant is kept, so the next call is covered again (induction over the calls)
            state_ok(final(self).state, slice@.len()), keys_in(final(self).keys@, slice@.len()),
            // both ranges of a returned item lie inside the content (the caller slices with them)
            r matches Some(Ok(a)) ==> attr_in(a, slice@.len()),
    {
        proof { axiom_slice_len(slice); }
        let mut iter = match self.recover(slice) {
            Some(offset) => shim_a::Cursor::new(offset, slice),
            None => return None,
        };

        // Index where next key started
        let start_key = match iter.find(Ghost(Cls::NotWs), |b: u8| -> (x: bool) ensures x == cls(Cls::NotWs, b) { !is_whitespace(b) }) {
            // Input: `    key`
            //             ^
            Some((s, _)) => s,
            // Input: `    `
            //             ^
            None => {
                // Because we reach end-of-input, stop iteration on next call
                self.state = State::Done;
                return None;
            }
        };
        // Span of a key
        let (key, offset) = match iter.find(Ghost(Cls::EqOrWs), |b: u8| -> (x: bool) ensures x == cls(Cls::EqOrWs, b) { b == b'=' || is_whitespace(b) }) {
            // Input: `    key=`
            //             |  ^
            //             s  e
            Some((e, b'=')) => (start_key..e, e),

            // Input: `    key `
            //                ^
            Some((e, _)) => match iter.find(Ghost(Cls::NotWs), |b: u8| -> (x: bool) ensures x == cls(Cls::NotWs, b) { !is_whitespace(b) }) {
                // Input: `    key  =`
                //             |  | ^
                //     start_key  e
                Some((offset, b'=')) => (start_key..e, offset),
                // Input: `    key  x`
                //             |  | ^
                //     start_key  e
                // If HTML-like attributes is allowed, this is the result, otherwise error
                Some((offset, _)) => {
                    // In any case, recovering is not required
                    self.state = State::Next(offset);
                    return self.key_only(slice, start_key..e, offset);
                }
                // Input: `    key  `
                //             |  | ^
                //     start_key  e
                // If HTML-like attributes is allowed, this is the result, otherwise error
                None => {
                    // Because we reach end-of-input, stop iteration on next call
                    self.state = State::Done;
                    return self.key_only(slice, start_key..e, slice.len());
                }
            },

            // Input: `    key`
            //             |  ^
            //             s  e = len()
            // If HTML-like attributes is allowed, this is the result, otherwise error
            None => {
                // Because we reach end-of-input, stop iteration on next call
                self.state = State::Done;
                let e = slice.len();
                return self.key_only(slice, start_key..e, e);
            }
        };

        let key = match self.check_for_duplicates(slice, key) {
            Err(e) => {
                self.state = State::SkipEqValue(offset);
                return Some(Err(e));
            }
            Ok(key) => key,
        };

        ////////////////////////////////////////////////////////////////////////

        // Gets the position of quote and quote type
        let (start_value, quote) = match iter.find(Ghost(Cls::NotWs), |b: u8| -> (x: bool) ensures x == cls(Cls::NotWs, b) { !is_whitespace(b) }) {
            // Input: `    key  =  "`
            //                     ^
            Some((s, b'"')) => (s + 1, b'"'),
            // Input: `    key  =  '`
            //                     ^
            Some((s, b'\'')) => (s + 1, b'\''),

            // Input: `    key  =  x`
            //                     ^
            // If HTML-like attributes is allowed, this is the start of the value
            Some((s, _)) if self.html => {
                // We do not check validity of attribute value characters as required
                // according to https://html.spec.whatwg.org/#unquoted. It can be done
                // during validation phase
                let end = match iter.find(Ghost(Cls::Ws), |b: u8| -> (x: bool) ensures x == cls(Cls::Ws, b) { is_whitespace(b) }) {
                    // Input: `    key  =  value `
                    //                     |    ^
                    //                     s    e
                    Some((e, _)) => e,
                    // Input: `    key  =  value`
                    //                     |    ^
                    //                     s    e = len()
                    None => slice.len(),
                };
                self.state = State::Next(end);
                return Some(Ok(Attr::Unquoted(key, s..end)));
            }
            // Input: `    key  =  x`
            //                     ^
            Some((s, _)) => {
                self.state = State::SkipValue(s);
                return Some(Err(AttrError::UnquotedValue(s)));
            }

            // Input: `    key  =  `
            //                     ^
            None => {
                // Because we reach end-of-input, stop iteration on next call
                self.state = State::Done;
                return Some(Err(AttrError::ExpectedValue(slice.len())));
            }
        };

        match iter.find(Ghost(Cls::Byte(quote)), |b: u8| -> (x: bool) ensures x == cls(Cls::Byte(quote), b) { b == quote }) {
            // Input: `    key  =  "   "`
            //                         ^
            Some((e, b'"')) => self.double_q(key, start_value..e),
            // Input: `    key  =  '   '`
            //                         ^
            Some((e, _)) => self.single_q(key, start_value..e),

            // Input: `    key  =  "   `
            // Input: `    key  =  '   `
            //                         ^
            // Closing quote not found
            None => {
                // Because we reach end-of-input, stop iteration on next call
                self.state = State::Done;
                Some(Err(AttrError::ExpectedQuote(slice.len(), quote)))
            }
        }
    }
//@end
}

//@extract attributes::Attributes | src/events/attributes.rs :: struct Attributes | serves=C11
 pub struct Attributes<'a> {
    /// Slice of `BytesStart` corresponding to attributes
    pub bytes: &'a [u8],
    /// Iterator state, independent from the actual source of bytes
    pub state: IterState,
}
//@end
impl<'a> Attributes<'a> {
//@extract attributes::Attributes::wrap | src/events/attributes.rs :: impl<'a> Attributes<'a> :: fn wrap | serves=C11
 pub(crate) fn wrap(buf: &'a [u8], pos: usize, html: bool) -> (r: Self)
        ensures r.bytes == buf, r.state.html == html, r.state.check_duplicates, r.state.keys@.len() == 0, r.state.state == State::Next(pos)
 {
        Self {
            bytes: buf,
            state: IterState::new(pos, html),
        }
    }
//@end
//@extract attributes::Attributes::new | src/events/attributes.rs :: impl<'a> Attributes<'a> :: fn new | serves=C11
 pub fn new(buf: &'a str, pos: usize) -> (r: Self)
        // XML rules (C11): the iterator over the bytes of `buf`, starting at `pos`, duplicates checked
        ensures r.bytes@ == buf.spec_bytes(), !r.state.html, r.state.check_duplicates, r.state.keys@.len() == 0, r.state.state == State::Next(pos)
 {
        Self::wrap(buf.as_bytes(), pos, false)
    }
//@end
//@extract attributes::Attributes::html | src/events/attributes.rs :: impl<'a> Attributes<'a> :: fn html | serves=C11
 pub fn html(buf: &'a str, pos: usize) -> (r: Self)
        // the same with the HTML rules (unquoted values, keys without value)
        ensures r.bytes@ == buf.spec_bytes(), r.state.html, r.state.check_duplicates, r.state.keys@.len() == 0, r.state.state == State::Next(pos)
 {
        Self::wrap(buf.as_bytes(), pos, true)
    }
//@end
}
impl<'a> BytesStart<'a> {
//@extract events::BytesStart::attributes | src/events/mod.rs :: impl<'a> BytesStart<'a> :: fn attributes | serves=C09,C11
 pub fn attributes(&self) -> (r: Attributes)
        // XML rules: every attribute needs `=` and a quoted value; iteration starts behind the name; duplicates are checked
        ensures r.bytes@ == self.buf@, !r.state.html, r.state.check_duplicates, r.state.keys@.len() == 0, r.state.state == State::Next(self.name_len)
 {
        proof { axiom_cow_bytes(&self.buf); }
        Attributes::wrap(&self.buf, self.name_len, false)
    }
//@end
//@extract events::BytesStart::html_attributes | src/events/mod.rs :: impl<'a> BytesStart<'a> :: fn html_attributes | serves=C11
 pub fn html_attributes(&self) -> (r: Attributes)
        // HTML rules: unquoted values and attributes without value are accepted
        ensures r.bytes@ == self.buf@, r.state.html, r.state.check_duplicates, r.state.keys@.len() == 0, r.state.state == State::Next(self.name_len)
 {
        proof { axiom_cow_bytes(&self.buf); }
        Attributes::wrap(&self.buf, self.name_len, true)
    }
//@end
}

impl<T> Attr<T> {
//@extract attributes::Attr::map | src/events/attributes.rs :: impl<T> Attr<T> :: fn map | serves=C11
//@rewrite mut f: F ==> f: F
//@rewrite F: FnMut(T) -> U ==> F: Fn(T) -> U
 fn map<U, F>(self, f: F) -> (r: Attr<U>)
    where
        F: Fn(T) -> U,
        requires match self {
            Attr::DoubleQ(k, v) => f.requires((k,)) && f.requires((v,)),
            Attr::SingleQ(k, v) => f.requires((k,)) && f.requires((v,)),
            Attr::Unquoted(k, v) => f.requires((k,)) && f.requires((v,)),
            Attr::Empty(k) => f.requires((k,)),
        }
        // the kind is kept, key and value are mapped
        ensures match (self, r) {
            (Attr::DoubleQ(k, v), Attr::DoubleQ(k2, v2)) => f.ensures((k,), k2) && f.ensures((v,), v2),
            (Attr::SingleQ(k, v), Attr::SingleQ(k2, v2)) => f.ensures((k,), k2) && f.ensures((v,), v2),
            (Attr::Unquoted(k, v), Attr::Unquoted(k2, v2)) => f.ensures((k,), k2) && f.ensures((v,), v2),
            (Attr::Empty(k), Attr::Empty(k2)) => f.ensures((k,), k2),
            _ => false,
        }
    {
        match self {
            Attr::DoubleQ(key, value) => Attr::DoubleQ(f(key), f(value)),
            Attr::SingleQ(key, value) => Attr::SingleQ(f(key), f(value)),
            Attr::Empty(key) => Attr::Empty(f(key)),
            Attr::Unquoted(key, value) => Attr::Unquoted(f(key), f(value)),
        }
    }
//@end
}
impl<'a> Attr<&'a [u8]> {
//@extract attributes::Attr::key | src/events/attributes.rs :: impl<'a> Attr<&'a [u8]> :: fn key | serves=C11
 fn key(&self) -> (r: QName<'a>)
        ensures r.0 == attr_key(*self)
 {
        QName(match self {
            Attr::DoubleQ(key, _) => key,
            Attr::SingleQ(key, _) => key,
            Attr::Empty(key) => key,
            Attr::Unquoted(key, _) => key,
        })
    }
//@end
//@extract attributes::Attr::value | src/events/attributes.rs :: impl<'a> Attr<&'a [u8]> :: fn value | serves=C11
 fn value(&self) -> (r: &'a [u8])
        // an attribute without value has the empty value (HTML)
        ensures r@ == attr_value(*self)
 {
        match self {
            Attr::DoubleQ(_, value) => value,
            Attr::SingleQ(_, value) => value,
            Attr::Empty(_) => &[],
            Attr::Unquoted(_, value) => value,
        }
    }
//@end
}
//@extract attributes::Attribute#attrs | src/events/attributes.rs :: struct Attribute | serves=C11
 pub struct Attribute<'a> {
    /// The key to uniquely define the attribute.
    ///
    /// If [`Attributes::with_checks`] is turned off, the key might not be unique.
    pub key: QName<'a>,
    /// The raw value of the attribute.
    pub value: Cow<'a, [u8]>,
}
//@end
impl<'a> vstd::std_specs::convert::FromSpecImpl<Attr<&'a [u8]>> for Attribute<'a> {
    open spec fn obeys_from_spec() -> bool { false }
    open spec fn from_spec(e: Attr<&'a [u8]>) -> Self { arbitrary() }
}
/// key / value of a located attribute
pub open spec fn attr_key<'a>(a: Attr<&'a [u8]>) -> &'a [u8] {
    match a { Attr::DoubleQ(k, _) => k, Attr::SingleQ(k, _) => k, Attr::Unquoted(k, _) => k, Attr::Empty(k) => k }
}
pub open spec fn attr_value<'a>(a: Attr<&'a [u8]>) -> Seq<u8> {
    match a { Attr::DoubleQ(_, v) => v@, Attr::SingleQ(_, v) => v@, Attr::Unquoted(_, v) => v@, Attr::Empty(_) => Seq::<u8>::empty() }
}
/// both ranges of an item lie inside the content
pub open spec fn attr_in(a: Attr<Range<usize>>, n: nat) -> bool {
    match a {
        Attr::DoubleQ(k, v) => k.start <= k.end <= n && v.start <= v.end <= n,
        Attr::SingleQ(k, v) => k.start <= k.end <= n && v.start <= v.end <= n,
        Attr::Unquoted(k, v) => k.start <= k.end <= n && v.start <= v.end <= n,
        Attr::Empty(k) => k.start <= k.end <= n,
    }
}
/// key / value bytes of a located attribute (opaque: callers reason with these names, not with the four shapes)
#[verifier::opaque]
pub open spec fn attr_value_text(s: Seq<u8>, a: Attr<Range<usize>>) -> Seq<u8> {
    match a { Attr::DoubleQ(_, v) => key_text(s, v), Attr::SingleQ(_, v) => key_text(s, v), Attr::Unquoted(_, v) => key_text(s, v), Attr::Empty(_) => Seq::<u8>::empty() }
}
#[verifier::opaque]
pub open spec fn attr_key_text(s: Seq<u8>, a: Attr<Range<usize>>) -> Seq<u8> {
    match a { Attr::DoubleQ(k, _) => key_text(s, k), Attr::SingleQ(k, _) => key_text(s, k), Attr::Unquoted(k, _) => key_text(s, k), Attr::Empty(k) => key_text(s, k) }
}
/// the public item for a located attribute: the bytes of its ranges
pub open spec fn item_of<'a>(s: Seq<u8>, a: Attr<Range<usize>>, at: Attribute<'a>) -> bool {
    match a {
        Attr::DoubleQ(k, v) => at.key.0@ == key_text(s, k) && at.value@ == key_text(s, v),
        Attr::SingleQ(k, v) => at.key.0@ == key_text(s, k) && at.value@ == key_text(s, v),
        Attr::Unquoted(k, v) => at.key.0@ == key_text(s, k) && at.value@ == key_text(s, v),
        Attr::Empty(k) => at.key.0@ == key_text(s, k) && at.value@.len() == 0,
    }
}
impl<'a> Attributes<'a> {
    /// type invariant of the public iterator
    pub open spec fn inv(&self) -> bool { state_ok(self.state.state, self.bytes@.len()) && keys_in(self.state.keys@, self.bytes@.len()) }
    /// termination measure: how much of the tag is still ahead
    pub open spec fn ahead(&self) -> nat { ahead(self.state.state, self.bytes@.len()) }
}
impl<'a> From<Attr<&'a [u8]>> for Attribute<'a> {
//@extract attributes::Attribute::from_attr | src/events/attributes.rs :: impl<'a> From<Attr<&'a [u8]>> for Attribute<'a> :: fn from | serves=C11
    fn from(attr: Attr<&'a [u8]>) -> (r: Self)
        ensures r.key.0 == attr_key(attr), r.value@ == attr_value(attr)
    {
        Self {
            key: attr.key(),
            value: Cow::Borrowed(attr.value()),
        }
    }
//@end
}
impl<'a> Attributes<'a> {
//@extract attributes::Attributes::with_checks | src/events/attributes.rs :: impl<'a> Attributes<'a> :: fn with_checks | serves=C05,C11
 pub fn with_checks(&mut self, val: bool) -> (r: &mut Attributes<'a>)
        ensures r.bytes == old(self).bytes, r.state.state == old(self).state.state, r.state.html == old(self).state.html,
            r.state.keys == old(self).state.keys, r.state.check_duplicates == val, *final(self) == *final(r)
 {
        self.state.check_duplicates = val;
        self
    }
//@end
//@extract attributes::Attributes::next | src/events/attributes.rs :: impl<'a> Iterator for Attributes<'a> :: fn next | serves=C09,C11
//@rewrite Option<Self::Item> ==> Option<core::result::Result<Attribute<'a>, AttrError>>
    pub fn next(&mut self) -> (r: Option<core::result::Result<Attribute<'a>, AttrError>>)
        requires old(self).inv()
        ensures
            final(self).inv(), final(self).bytes == old(self).bytes,
            // every item moves the iterator on (C03: a loop over the attributes of a tag terminates)
            r is Some ==> final(self).ahead() < old(self).ahead(),
            // without the duplicate check, successive calls walk through attr_items, stopping at the first error
            !old(self).state.check_duplicates ==> ({
                let items = attr_items(old(self).state.state, old(self).state.html, old(self).bytes@);
                match r {
                    Some(Ok(at)) => items.len() > 0 && item_of(old(self).bytes@, items[0], at) && attr_in(items[0], old(self).bytes@.len())
                        && at.key.0@ == attr_key_text(old(self).bytes@, items[0]) && at.value@ == attr_value_text(old(self).bytes@, items[0])
                        && attr_items(final(self).state.state, final(self).state.html, final(self).bytes@) == items.subrange(1, items.len() as int),
                    _ => items.len() == 0,
                }
            }),
            final(self).state.html == old(self).state.html, final(self).state.check_duplicates == old(self).state.check_duplicates,
            // C11 / C09: the public item is the located attribute of one documented step, key and value being exactly
            // the bytes of its ranges; errors are passed on unchanged
            ({ let st = next_spec(old(self).state.state, old(self).state.html, old(self).state.check_duplicates, old(self).state.keys@, old(self).bytes@);
               final(self).state.state == st.state && final(self).state.keys@ == st.keys && match st.out {
                   None => r is None,
                   Some(Err(e)) => r == Some::<core::result::Result<Attribute<'a>, AttrError>>(Err(e)),
                   Some(Ok(a)) => r matches Some(Ok(at)) && item_of(old(self).bytes@, a, at),
               } }),
    {
        proof {
            axiom_slice_len(self.bytes);
            lemma_next_progress(self.state.state, self.state.html, self.state.check_duplicates, self.state.keys@, self.bytes@);
            if !self.state.check_duplicates {
                lemma_next_keys_irrelevant(self.state.state, self.state.html, self.state.keys@, self.bytes@);
                reveal_with_fuel(attr_items, 2); reveal(attr_key_text); reveal(attr_value_text);
                let items = attr_items(self.state.state, self.state.html, self.bytes@);
                let step = next_spec(self.state.state, self.state.html, false, Seq::<Range<usize>>::empty(), self.bytes@);
                if step.out matches Some(Ok(a)) { assert(items.subrange(1, items.len() as int) =~= attr_items(step.state, self.state.html, self.bytes@)); }
            }
        }
        match self.state.next(self.bytes) {
            None => None,
            Some(Ok(a)) => Some(Ok(a.map(|range: Range<usize>| -> (x: &'a [u8])
                    requires range.start <= range.end <= self.bytes@.len()
                    ensures x@ == key_text(self.bytes@, range)
                { &self.bytes[range] }).into())),
            Some(Err(e)) => Some(Err(e)),
        }
    }
//@end
}
// ---- looking an attribute up by name (BytesStart::try_get_attribute; BytesDecl::encoding / standalone use it) ----
/// the FIRST attribute named `name` as the iterator (duplicate check off) yields the attributes of the tag from state `st` on; an error of
/// the iterator in front of it is the result (the iteration of next_spec; terminates by lemma_next_progress)
pub open spec fn find_attr(st: State, html: bool, s: Seq<u8>, name: Seq<u8>) -> core::result::Result<Option<Attr<Range<usize>>>, AttrError>
    decreases ahead(st, s.len()) via find_attr_decreases
{
    if !state_ok(st, s.len()) || s.len() > usize::MAX { Ok(None) } else {
        let step = next_spec(st, html, false, Seq::<Range<usize>>::empty(), s);
        match step.out {
            None => Ok(None),
            Some(Err(e)) => Err(e),
            Some(Ok(a)) => if attr_key_text(s, a) == name { Ok(Some(a)) } else { find_attr(step.state, html, s, name) },
        }
    }
}
#[via_fn]
proof fn find_attr_decreases(st: State, html: bool, s: Seq<u8>, name: Seq<u8>) {
    if state_ok(st, s.len()) && s.len() <= usize::MAX {
        lemma_next_progress(st, html, false, Seq::<Range<usize>>::empty(), s);
    }
}
impl<'a> BytesStart<'a> {
//@extract events::BytesStart::try_get_attribute | src/events/mod.rs :: impl<'a> BytesStart<'a> :: fn try_get_attribute | serves=C11,C17 n1=match
//@rewrite try_get_attribute<N: AsRef<[u8]> + Sized>( ==> try_get_attribute(
//@rewrite attr_name: N, ==> attr_name: &str,
//@rewrite a.key.as_ref() == attr_name.as_ref() ==> bytes_eq(a.key.0, attr_name.as_bytes())
 pub fn try_get_attribute(
        &'a self,
        attr_name: &str,
    ) -> (r: Result<Option<Attribute<'a>>, AttrError>)
        requires self.name_len <= self.buf@.len()
        // C11: the FIRST attribute with that name (duplicates are not checked), its key and value being exactly the bytes of its
        // ranges; nothing if there is none; the iterator's error if one comes first
        ensures match find_attr(State::Next(self.name_len), false, self.buf@, attr_name.spec_bytes()) {
            Ok(None) => r == Result::<Option<Attribute<'a>>, AttrError>::Ok(None),
            Err(e) => r == Result::<Option<Attribute<'a>>, AttrError>::Err(e),
            Ok(Some(a)) => r matches Ok(Some(at)) && item_of(self.buf@, a, at),
        }
    {
        let ghost want = find_attr(State::Next(self.name_len), false, self.buf@, attr_name.spec_bytes());
        let ghost nm = attr_name.spec_bytes();
        match self.attributes().with_checks(false){ mut __it1 => loop
            invariant __it1.inv(), __it1.bytes@ == self.buf@, !__it1.state.html, !__it1.state.check_duplicates,
                find_attr(__it1.state.state, false, self.buf@, nm) == want,
                want == find_attr(State::Next(self.name_len), false, self.buf@, nm), nm == attr_name.spec_bytes(),
            ensures want == find_attr(State::Next(self.name_len), false, self.buf@, attr_name.spec_bytes()),
                want == core::result::Result::<Option<Attr<Range<usize>>>, AttrError>::Ok(None),
            decreases __it1.ahead()
          { let ghost st1 = __it1.state.state; let ghost k1 = __it1.state.keys@;
            proof { reveal(attr_key_text); lemma_next_keys_irrelevant(st1, false, k1, self.buf@); axiom_slice_len(__it1.bytes); }
            let ghost step = next_spec(st1, false, false, Seq::<Range<usize>>::empty(), self.buf@);
            proof {
                // one unfolding of find_attr at the current state
                assert(state_ok(st1, self.buf@.len()) && self.buf@.len() <= usize::MAX);
                assert(find_attr(st1, false, self.buf@, nm) == (match step.out {
                    None => Ok(None),
                    Some(Err(e)) => Err(e),
                    Some(Ok(a)) => if attr_key_text(self.buf@, a) == nm { Ok(Some(a)) } else { find_attr(step.state, false, self.buf@, nm) },
                }));
            }
            match __it1.next() { None => { break; } Some( a) => {
            let a = a?;
            proof { assert(step.out matches Some(Ok(x)) && item_of(self.buf@, x, a) && a.key.0@ == attr_key_text(self.buf@, x)); }
            if bytes_eq(a.key.0, attr_name.as_bytes()) {
                return Ok(Some(a));
            }
        } } } }
        Ok(None)
    }
//@end
}
/// std: `Result<Option<T>, E>::transpose`
pub assume_specification<T, E>[ core::result::Result::<Option<T>, E>::transpose ](r: core::result::Result<Option<T>, E>) -> (o: Option<core::result::Result<T, E>>)
    ensures match r { Ok(None) => o is None, Ok(Some(x)) => o == Some(core::result::Result::<T, E>::Ok(x)), Err(e) => o == Some(core::result::Result::<T, E>::Err(e)) };
/// the value of the pseudo-attribute `name` of an XML declaration: the FIRST one with that name (C17: `encoding="..."`)
pub open spec fn decl_attr<'a>(d: BytesDecl<'a>, name: Seq<u8>, r: Option<core::result::Result<Cow<'a, [u8]>, AttrError>>) -> bool {
    match find_attr(State::Next(d.content.name_len), false, d.content.buf@, name) {
        Ok(None) => r is None,
        Err(e) => r == Some(core::result::Result::<Cow<'a, [u8]>, AttrError>::Err(e)),
        Ok(Some(a)) => r matches Some(Ok(v)) && v@ =~= val_text(d.content.buf@, a),
    }
}
/// the bytes of the value range of a located attribute (attr_value_text without its opacity)
pub open spec fn val_text(s: Seq<u8>, a: Attr<Range<usize>>) -> Seq<u8> {
    match a { Attr::DoubleQ(_, v) => key_text(s, v), Attr::SingleQ(_, v) => key_text(s, v), Attr::Unquoted(_, v) => key_text(s, v), Attr::Empty(_) => Seq::<u8>::empty() }
}
impl<'a> BytesDecl<'a> {
//@extract events::BytesDecl::encoding | src/events/mod.rs :: impl<'a> BytesDecl<'a> :: fn encoding | serves=C11,C17
 pub fn encoding(&self) -> (r: Option<Result<Cow<[u8]>, AttrError>>)
        requires self.content.name_len <= self.content.buf@.len()
        // the value of the FIRST pseudo-attribute `encoding` (errors of the attribute syntax in front of it are passed on)
        ensures decl_attr(*self, "encoding".spec_bytes(), r)
    {
        self.content
            .try_get_attribute("encoding")
            .map(|a: Option<Attribute>| -> (o: Option<Cow<[u8]>>) ensures o == (match a { Some(x) => Some(x.value), None => None }) { a.map(|a: Attribute| -> (v: Cow<[u8]>) ensures v == a.value { a.value }) })
            .transpose()
    }
//@end
//@extract events::BytesDecl::standalone | src/events/mod.rs :: impl<'a> BytesDecl<'a> :: fn standalone | serves=C11
 pub fn standalone(&self) -> (r: Option<Result<Cow<[u8]>, AttrError>>)
        requires self.content.name_len <= self.content.buf@.len()
        // the value of the FIRST pseudo-attribute `standalone` (errors of the attribute syntax in front of it are passed on)
        ensures decl_attr(*self, "standalone".spec_bytes(), r)
    {
        self.content
            .try_get_attribute("standalone")
            .map(|a: Option<Attribute>| -> (o: Option<Cow<[u8]>>) ensures o == (match a { Some(x) => Some(x.value), None => None }) { a.map(|a: Attribute| -> (v: Cow<[u8]>) ensures v == a.value { a.value }) })
            .transpose()
    }
//@end
}
}
