// ---------------------------------------------------------------------------------------------
// U-roundtrip, glue (C09 / C10): where an event's bytes become the user's string. `BytesText::unescape[_with]` and
// `Attribute::{unescape_value[_with], decode_and_unescape_value[_with]}` DECODE the stored bytes with the given decoder and
// hand the result to escape::unescape_with (verified in unit charref): the value is `unesc_ok` of the decoding -- for the
// predefined entities the function `unescape_xml` --, so "every attribute value and text unescapes to the original string"
// holds at the API the user calls, not only for the string-level function.
// ---------------------------------------------------------------------------------------------
pub mod evun_ {
use super::*;
use vstd::prelude::*;
use vstd::string::*;
use crate::escfn_::*;
use crate::ctor_::axiom_into_self_cow;
use core::result::Result;
/// src/events/attributes.rs: `use crate::errors::Result as XmlResult;`
pub type XmlResult<T> = Result<T, Error>;

/// src/errors.rs: `impl From<EscapeError> for Error { Self::Escape(error) }` -- the transcription of `Error` in types.rs has no
/// `Escape` variant (it is shared with units that do not know EscapeError): the conversion is assumed to yield some error
impl vstd::std_specs::convert::FromSpecImpl<EscapeError> for Error {
    open spec fn obeys_from_spec() -> bool { false }
    open spec fn from_spec(e: EscapeError) -> Self { arbitrary() }
}
impl From<EscapeError> for Error {
    #[verifier::external_body]
    fn from(e: EscapeError) -> Self { unimplemented!() }
}
/// std: `Cow<str>: From<String>` owns the string; `Cow<str>::into_owned` gives the string it holds
pub assume_specification<'a>[ <Cow<'a, str> as From<String>>::from ](s: String) -> (r: Cow<'a, str>)
    ensures r == Cow::<'a, str>::Owned(s);
pub axiom fn axiom_into_owned_str<'a>(c: Cow<'a, str>)
    ensures spec_cow_into_owned::<str>(c)@ == c@;
/// the value of stored bytes: their decoding, then every reference replaced by what it stands for (C10: `unesc_ok`); an error
/// iff the bytes do not decode or a reference is not one (`unesc_err`)
pub open spec fn value_post<'a, 'e, F: Fn(&str) -> Option<&'e str>>(dec: Decoder, bytes: Seq<u8>, f: F, r: Result<Cow<'a, str>, Error>) -> bool {
    match spec_decode::<'a>(dec, bytes) {
        Ok(d) => match r {
            Ok(c) => unesc_ok(cow_str_bytes(d), 0, f, cow_str_bytes(c)),
            Err(_) => unesc_err(cow_str_bytes(d), 0, f),
        },
        Err(_) => r is Err,
    }
}
/// ... for the predefined entities that is the function `unescape_xml`
pub open spec fn value_post_xml<'a>(dec: Decoder, bytes: Seq<u8>, r: Result<Cow<'a, str>, Error>) -> bool {
    match spec_decode::<'a>(dec, bytes) {
        Ok(d) => match r {
            Ok(c) => unescape_xml(cow_str_bytes(d), 0) == Some(cow_str_bytes(c)),
            Err(_) => unescape_xml(cow_str_bytes(d), 0) is None,
        },
        Err(_) => r is Err,
    }
}
pub proof fn lemma_value_xml<'a, 'e, F: Fn(&str) -> Option<&'e str>>(dec: Decoder, bytes: Seq<u8>, f: F, r: Result<Cow<'a, str>, Error>)
    requires implements_xml(f), value_post(dec, bytes, f, r)
    ensures value_post_xml(dec, bytes, r)
{
    if let Ok(d) = spec_decode::<'a>(dec, bytes) {
        let s = cow_str_bytes(d);
        match r {
            Ok(c) => lemma_unesc_functional(s, 0, f, cow_str_bytes(c)),
            Err(_) => lemma_unesc_functional(s, 0, f, Seq::<u8>::empty()),
        }
    }
}
impl Decoder {
    /// the decoder `Decoder::utf8()` makes (a unit struct without feature `encoding`)
    pub open spec fn spec_utf8() -> Decoder { Decoder {} }
//@extract encoding::Decoder::decode_cow | src/encoding.rs :: impl Decoder :: fn decode_cow | serves=C09,C10
 fn decode_cow<'b>(
        &self,
        bytes: &Cow<'b, [u8]>,
    ) -> (r: Result<Cow<'b, str>, EncodingError>)
        // ONE decoding however the bytes are held
        ensures match spec_decode::<'b>(*self, bytes@) {
            Ok(d) => r matches Ok(c) && c@ == d@,
            Err(_) => r is Err,
        }
    {
        proof {
            axiom_cow_bytes(bytes);
            if let Ok(d) = spec_decode::<'b>(*self, bytes@) { axiom_into_owned_str(d); }
        }
        match bytes {
            Cow::Borrowed(bytes) => self.decode(bytes),
            // Convert to owned, because otherwise Cow will be bound with wrong lifetime
            Cow::Owned(bytes) => Ok(self.decode(bytes)?.into_owned().into()),
        }
    }
//@end
}
impl<'a> BytesText<'a> {
//@extract events::BytesText::unescape_with | src/events/mod.rs :: impl<'a> BytesText<'a> :: fn unescape_with | serves=C09,C10
//@rewrite unescape_with<'entity>( ==> unescape_with<'entity, F: Fn(&str) -> Option<&'entity str>>(
//@rewrite resolve_entity: impl FnMut(&str) -> Option<&'entity str>, ==> resolve_entity: F,
 pub fn unescape_with<'entity, F: Fn(&str) -> Option<&'entity str>>(
        &self,
        resolve_entity: F,
    ) -> (r: Result<Cow<'a, str>, Error>)
        requires forall|p: &str| resolve_entity.requires((p,)),
        ensures value_post(self.decoder, self.content@, resolve_entity, r),
    {
        let decoded = self.decoder.decode_cow(&self.content)?;
        proof { axiom_cow_str(&decoded); }

        match unescape_with(&decoded, resolve_entity)? {
            // Because result is borrowed, no replacements was done and we can use original string
            Cow::Borrowed(_) => Ok(decoded),
            Cow::Owned(s) => Ok(s.into()),
        }
    }
//@end
//@extract events::BytesText::unescape | src/events/mod.rs :: impl<'a> BytesText<'a> :: fn unescape | serves=C09,C10
//@rewrite self.unescape_with(resolve_predefined_entity) ==> { let f = |e: &str| resolve_predefined_entity(e); let r = self.unescape_with(f); r }
 pub fn unescape(&self) -> (r: Result<Cow<'a, str>, Error>)
        ensures value_post_xml(self.decoder, self.content@, r),
 {
        { let f = |e: &str| -> (o: Option<&'static str>)
            ensures match o { Some(v) => xml_entity(e.spec_bytes()) == Some(v.spec_bytes()), None => xml_entity(e.spec_bytes()) is None }
            { resolve_predefined_entity(e) }; let r = self.unescape_with(f);
          proof { lemma_value_xml(self.decoder, self.content@, f, r); }
          r }
    }
//@end
}
impl<'a> Attribute<'a> {
//@extract attributes::Attribute::decode_and_unescape_value_with | src/events/attributes.rs :: impl<'a> Attribute<'a> :: fn decode_and_unescape_value_with | serves=C09,C10
//@rewrite decode_and_unescape_value_with<'entity>( ==> decode_and_unescape_value_with<'entity, F: Fn(&str) -> Option<&'entity str>>(
//@rewrite resolve_entity: impl FnMut(&str) -> Option<&'entity str>, ==> resolve_entity: F,
 pub fn decode_and_unescape_value_with<'entity, F: Fn(&str) -> Option<&'entity str>>(
        &self,
        decoder: Decoder,
        resolve_entity: F,
    ) -> (r: XmlResult<Cow<'a, str>>)
        requires forall|p: &str| resolve_entity.requires((p,)),
        ensures value_post(decoder, self.value@, resolve_entity, r),
    {
        let decoded = decoder.decode_cow(&self.value)?;
        proof { axiom_cow_str(&decoded); }

        match unescape_with(&decoded, resolve_entity)? {
            // Because result is borrowed, no replacements was done and we can use original string
            Cow::Borrowed(_) => Ok(decoded),
            Cow::Owned(s) => Ok(s.into()),
        }
    }
//@end
//@extract attributes::Attribute::unescape_value_with | src/events/attributes.rs :: impl<'a> Attribute<'a> :: fn unescape_value_with | serves=C09,C10
//@rewrite unescape_value_with<'entity>( ==> unescape_value_with<'entity, F: Fn(&str) -> Option<&'entity str>>(
//@rewrite resolve_entity: impl FnMut(&str) -> Option<&'entity str>, ==> resolve_entity: F,
 pub fn unescape_value_with<'entity, F: Fn(&str) -> Option<&'entity str>>(
        &self,
        resolve_entity: F,
    ) -> (r: XmlResult<Cow<'a, str>>)
        requires forall|p: &str| resolve_entity.requires((p,)),
        // "Decodes using UTF-8 then unescapes the value"
        ensures value_post(Decoder::spec_utf8(), self.value@, resolve_entity, r),
    {
        self.decode_and_unescape_value_with(Decoder::utf8(), resolve_entity)
    }
//@end
//@extract attributes::Attribute::decode_and_unescape_value | src/events/attributes.rs :: impl<'a> Attribute<'a> :: fn decode_and_unescape_value | serves=C09,C10
//@rewrite self.decode_and_unescape_value_with(decoder, resolve_predefined_entity) ==> { let f = |e: &str| resolve_predefined_entity(e); let r = self.decode_and_unescape_value_with(decoder, f); r }
 pub fn decode_and_unescape_value(&self, decoder: Decoder) -> (r: XmlResult<Cow<'a, str>>)
        ensures value_post_xml(decoder, self.value@, r),
 {
        { let f = |e: &str| -> (o: Option<&'static str>)
            ensures match o { Some(v) => xml_entity(e.spec_bytes()) == Some(v.spec_bytes()), None => xml_entity(e.spec_bytes()) is None }
            { resolve_predefined_entity(e) }; let r = self.decode_and_unescape_value_with(decoder, f);
          proof { lemma_value_xml(decoder, self.value@, f, r); }
          r }
    }
//@end
//@extract attributes::Attribute::unescape_value | src/events/attributes.rs :: impl<'a> Attribute<'a> :: fn unescape_value | serves=C09,C10
//@rewrite self.unescape_value_with(resolve_predefined_entity) ==> { let f = |e: &str| resolve_predefined_entity(e); let r = self.unescape_value_with(f); r }
 pub fn unescape_value(&self) -> (r: XmlResult<Cow<'a, str>>)
        ensures value_post_xml(Decoder::spec_utf8(), self.value@, r),
 {
        { let f = |e: &str| -> (o: Option<&'static str>)
            ensures match o { Some(v) => xml_entity(e.spec_bytes()) == Some(v.spec_bytes()), None => xml_entity(e.spec_bytes()) is None }
            { resolve_predefined_entity(e) }; let r = self.unescape_value_with(f);
          proof { lemma_value_xml(Decoder::spec_utf8(), self.value@, f, r); }
          r }
    }
//@end
}
pub axiom fn axiom_cow_mut_bytes_ev()
    ensures forall|c: &Cow<'_, [u8]>| (#[trigger] cow_target(c))@ == c@;
// ---- a CDATA section turned into an (escaped) text event: BytesCData::escape / partial_escape / minimal_escape ----
impl<'a> BytesCData<'a> {
//@extract events::BytesCData::decode | src/events/mod.rs :: impl<'a> BytesCData<'a> :: fn decode | serves=C09,C10
 pub(crate) fn decode(&self) -> (r: Result<Cow<'a, str>, EncodingError>)
        ensures match spec_decode::<'a>(self.decoder, self.content@) {
            Ok(d) => r matches Ok(c) && c@ == d@,
            Err(_) => r is Err,
        }
 {
        Ok(self.decoder.decode_cow(&self.content)?)
    }
//@end
//@extract events::BytesCData::escape | src/events/mod.rs :: impl<'a> BytesCData<'a> :: fn escape | serves=C09,C10
 pub fn escape(self) -> (r: Result<BytesText<'a>, EncodingError>)
        // C09 / C10: the text event holds the DECODED content of the section, escaped with this function's table -- so it unescapes
        // to that content again (theorem of C10) -- ; an error iff the bytes do not decode
        ensures match spec_decode::<'a>(self.decoder, self.content@) {
            Ok(d) => r matches Ok(t) && t.content@ == spec_escape(cow_str_bytes(d), p_full()),
            Err(_) => r is Err,
        }
 {
        proof { axiom_into_self_cow(); axiom_cow_mut_bytes_ev(); }
        let decoded = self.decode()?;
        Ok(BytesText::wrap(
            match escape(decoded) {
                Cow::Borrowed(escaped) => Cow::Borrowed(escaped.as_bytes()),
                Cow::Owned(escaped) => Cow::Owned(escaped.into_bytes()),
            },
            Decoder::utf8(),
        ))
    }
//@end
//@extract events::BytesCData::partial_escape | src/events/mod.rs :: impl<'a> BytesCData<'a> :: fn partial_escape | serves=C09,C10
 pub fn partial_escape(self) -> (r: Result<BytesText<'a>, EncodingError>)
        // C09 / C10: the text event holds the DECODED content of the section, escaped with this function's table -- so it unescapes
        // to that content again (theorem of C10) -- ; an error iff the bytes do not decode
        ensures match spec_decode::<'a>(self.decoder, self.content@) {
            Ok(d) => r matches Ok(t) && t.content@ == spec_escape(cow_str_bytes(d), p_partial()),
            Err(_) => r is Err,
        }
 {
        proof { axiom_into_self_cow(); axiom_cow_mut_bytes_ev(); }
        let decoded = self.decode()?;
        Ok(BytesText::wrap(
            match partial_escape(decoded) {
                Cow::Borrowed(escaped) => Cow::Borrowed(escaped.as_bytes()),
                Cow::Owned(escaped) => Cow::Owned(escaped.into_bytes()),
            },
            Decoder::utf8(),
        ))
    }
//@end
//@extract events::BytesCData::minimal_escape | src/events/mod.rs :: impl<'a> BytesCData<'a> :: fn minimal_escape | serves=C09,C10
 pub fn minimal_escape(self) -> (r: Result<BytesText<'a>, EncodingError>)
        // C09 / C10: the text event holds the DECODED content of the section, escaped with this function's table -- so it unescapes
        // to that content again (theorem of C10) -- ; an error iff the bytes do not decode
        ensures match spec_decode::<'a>(self.decoder, self.content@) {
            Ok(d) => r matches Ok(t) && t.content@ == spec_escape(cow_str_bytes(d), p_minimal()),
            Err(_) => r is Err,
        }
 {
        proof { axiom_into_self_cow(); axiom_cow_mut_bytes_ev(); }
        let decoded = self.decode()?;
        Ok(BytesText::wrap(
            match minimal_escape(decoded) {
                Cow::Borrowed(escaped) => Cow::Borrowed(escaped.as_bytes()),
                Cow::Owned(escaped) => Cow::Owned(escaped.into_bytes()),
            },
            Decoder::utf8(),
        ))
    }
//@end
}
}
