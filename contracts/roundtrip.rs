// ---------------------------------------------------------------------------------------------
// Read-back lemmas (C08 second sentence, C09 first sentence): the two halves that the units `reader`
// and `writer` prove separately are joined here.
//   writer:  write_event(e) appends exactly render(e)                     (unit writer)
//   reader:  one read-event call satisfies event_post                     (unit reader, T01)
//   here:    if the unread input is render(e) ++ rest for an event `e` within the documented preconditions
//            of its constructor (`writable`), then ANY outcome allowed by event_post is Ok(e') with the
//            same kind, payload and name length, and the unread input afterwards is `rest`.
// Pure proofs over the spec vocabulary; no executable code.  "Unread input" counts a '<' that the reader
// has consumed ahead (state InsideMarkup) as unread (`logical`).
// ---------------------------------------------------------------------------------------------
pub mod roundtrip_ {
use super::*;
use vstd::prelude::*;

pub open spec fn lt() -> Seq<u8> { seq![0x3cu8] }
pub open spec fn gt() -> Seq<u8> { seq![0x3eu8] }

/// the input that is still to be read, as the user sees it
pub open spec fn logical(st: ReaderState, rem: Seq<u8>) -> Seq<u8> {
    if st.state is InsideMarkup { lt() + rem } else { rem }
}
/// neither ends a tag nor changes the quote state
pub open spec fn plain(s: Seq<u8>) -> bool {
    forall|j: int| 0 <= j < s.len() ==> !memchr::is_needle3(0x3e, 0x27, 0x22, #[trigger] s[j])
}
/// every quote opened in `s` is closed in `s`, and no '>' stands outside quotes
pub open spec fn tag_closed(s: Seq<u8>) -> bool {
    tag_end(ElementParser::Outside, s) is None && q_after(ElementParser::Outside, s) is Outside
}
/// the shape of a `BytesStart` made by the element builder: a non-empty name without whitespace, then
/// nothing or whitespace-separated attributes
pub open spec fn built(buf: Seq<u8>, name_len: int) -> bool {
    &&& 0 < name_len <= buf.len()
    &&& forall|j: int| 0 <= j < name_len ==> !is_ws(#[trigger] buf[j])
    &&& buf.len() > name_len ==> is_ws(buf[name_len])
}
pub proof fn lemma_name_len_prefix(buf: Seq<u8>, n: int)
    requires 0 <= n <= buf.len(), forall|j: int| 0 <= j < n ==> !is_ws(#[trigger] buf[j]), buf.len() > n ==> is_ws(buf[n])
    ensures spec_name_len(buf) == n
    decreases n
{
    if n > 0 {
        let b1 = buf.subrange(1, buf.len() as int);
        assert forall|j: int| 0 <= j < n - 1 implies !is_ws(#[trigger] b1[j]) by { assert(!is_ws(buf[j + 1])); }
        lemma_name_len_prefix(b1, n - 1);
    }
}
/// in `a ++ ">" ++ rest` with `a` closed, the tag ends at that '>'
pub proof fn lemma_tag_end_closed(a: Seq<u8>, rest: Seq<u8>)
    requires tag_closed(a)
    ensures tag_end(ElementParser::Outside, a + gt() + rest) == Some(a.len() as int)
{
    lemma_tag_concat(ElementParser::Outside, a, gt() + rest);
    lemma_tag_concat(ElementParser::Outside, gt(), rest);
    lemma_tag_one(ElementParser::Outside, 0x3e);
    assert(a + gt() + rest =~= a + (gt() + rest));
}

/// what may be read back as a start tag: built by the element builder, quotes balanced, and not spelled
/// like another construct
pub open spec fn writable_start(buf: Seq<u8>, name_len: int) -> bool {
    &&& built(buf, name_len) && tag_closed(buf)
    &&& buf[0] != 0x21 && buf[0] != 0x2f && buf[0] != 0x3f
}

/// `<` buf `>` : a Start event with the same content and the same name length
proof fn lemma_markup_start<'i>(pre: ReaderState, buf: Seq<u8>, name_len: int, rest: Seq<u8>,
        post: ReaderState, rem2: Seq<u8>, r: core::result::Result<Event<'i>, Error>)
    requires
        markup_post(pre, buf + gt() + rest, post, rem2, r, false),
        writable_start(buf, name_len), buf.last() != 0x2f,
    ensures
        r matches Ok(Event::Start(e)) && e.buf@ == buf && e.name_len == name_len,
        rem2 == rest, post.state is InsideText, post.config == pre.config,
        post.stack() == pre.stack().push(buf.subrange(0, name_len)),
{
    reveal(markup_post);
    let rem = buf + gt() + rest;
    lemma_tag_end_closed(buf, rest);
    assert(rem[0] == buf[0]);
    assert(rem.subrange(0, buf.len() as int) =~= buf);
    assert(skip(rem, buf.len() as int + 1) =~= rest);
    lemma_name_len_prefix(buf, name_len);
}
/// `<` buf `/>` : an Empty event (or, with expand_empty_elements, a Start event followed by the synthetic End)
proof fn lemma_markup_empty<'i>(pre: ReaderState, buf: Seq<u8>, name_len: int, rest: Seq<u8>,
        post: ReaderState, rem2: Seq<u8>, r: core::result::Result<Event<'i>, Error>)
    requires
        markup_post(pre, buf + seq![0x2fu8] + gt() + rest, post, rem2, r, false),
        writable_start(buf, name_len),
    ensures
        rem2 == rest, post.config == pre.config,
        if pre.config.expand_empty_elements {
            r matches Ok(Event::Start(e)) && e.buf@ == buf && e.name_len == name_len && post.state is InsideEmpty
                && post.stack() == pre.stack().push(buf.subrange(0, name_len))
        } else {
            r matches Ok(Event::Empty(e)) && e.buf@ == buf && e.name_len == name_len && post.state is InsideText
                && post.stack() == pre.stack()
        },
{
    reveal(markup_post);
    let content = buf + seq![0x2fu8];
    let rem = content + gt() + rest;
    assert(rem =~= buf + seq![0x2fu8] + gt() + rest);
    lemma_tag_concat(ElementParser::Outside, buf, seq![0x2fu8]);
    lemma_tag_one(ElementParser::Outside, 0x2f);
    assert(tag_closed(content));
    lemma_tag_end_closed(content, rest);
    assert(rem[0] == buf[0]);
    assert(rem.subrange(0, content.len() as int) =~= content);
    assert(skip(rem, content.len() as int + 1) =~= rest);
    assert(content.subrange(0, content.len() - 1) =~= buf);
    lemma_name_len_prefix(buf, name_len);
}

/// an end tag as `BytesEnd::new` makes it: a non-empty name without quotes, '>' or trailing whitespace
pub open spec fn writable_end(name: Seq<u8>) -> bool {
    name.len() > 0 && plain(name) && !is_ws(name.last())
}
/// the end tag closes the innermost open element (or unmatched ends are allowed)
pub open spec fn end_accepted(pre: ReaderState, name: Seq<u8>) -> bool { end_accepted_cs(pre.config, pre.stack(), name) }
pub open spec fn end_accepted_cs(config: Config, stack: Seq<Seq<u8>>, name: Seq<u8>) -> bool {
    if stack.len() > 0 { !config.check_end_names || name == stack.last() } else { config.allow_unmatched_ends }
}
/// `</` name `>` : an End event with that name
proof fn lemma_markup_end<'i>(pre: ReaderState, name: Seq<u8>, rest: Seq<u8>,
        post: ReaderState, rem2: Seq<u8>, r: core::result::Result<Event<'i>, Error>)
    requires
        markup_post(pre, seq![0x2fu8] + name + gt() + rest, post, rem2, r, false),
        writable_end(name), end_accepted(pre, name),
    ensures
        r matches Ok(Event::End(e)) && e.name@ == name,
        rem2 == rest, post.state is InsideText, post.config == pre.config,
        post.stack() == (if pre.stack().len() > 0 { pre.stack().drop_last() } else { pre.stack() }),
{
    reveal(markup_post);
    let content = seq![0x2fu8] + name;
    let rem = content + gt() + rest;
    assert(rem =~= seq![0x2fu8] + name + gt() + rest);
    assert(plain(content));
    lemma_tag_plain(ElementParser::Outside, content);
    lemma_tag_end_closed(content, rest);
    assert(rem[0] == 0x2f);
    assert(rem.subrange(0, content.len() as int) =~= content);
    assert(skip(rem, content.len() as int + 1) =~= rest);
    assert(content.subrange(1, content.len() as int) =~= name);
    // no trailing whitespace: trimming the name changes nothing
    assert(trimmed_end(name) == name);
}

// ---- comments ----
pub open spec fn comment_open() -> Seq<u8> { seq![0x21u8, 0x2d, 0x2d] }
pub open spec fn comment_close() -> Seq<u8> { seq![0x2du8, 0x2d] }
/// a comment body that does not contain its own terminator "-->"
pub open spec fn writable_comment(c: Seq<u8>) -> bool {
    forall|j: int| 2 <= j < c.len() ==> !(#[trigger] c[j] == 0x3e && c[j - 1] == 0x2d && c[j - 2] == 0x2d)
}
/// in `!--` c `-->` rest the first comment terminator is the '>' of that "-->"
proof fn lemma_comment_term(c: Seq<u8>, rest: Seq<u8>)
    requires writable_comment(c)
    ensures ({
        let body = comment_open() + c + comment_close();
        let rem = body + gt() + rest;
        &&& bang_term(BangType::Comment, rem, body.len() as int) && no_bang_term_before(BangType::Comment, rem, body.len() as int)
        &&& rem.subrange(0, body.len() as int) == body && skip(rem, body.len() as int + 1) == rest
        &&& bang_kind(second(rem)) == Some(BangType::Comment) && rem[0] == 0x21
        &&& sw(body, seq![0x21u8, 0x2d, 0x2d]) && body.subrange(3, body.len() - 2) == c
    })
{
    let body = comment_open() + c + comment_close();
    let rem = body + gt() + rest;
    let k0 = body.len() as int;
    assert(rem[0] == 0x21 && rem[1] == 0x2d);
    assert(comment_term(rem, k0));
    assert forall|j: int| 0 <= j < k0 implies !comment_term(rem, j) by {
        if 5 <= j && j < 3 + c.len() { assert(rem[j] == c[j - 3] && rem[j - 1] == c[j - 4] && rem[j - 2] == c[j - 5]); }
        else if j >= 3 + c.len() { assert(rem[j] == 0x2d); }
    }
    assert(rem.subrange(0, k0) =~= body);
    assert(skip(rem, k0 + 1) =~= rest);
    assert(body.subrange(3, body.len() - 2) =~= c);
}
/// `<!--` c `-->` : a Comment event with content c (double hyphens are an error only when check_comments is on)
proof fn lemma_markup_comment<'i>(pre: ReaderState, c: Seq<u8>, rest: Seq<u8>,
        post: ReaderState, rem2: Seq<u8>, r: core::result::Result<Event<'i>, Error>)
    requires
        markup_post(pre, comment_open() + c + comment_close() + gt() + rest, post, rem2, r, false),
        writable_comment(c),
        !pre.config.check_comments || forall|p: int| !double_hyphen_at(comment_open() + c + comment_close(), p),
    ensures
        r matches Ok(Event::Comment(e)) && e.content@ == c,
        rem2 == rest, post.state is InsideText, post.stack() == pre.stack(), post.config == pre.config,
{
    lemma_comment_term(c, rest);
    reveal(markup_post);
}

// ---- CDATA ----
pub open spec fn cdata_open() -> Seq<u8> { seq![0x21u8, 0x5b, 0x43, 0x44, 0x41, 0x54, 0x41, 0x5b] }
pub open spec fn cdata_close() -> Seq<u8> { seq![0x5du8, 0x5d] }
/// a CDATA body that does not contain "]]>" (what `BytesCData::escaped` / `CDataIterator` guarantee)
pub open spec fn writable_cdata(c: Seq<u8>) -> bool {
    forall|j: int| 2 <= j < c.len() ==> !(#[trigger] c[j] == 0x3e && c[j - 1] == 0x5d && c[j - 2] == 0x5d)
}
/// in `![CDATA[` c `]]>` rest the first CDATA terminator is the '>' of that "]]>"
proof fn lemma_cdata_term(c: Seq<u8>, rest: Seq<u8>)
    requires writable_cdata(c)
    ensures ({
        let body = cdata_open() + c + cdata_close();
        let rem = body + gt() + rest;
        &&& bang_term(BangType::CData, rem, body.len() as int) && no_bang_term_before(BangType::CData, rem, body.len() as int)
        &&& rem.subrange(0, body.len() as int) == body && skip(rem, body.len() as int + 1) == rest
        &&& bang_kind(second(rem)) == Some(BangType::CData) && rem[0] == 0x21
        &&& sw(body, seq![0x21u8, 0x5b, 0x43, 0x44, 0x41, 0x54, 0x41, 0x5b]) && body.subrange(8, body.len() - 2) == c
    })
{
    let body = cdata_open() + c + cdata_close();
    let rem = body + gt() + rest;
    let k0 = body.len() as int;
    assert(rem[0] == 0x21 && rem[1] == 0x5b);
    assert(cdata_term(rem, k0));
    assert forall|j: int| 0 <= j < k0 implies !cdata_term(rem, j) by {
        if j < 8 { assert(rem[j] == cdata_open()[j]); }
        else if j < 8 + c.len() {
            assert(rem[j] == c[j - 8]);
            if j == 8 { assert(rem[j - 2] == 0x41); }
            else if j == 9 { assert(rem[j - 2] == 0x5b); }
            else { assert(rem[j - 1] == c[j - 9] && rem[j - 2] == c[j - 10]); }
        } else { assert(rem[j] == 0x5d); }
    }
    assert(rem.subrange(0, k0) =~= body);
    assert(skip(rem, k0 + 1) =~= rest);
    assert(body.subrange(8, body.len() - 2) =~= c);
}
/// `<![CDATA[` c `]]>` : a CData event with content c
proof fn lemma_markup_cdata<'i>(pre: ReaderState, c: Seq<u8>, rest: Seq<u8>,
        post: ReaderState, rem2: Seq<u8>, r: core::result::Result<Event<'i>, Error>)
    requires
        markup_post(pre, cdata_open() + c + cdata_close() + gt() + rest, post, rem2, r, false),
        writable_cdata(c),
    ensures
        r matches Ok(Event::CData(e)) && e.content@ == c,
        rem2 == rest, post.state is InsideText, post.stack() == pre.stack(), post.config == pre.config,
{
    lemma_cdata_term(c, rest);
    reveal(markup_post);
}

// ---- processing instructions and the XML declaration ----
pub open spec fn qm() -> Seq<u8> { seq![0x3fu8] }
/// a PI / declaration content that does not contain its own terminator "?>" (and does not start with '>':
/// `<?>` would end at once)
pub open spec fn writable_pi(c: Seq<u8>) -> bool {
    &&& c.len() > 0 ==> c[0] != 0x3e
    &&& forall|j: int| 1 <= j < c.len() ==> !(#[trigger] c[j] == 0x3e && c[j - 1] == 0x3f)
}
/// spelled like an XML declaration: "xml" followed by nothing or whitespace
pub open spec fn is_decl(c: Seq<u8>) -> bool {
    sw(c, seq![0x78u8, 0x6d, 0x6c]) && (c.len() == 3 || is_ws(c[3]))
}
/// `<?` c `?>` : a Decl event (content spelled like a declaration) or a PI event, content c; the target of a
/// PI ends at the first whitespace
proof fn lemma_markup_pi<'i>(pre: ReaderState, c: Seq<u8>, rest: Seq<u8>,
        post: ReaderState, rem2: Seq<u8>, r: core::result::Result<Event<'i>, Error>)
    requires
        markup_post(pre, qm() + c + qm() + gt() + rest, post, rem2, r, false),
        writable_pi(c),
    ensures
        if is_decl(c) { r matches Ok(Event::Decl(e)) && e.content.buf@ == c && e.content.name_len == 3 }
        else { r matches Ok(Event::PI(e)) && e.content.buf@ == c && e.content.name_len == spec_name_len(c) },
        rem2 == rest, post.state is InsideText, post.stack() == pre.stack(), post.config == pre.config,
{
    reveal(markup_post);
    let body = qm() + c + qm();
    let rem = body + gt() + rest;
    assert(rem =~= qm() + c + qm() + gt() + rest);
    let i0 = body.len() as int;
    assert(rem[0] == 0x3f);
    assert(pi_term(false, rem, i0)) by { assert(rem[i0] == 0x3e && rem[i0 - 1] == 0x3f); }
    assert forall|j: int| 0 <= j < i0 implies !pi_term(false, rem, j) by {
        if j == 1 { if c.len() > 0 { assert(rem[1] == c[0]); } else { assert(rem[1] == 0x3f); } }
        else if 1 < j && j < 1 + c.len() { assert(rem[j] == c[j - 1] && rem[j - 1] == c[j - 2]); }
        else if j == 1 + c.len() && j > 1 { assert(rem[j] == 0x3f); }
    }
    lemma_pi_decide(false, rem, i0);
    assert(rem.subrange(0, i0) =~= body);
    assert(skip(rem, i0 + 1) =~= rest);
    assert(body.subrange(1, body.len() - 1) =~= c);
}

// ---- one read-event call on the output of one write_event call ----
/// an event within the documented preconditions of its constructor, in the reader state `pre`
spec fn writable<'a>(pre: ReaderState, e: Event<'a>) -> bool { writable_cs(pre.config, pre.stack(), e) }
/// ... which depends on the reader only through its configuration and the names of the open elements
spec fn writable_cs<'a>(config: Config, stack: Seq<Seq<u8>>, e: Event<'a>) -> bool {
    match e {
        Event::Start(b) => writable_start(b.buf@, b.name_len as int) && b.buf@.last() != 0x2f,
        Event::Empty(b) => writable_start(b.buf@, b.name_len as int) && !config.expand_empty_elements,
        Event::End(b) => writable_end(b.name@) && end_accepted_cs(config, stack, b.name@),
        Event::Comment(t) => writable_comment(t.content@)
            && (!config.check_comments || forall|p: int| !double_hyphen_at(comment_open() + t.content@ + comment_close(), p)),
        Event::CData(t) => writable_cdata(t.content@),
        Event::PI(p) => writable_pi(p.content.buf@) && !is_decl(p.content.buf@) && p.content.name_len == spec_name_len(p.content.buf@),
        Event::Decl(d) => writable_pi(d.content.buf@) && is_decl(d.content.buf@) && d.content.name_len == 3,
        // Text: theorem_read_back_text; DOCTYPE: the keyword's spelling and spacing are not preserved (C08)
        _ => false,
    }
}
/// same kind, same payload, same name length
spec fn same_event<'a, 'i>(a: Event<'a>, b: Event<'i>) -> bool {
    match (a, b) {
        (Event::Start(x), Event::Start(y)) => x.buf@ == y.buf@ && x.name_len == y.name_len,
        (Event::Empty(x), Event::Empty(y)) => x.buf@ == y.buf@ && x.name_len == y.name_len,
        (Event::End(x), Event::End(y)) => x.name@ == y.name@,
        (Event::Comment(x), Event::Comment(y)) => x.content@ == y.content@,
        (Event::CData(x), Event::CData(y)) => x.content@ == y.content@,
        (Event::Text(x), Event::Text(y)) => x.content@ == y.content@,
        (Event::PI(x), Event::PI(y)) => x.content.buf@ == y.content.buf@ && x.content.name_len == y.content.name_len,
        (Event::Decl(x), Event::Decl(y)) => x.content.buf@ == y.content.buf@ && x.content.name_len == y.content.name_len,
        _ => false,
    }
}
/// the names of the open elements after the event: a Start opens one, an End closes the innermost
pub open spec fn stack_after<'a>(stack: Seq<Seq<u8>>, e: Event<'a>) -> Seq<Seq<u8>> {
    match e {
        Event::Start(b) => stack.push(b.buf@.subrange(0, b.name_len as int)),
        Event::End(_) => if stack.len() > 0 { stack.drop_last() } else { stack },
        _ => stack,
    }
}
/// the bytes of render(e) after its '<'
spec fn markup_tail<'a>(e: Event<'a>) -> Seq<u8> { render(e).subrange(1, render(e).len() as int) }

/// THEOREM (markup events). If the unread input is `render(e) ++ rest` for a writable markup event `e`, every
/// outcome that T01 (event_post) allows for the next read-event call without an I/O fault is `Ok(e')` with e' the
/// same event, and the unread input afterwards is `rest` -- whatever the trimming switches are.
proof fn theorem_read_back<'a, 'i>(pre: ReaderState, rem: Seq<u8>, brem: Seq<u8>, e: Event<'a>, rest: Seq<u8>,
        post: ReaderState, rem2: Seq<u8>, r: core::result::Result<Event<'i>, Error>)
    requires
        pre.state is InsideText || pre.state is InsideMarkup,
        logical(pre, rem) == render(e) + rest,
        writable(pre, e),
        event_post(pre, rem, brem, post, rem2, r, false),
    ensures
        r matches Ok(ev) && same_event(e, ev),
        logical(post, rem2) == rest,
        !(post.state is InsideMarkup),
        // ... and the reader is ready for the next event: between markup, same configuration, the element stack updated
        post.state is InsideText, post.config == pre.config, post.stack() == stack_after(pre.stack(), e),
{
    reveal(event_post);
    assert(!io_fail(pre, rem, post, r, false)) by { reveal(io_fail); }
    let m = choose|m: ReaderState| #[trigger] arm_post(pre, rem, brem, m, rem2, r, false) && post == finish(m, r);
    reveal(arm_post);
    let all = render(e) + rest;
    assert(all[0] == 0x3c);
    let tail = markup_tail(e) + rest;
    assert(all.subrange(1, all.len() as int) =~= tail);
    // the state in which the markup step runs and what it is given
    let pm = if pre.state is InsideMarkup { pre } else {
        ReaderState { state: ParseState::InsideMarkup, offset: (pre.offset + 1) as u64, ..pre } };
    assert(pm.stack() == pre.stack() && pm.config == pre.config);
    assert(markup_post(pm, tail, m, rem2, r, false)) by {
        if pre.state is InsideMarkup {
            assert(lt() + rem == all);
            assert(rem =~= (lt() + rem).subrange(1, (lt() + rem).len() as int));
        } else {
            reveal(text_post);
            assert(!io_fail(pre, rem, m, r, false)) by { reveal(io_fail); }
            assert(rem == all);
            assert(!is_ws(rem[0]));
            assert(trimmed_start(rem) == rem);
            let r1 = rem;
            assert(!no_lt(r1));
            assert(first_lt(r1, 0));
            assert(skip(r1, 1) =~= tail);
        }
    }
    match e {
        Event::Start(b) => {
            assert(tail =~= b.buf@ + gt() + rest);
            lemma_markup_start(pm, b.buf@, b.name_len as int, rest, m, rem2, r);
        }
        Event::Empty(b) => {
            assert(tail =~= b.buf@ + seq![0x2fu8] + gt() + rest);
            lemma_markup_empty(pm, b.buf@, b.name_len as int, rest, m, rem2, r);
        }
        Event::End(b) => {
            assert(tail =~= seq![0x2fu8] + b.name@ + gt() + rest);
            lemma_markup_end(pm, b.name@, rest, m, rem2, r);
        }
        Event::Comment(t) => {
            assert(tail =~= comment_open() + t.content@ + comment_close() + gt() + rest);
            lemma_markup_comment(pm, t.content@, rest, m, rem2, r);
        }
        Event::CData(t) => {
            assert(tail =~= cdata_open() + t.content@ + cdata_close() + gt() + rest);
            lemma_markup_cdata(pm, t.content@, rest, m, rem2, r);
        }
        Event::PI(p) => {
            assert(tail =~= qm() + p.content.buf@ + qm() + gt() + rest);
            lemma_markup_pi(pm, p.content.buf@, rest, m, rem2, r);
        }
        Event::Decl(d) => {
            assert(tail =~= qm() + d.content.buf@ + qm() + gt() + rest);
            lemma_markup_pi(pm, d.content.buf@, rest, m, rem2, r);
        }
        _ => {}
    }
    assert(post == m);
}

/// character data followed by markup: one Text event, the '<' consumed ahead
proof fn lemma_text_then_markup<'i>(pre: ReaderState, c: Seq<u8>, rest: Seq<u8>,
        m: ReaderState, rem2: Seq<u8>, r: core::result::Result<Event<'i>, Error>)
    requires
        text_post(pre, c + rest, m, rem2, r, false),
        c.len() > 0, no_lt(c), rest.len() > 0 && rest[0] == 0x3c,
        !pre.config.trim_text_start && !pre.config.trim_text_end,
    ensures
        r matches Ok(Event::Text(t)) && t.content@ == c,
        m.state is InsideMarkup, lt() + rem2 == rest,
{
    reveal(text_post);
    assert(!io_fail(pre, c + rest, m, r, false)) by { reveal(io_fail); }
    let r1 = c + rest;
    let i = c.len() as int;
    assert(r1[i] == rest[0]);
    assert(!no_lt(r1));
    assert forall|j: int| 0 <= j < i implies #[trigger] r1[j] != 0x3c by { assert(r1[j] == c[j]); }
    assert(first_lt(r1, i));
    assert(r1.subrange(0, i) =~= c);
    assert(lt() + skip(r1, i + 1) =~= rest);
    assert(first_lt(text_start(pre.config.trim_text_start, c + rest), i));
}
/// THEOREM (character data). With the trimming switches off, a non-empty text without '<' that is followed by
/// markup or by the end of input is read back as one Text event with exactly these bytes.
proof fn theorem_read_back_text<'i>(pre: ReaderState, rem: Seq<u8>, brem: Seq<u8>, c: Seq<u8>, rest: Seq<u8>,
        post: ReaderState, rem2: Seq<u8>, r: core::result::Result<Event<'i>, Error>)
    requires
        pre.state is InsideText,
        rem == c + rest, c.len() > 0, no_lt(c),
        rest.len() == 0 || rest[0] == 0x3c,
        !pre.config.trim_text_start && !pre.config.trim_text_end,
        event_post(pre, rem, brem, post, rem2, r, false),
    ensures
        r matches Ok(Event::Text(t)) && t.content@ == c,
        logical(post, rem2) == rest,
        post.config == pre.config, post.stack() == pre.stack(),
        rest.len() > 0 ==> post.state is InsideMarkup,
{
    reveal(event_post);
    assert(!io_fail(pre, rem, post, r, false)) by { reveal(io_fail); }
    let m = choose|m: ReaderState| #[trigger] arm_post(pre, rem, brem, m, rem2, r, false) && post == finish(m, r);
    assert(arm_post(pre, rem, brem, m, rem2, r, false) && post == finish(m, r));
    assert(text_post(pre, rem, m, rem2, r, false)) by { reveal(arm_post); }
    reveal(text_post);
    assert(!io_fail(pre, rem, m, r, false)) by { reveal(io_fail); }
    let r1 = rem;
    if rest.len() == 0 {
        assert(rem =~= c);
        assert(no_lt(r1));
        assert(text_content(pre.config.trim_text_end, r1) == r1);
        assert(rem2.len() == 0);
        assert(r matches Ok(Event::Text(t)) && t.content@ == r1);
        assert(rem2 =~= rest);
        assert(r matches Ok(Event::Text(t)) && t.content@ == c);
        assert(post == m);
        assert(logical(post, rem2) == rest);
    } else {
        let i = c.len() as int;
        assert(r1[i] == rest[0]);
        assert(!no_lt(r1));
        assert(first_lt(r1, i)) by {
            assert forall|j: int| 0 <= j < i implies #[trigger] r1[j] != 0x3c by { assert(r1[j] == c[j]); }
        }
        assert(r1.subrange(0, i) =~= c);
        assert(lt() + skip(r1, i + 1) =~= rest);
        assert(m == (ReaderState { state: ParseState::InsideMarkup, offset: (pre.offset + i + 1) as u64, ..pre }));
        assert(r matches Ok(Event::Text(t)) && t.content@ == c);
        assert(post == m);
        assert(logical(post, rem2) == rest);
    }
}

// ---------------------------------------------------------------------------------------------
// From one event to a document (C09): the induction over a sequence of events.
// ---------------------------------------------------------------------------------------------
/// what the writer produces for a sequence of events: the concatenation of their renderings
spec fn doc<'a>(es: Seq<Event<'a>>) -> Seq<u8>
    decreases es.len()
{
    if es.len() == 0 { Seq::empty() } else { render(es[0]) + doc(es.drop_first()) }
}
/// every event of the sequence can be read back where it stands: a markup event is `writable` in the configuration
/// `config` with the elements `stack` open (the stack follows the events: stack_after); a Text event is non-empty,
/// holds no '<', is followed by markup or by the end of the input (two adjacent texts would be read as one), and the
/// trimming switches are off. `rest` is what follows the document.
spec fn readable_doc<'a>(config: Config, stack: Seq<Seq<u8>>, es: Seq<Event<'a>>, rest: Seq<u8>) -> bool
    decreases es.len()
{
    if es.len() == 0 { true } else {
        let tail = doc(es.drop_first()) + rest;
        &&& match es[0] {
                Event::Text(t) => t.content@.len() > 0 && no_lt(t.content@) && (tail.len() == 0 || tail[0] == 0x3c)
                    && !config.trim_text_start && !config.trim_text_end,
                e => writable_cs(config, stack, e),
            }
        &&& readable_doc(config, stack_after(stack, es[0]), es.drop_first(), rest)
    }
}
/// the rendering of a writable markup event starts with '<'
proof fn lemma_render_starts_lt<'a>(config: Config, stack: Seq<Seq<u8>>, e: Event<'a>)
    requires writable_cs(config, stack, e)
    ensures render(e).len() > 0, render(e)[0] == 0x3c
{
}
/// THEOREM (document read-back, C09). Let the unread input be `doc(es) ++ rest` for a readable sequence `es`, and
/// let n = |es| consecutive read-event calls run, call k taking the reader from (sts[k], rems[k]) to
/// (sts[k+1], rems[k+1]) with result res[k] -- each allowed by T01 (event_post) without an I/O fault. Then EVERY result
/// is Ok(e') with e' the same event as es[k] (kind, payload, name length), and the unread input afterwards is `rest`.
/// Induction on n over the one-call theorems above; nothing is assumed about the intermediate states.
proof fn theorem_read_back_doc<'a, 'i>(es: Seq<Event<'a>>, rest: Seq<u8>,
        sts: Seq<ReaderState>, rems: Seq<Seq<u8>>, brem: Seq<u8>, res: Seq<core::result::Result<Event<'i>, Error>>)
    requires
        sts.len() == es.len() + 1, rems.len() == es.len() + 1, res.len() == es.len(),
        forall|k: int| 0 <= k < es.len() ==> event_post(sts[k], rems[k], brem, sts[k + 1], rems[k + 1], #[trigger] res[k], false),
        sts[0].state is InsideText || (sts[0].state is InsideMarkup && !(es.len() > 0 && es[0] is Text)),
        logical(sts[0], rems[0]) == doc(es) + rest,
        readable_doc(sts[0].config, sts[0].stack(), es, rest),
    ensures
        forall|k: int| 0 <= k < es.len() ==> (#[trigger] res[k] matches Ok(ev) && same_event(es[k], ev)),
        logical(sts[es.len() as int], rems[es.len() as int]) == rest,
    decreases es.len()
{
    if es.len() == 0 {
        assert(doc(es) + rest =~= rest);
    } else {
        let e = es[0];
        let tl = es.drop_first();
        let tail = doc(tl) + rest;
        assert(doc(es) + rest =~= render(e) + tail);
        assert(event_post(sts[0], rems[0], brem, sts[1], rems[1], res[0], false));
        match e {
            Event::Text(t) => {
                assert(render(e) == t.content@);
                assert(rems[0] == logical(sts[0], rems[0]));
                theorem_read_back_text(sts[0], rems[0], brem, t.content@, tail, sts[1], rems[1], res[0]);
                assert(stack_after(sts[0].stack(), e) == sts[0].stack());
                if tl.len() > 0 {
                    // a text is followed by markup: the next event is not a text (its first byte would not be '<')
                    assert(doc(tl) =~= render(tl[0]) + doc(tl.drop_first()));
                    if tl[0] is Text {
                        assert(readable_doc(sts[0].config, sts[0].stack(), tl, rest));
                        assert(render(tl[0]).len() > 0 && render(tl[0])[0] != 0x3c);
                        assert(tail[0] == render(tl[0])[0]);
                    }
                    assert(tail.len() > 0) by {
                        if !(tl[0] is Text) { lemma_render_starts_lt(sts[0].config, sts[0].stack(), tl[0]); }
                    }
                } else {
                    assert(doc(tl) + rest =~= rest);
                }
            }
            _ => {
                theorem_read_back(sts[0], rems[0], brem, e, tail, sts[1], rems[1], res[0]);
            }
        }
        // the rest of the run reads the rest of the document
        let sts1 = sts.drop_first();
        let rems1 = rems.drop_first();
        let res1 = res.drop_first();
        assert forall|k: int| 0 <= k < tl.len() implies event_post(sts1[k], rems1[k], brem, sts1[k + 1], rems1[k + 1], #[trigger] res1[k], false) by {
            assert(res1[k] == res[k + 1]);
            assert(event_post(sts[k + 1], rems[k + 1], brem, sts[k + 2], rems[k + 2], res[k + 1], false));
        }
        assert(sts1[0] == sts[1] && rems1[0] == rems[1]);
        if tl.len() == 0 {
            assert(doc(tl) + rest =~= rest);
        } else {
            theorem_read_back_doc(tl, rest, sts1, rems1, brem, res1);
        }
        assert(sts1[tl.len() as int] == sts[es.len() as int] && rems1[tl.len() as int] == rems[es.len() as int]);
        assert forall|k: int| 0 <= k < es.len() implies (#[trigger] res[k] matches Ok(ev) && same_event(es[k], ev)) by {
            if k > 0 { assert(res[k] == res1[k - 1] && es[k] == tl[k - 1]); }
        }
    }
}

/// the premise of the document theorem is not empty: `<a>x</a>` (Start, Text, End) is a readable document in every
/// configuration with the trimming switches off, and `doc` of it is those seven bytes
proof fn lemma_doc_witness<'a>(config: Config, st: BytesStart<'a>, t: BytesText<'a>, en: BytesEnd<'a>)
    requires
        st.buf@ == seq![0x61u8], st.name_len == 1, t.content@ == seq![0x78u8], en.name@ == seq![0x61u8],
        !config.trim_text_start, !config.trim_text_end,
    ensures
        readable_doc(config, Seq::empty(), seq![Event::Start(st), Event::Text(t), Event::End(en)], Seq::empty()),
        doc(seq![Event::Start(st), Event::Text(t), Event::End(en)]) == seq![0x3cu8, 0x61, 0x3e, 0x78, 0x3c, 0x2f, 0x61, 0x3e],
{
    let es = seq![Event::Start(st), Event::Text(t), Event::End(en)];
    let es1 = es.drop_first();
    let es2 = es1.drop_first();
    let es3 = es2.drop_first();
    assert(es1 =~= seq![Event::Text(t), Event::End(en)]);
    assert(es2 =~= seq![Event::End(en)]);
    assert(es3.len() == 0);
    assert(doc(es3) =~= Seq::<u8>::empty());
    assert(doc(es2) =~= seq![0x3cu8, 0x2f, 0x61, 0x3e]) by { assert(render(es2[0]) =~= seq![0x3cu8, 0x2f, 0x61, 0x3e]); }
    assert(doc(es1) =~= seq![0x78u8, 0x3c, 0x2f, 0x61, 0x3e]) by { assert(render(es1[0]) =~= seq![0x78u8]); }
    assert(doc(es) =~= seq![0x3cu8, 0x61, 0x3e, 0x78, 0x3c, 0x2f, 0x61, 0x3e]) by { assert(render(es[0]) =~= seq![0x3cu8, 0x61, 0x3e]); }
    let a = seq![0x61u8];
    // the start tag `a`
    assert(built(a, 1));
    lemma_tag_one(ElementParser::Outside, 0x61);
    assert(tag_closed(a));
    assert(writable_start(a, 1) && a.last() != 0x2f);
    // the end tag closes it
    let s1 = stack_after(Seq::<Seq<u8>>::empty(), es[0]);
    assert(a.subrange(0, 1) =~= a);
    assert(s1 =~= seq![a]);
    assert(writable_end(a)) by { assert(plain(a)); }
    assert(end_accepted_cs(config, s1, a));
    assert(stack_after(s1, es1[0]) == s1);
    assert(readable_doc(config, stack_after(s1, es2[0]), es3, Seq::empty()));
    assert(readable_doc(config, s1, es2, Seq::empty()));
    assert((doc(es2) + Seq::<u8>::empty())[0] == 0x3c);
    assert(no_lt(seq![0x78u8]));
    assert(readable_doc(config, s1, es1, Seq::empty()));
    assert(readable_doc(config, Seq::empty(), es, Seq::empty()));
}

// ---------------------------------------------------------------------------------------------
// The other direction (C08, second sentence): what was read, written again, is the input.
// For every outcome event_post allows with an event `e` (trimming and empty-element expansion off), the bytes
// consumed by the call are exactly render(e) -- so the writer, which appends render(e), reproduces them.
// Excluded by the statement itself: a stripped byte-order mark (`brem` below is the input after it) and
// DOCTYPE, whose keyword is re-spelled by the writer.
// ---------------------------------------------------------------------------------------------
/// among the first n positions there is a first terminator, or none at all
proof fn lemma_first_bang_term(ty: BangType, t: Seq<u8>, n: int)
    requires 0 <= n <= t.len()
    ensures (exists|k: int| 0 <= k < n && bang_term(ty, t, k) && no_bang_term_before(ty, t, k)) || no_bang_term_before(ty, t, n)
    decreases n
{
    if n > 0 {
        lemma_first_bang_term(ty, t, n - 1);
        if no_bang_term_before(ty, t, n - 1) {
            if bang_term(ty, t, n - 1) {
                assert(0 <= n - 1 < n && bang_term(ty, t, n - 1) && no_bang_term_before(ty, t, n - 1));
            } else {
                assert forall|j: int| 0 <= j < n implies !bang_term(ty, t, j) by {}
            }
        } else {
            let k = choose|k: int| 0 <= k < n - 1 && bang_term(ty, t, k) && no_bang_term_before(ty, t, k);
            assert(0 <= k < n && bang_term(ty, t, k) && no_bang_term_before(ty, t, k));
        }
    }
}
/// the settings under which C08 is stated
spec fn verbatim(c: Config) -> bool {
    !c.trim_text_start && !c.trim_text_end && !c.expand_empty_elements && !c.trim_markup_names_in_closing_tags
}
/// ... for `<!` constructs (comment, CDATA; a DOCTYPE is excluded)
proof fn lemma_consumes_bang<'i>(pm: ReaderState, x: Seq<u8>, m: ReaderState, rem2: Seq<u8>, e: Event<'i>)
    requires
        markup_post(pm, x, m, rem2, Ok(e), false),
        verbatim(pm.config), !(e is DocType),
        x.len() > 0, x[0] == 0x21,
    ensures
        lt() + x == render(e) + rem2,
        !(m.state is InsideMarkup), !(e is Eof),
        m.config == pm.config, !(m.state is Init), !(m.state is InsideEmpty),
{
    reveal(markup_post);
    let r: core::result::Result<Event<'i>, Error> = Ok(e);
        match bang_kind(second(x)) {
            None => {}
            Some(kind) => {
                lemma_first_bang_term(kind, x, x.len() as int);
                if no_bang_term_before(kind, x, x.len() as int) {
                } else {
                    let k = choose|k: int| 0 <= k < x.len() && bang_term(kind, x, k) && no_bang_term_before(kind, x, k);
                    let buf = x.subrange(0, k);
                    assert(rem2 == skip(x, k + 1));
                    assert(post_emit_bang(&mid(pm, k + 1), &m, kind, buf, r));
                    assert(x =~= buf + gt() + rem2);
                    if kind is Comment && sw(buf, seq![0x21u8, 0x2d, 0x2d]) {
                        let c = buf.subrange(3, buf.len() - 2);
                        assert(buf =~= comment_open() + c + comment_close());
                        assert(lt() + x =~= seq![0x3cu8, 0x21u8, 0x2du8, 0x2du8] + c + seq![0x2du8, 0x2du8, 0x3eu8] + rem2);
                    } else if kind is CData && sw(buf, seq![0x21u8, 0x5b, 0x43, 0x44, 0x41, 0x54, 0x41, 0x5b]) {
                        // the terminator "]]" lies behind the keyword: the keyword holds no ']'
                        assert(k - 2 >= 8) by { if k - 2 < 8 { assert(x[k - 2] == buf[k - 2]); } if k - 1 < 8 { assert(x[k - 1] == buf[k - 1]); } }
                        let c = buf.subrange(8, buf.len() - 2);
                        assert(buf =~= cdata_open() + c + cdata_close());
                        assert(lt() + x =~= seq![0x3cu8, 0x21, 0x5b, 0x43, 0x44, 0x41, 0x54, 0x41, 0x5b] + c + seq![0x5du8, 0x5d, 0x3e] + rem2);
                    }
                }
            }
        }
}
/// ... for an end tag
proof fn lemma_consumes_end<'i>(pm: ReaderState, x: Seq<u8>, m: ReaderState, rem2: Seq<u8>, e: Event<'i>)
    requires
        markup_post(pm, x, m, rem2, Ok(e), false),
        verbatim(pm.config), !(e is DocType),
        x.len() > 0, x[0] == 0x2f,
    ensures
        lt() + x == render(e) + rem2,
        !(m.state is InsideMarkup), !(e is Eof),
        m.config == pm.config, !(m.state is Init), !(m.state is InsideEmpty),
{
    reveal(markup_post);
    let r: core::result::Result<Event<'i>, Error> = Ok(e);
        match tag_end(ElementParser::Outside, x) {
            Some(i) => {
                lemma_tag_bounds(ElementParser::Outside, x);
                let buf = x.subrange(0, i);
                assert(x =~= buf + gt() + rem2);
                let name = buf.subrange(1, buf.len() as int);
                assert(buf =~= seq![0x2fu8] + name);
                assert(lt() + x =~= seq![0x3cu8, 0x2fu8] + name + seq![0x3eu8] + rem2);
            }
            None => {}
        }
}
/// ... for a processing instruction / XML declaration
proof fn lemma_consumes_pi<'i>(pm: ReaderState, x: Seq<u8>, m: ReaderState, rem2: Seq<u8>, e: Event<'i>)
    requires
        markup_post(pm, x, m, rem2, Ok(e), false),
        verbatim(pm.config), !(e is DocType),
        x.len() > 0, x[0] == 0x3f,
    ensures
        lt() + x == render(e) + rem2,
        !(m.state is InsideMarkup), !(e is Eof),
        m.config == pm.config, !(m.state is Init), !(m.state is InsideEmpty),
{
    reveal(markup_post);
    let r: core::result::Result<Event<'i>, Error> = Ok(e);
        lemma_pi_first(false, x);
        match pi_end(false, x) {
            Some(i) => {
                let buf = x.subrange(0, i);
                assert(x =~= buf + gt() + rem2);
                if buf.len() > 1 && buf[buf.len() - 1] == 0x3f {
                    let c = buf.subrange(1, buf.len() - 1);
                    assert(buf =~= qm() + c + qm());
                    assert(lt() + x =~= seq![0x3cu8, 0x3f] + c + seq![0x3fu8, 0x3e] + rem2);
                }
            }
            None => {}
        }
}
/// ... for a start / empty-element tag
proof fn lemma_consumes_tag<'i>(pm: ReaderState, x: Seq<u8>, m: ReaderState, rem2: Seq<u8>, e: Event<'i>)
    requires
        markup_post(pm, x, m, rem2, Ok(e), false),
        verbatim(pm.config), !(e is DocType),
        x.len() > 0, x[0] != 0x21 && x[0] != 0x2f && x[0] != 0x3f,
    ensures
        lt() + x == render(e) + rem2,
        !(m.state is InsideMarkup), !(e is Eof),
        m.config == pm.config, !(m.state is Init), !(m.state is InsideEmpty),
{
    reveal(markup_post);
    let r: core::result::Result<Event<'i>, Error> = Ok(e);
        match tag_end(ElementParser::Outside, x) {
            Some(i) => {
                lemma_tag_bounds(ElementParser::Outside, x);
                let content = x.subrange(0, i);
                assert(x =~= content + gt() + rem2);
                let n = content.len() as int;
                if n > 0 && content[n - 1] == 0x2f {
                    let c = content.subrange(0, n - 1);
                    assert(content =~= c + seq![0x2fu8]);
                    assert(lt() + x =~= seq![0x3cu8] + c + seq![0x2fu8, 0x3eu8] + rem2);
                } else {
                    assert(lt() + x =~= seq![0x3cu8] + content + seq![0x3eu8] + rem2);
                }
            }
            None => {}
        }
}
/// the markup step: '<' and the bytes it consumed are render(e) (one lemma per construct: small solver queries)
proof fn lemma_markup_consumes_render<'i>(pm: ReaderState, x: Seq<u8>, m: ReaderState, rem2: Seq<u8>, e: Event<'i>)
    requires
        markup_post(pm, x, m, rem2, Ok(e), false),
        verbatim(pm.config), !(e is DocType),
    ensures
        lt() + x == render(e) + rem2,
        !(m.state is InsideMarkup), !(e is Eof),
        m.config == pm.config, !(m.state is Init), !(m.state is InsideEmpty),
{
    if x.len() == 0 {
        reveal(markup_post);
    } else if x[0] == 0x21 {
        lemma_consumes_bang(pm, x, m, rem2, e);
    } else if x[0] == 0x2f {
        lemma_consumes_end(pm, x, m, rem2, e);
    } else if x[0] == 0x3f {
        lemma_consumes_pi(pm, x, m, rem2, e);
    } else {
        lemma_consumes_tag(pm, x, m, rem2, e);
    }
}

/// THEOREM (C08). With trimming and expansion off, one read-event call that returns an event `e` (not a DOCTYPE)
/// consumes exactly render(e): unread-before == render(e) ++ unread-after. In the very first call "unread-before"
/// is the input after the byte-order-mark sniff (`brem`).
proof fn theorem_read_then_write<'i>(pre: ReaderState, rem: Seq<u8>, brem: Seq<u8>, post: ReaderState, rem2: Seq<u8>, e: Event<'i>)
    requires
        event_post(pre, rem, brem, post, rem2, Ok(e), false),
        verbatim(pre.config), !(e is DocType), !(pre.state is InsideEmpty),
    ensures
        (if pre.state is Init { brem } else { logical(pre, rem) }) == render(e) + logical(post, rem2),
        // ... and the next call starts under the same conditions
        post.config == pre.config, !(post.state is Init), !(post.state is InsideEmpty),
{
    let r: core::result::Result<Event<'i>, Error> = Ok(e);
    reveal(event_post);
    assert(!io_fail(pre, rem, post, r, false)) by { reveal(io_fail); }
    let m = choose|m: ReaderState| #[trigger] arm_post(pre, rem, brem, m, rem2, r, false) && post == finish(m, r);
    reveal(arm_post);
    // Eof and errors end the document; an event leaves the state machine where the arm left it
    assert(post.state == (if e is Eof { ParseState::Done } else { m.state }) && post.config == m.config);
    match pre.state {
        ParseState::Done => { assert(render(e) + rem2 =~= rem2); }
        ParseState::InsideMarkup => { lemma_markup_consumes_render(pre, rem, m, rem2, e); }
        ParseState::InsideEmpty => {}
        _ => {
            let p1 = ReaderState { state: ParseState::InsideText, ..pre };
            let input = if pre.state is Init { brem } else { rem };
            assert(text_post(p1, input, m, rem2, r, false));
            lemma_text_consumes_render(p1, input, m, rem2, e);
        }
    }
}
/// THEOREM (C08, whole run). Let n consecutive read-event calls return the events es[0..n) -- call k taking the reader
/// from (sts[k], rems[k]) to (sts[k+1], rems[k+1]), each allowed by T01 without an I/O fault --, with trimming and
/// expansion off at the start and no DOCTYPE among the events. Then the input that was unread at the start (after the
/// byte-order-mark sniff if the run begins a document) is doc(es) -- what the writer writes for these events, in
/// order -- followed by what is unread at the end. Induction on n over theorem_read_then_write; the conditions on
/// the intermediate states (same configuration, never back in Init, no pending synthetic End) are derived, not assumed.
proof fn theorem_read_then_write_doc<'i>(sts: Seq<ReaderState>, rems: Seq<Seq<u8>>, brem: Seq<u8>, es: Seq<Event<'i>>)
    requires
        sts.len() == es.len() + 1, rems.len() == es.len() + 1,
        forall|k: int| 0 <= k < es.len() ==> event_post(sts[k], rems[k], brem, sts[k + 1], rems[k + 1], Ok(#[trigger] es[k]), false),
        forall|k: int| 0 <= k < es.len() ==> !(#[trigger] es[k] is DocType),
        verbatim(sts[0].config), !(sts[0].state is InsideEmpty),
        // (`brem`, the input after the byte-order-mark sniff, speaks about the first call of a document)
        es.len() > 0 || !(sts[0].state is Init),
    ensures
        (if sts[0].state is Init { brem } else { logical(sts[0], rems[0]) }) == doc(es) + logical(sts[es.len() as int], rems[es.len() as int]),
    decreases es.len()
{
    if es.len() == 0 {
        assert(doc(es) =~= Seq::<u8>::empty());
        assert(Seq::<u8>::empty() + logical(sts[0], rems[0]) =~= logical(sts[0], rems[0]));
    } else {
        let tl = es.drop_first();
        let sts1 = sts.drop_first();
        let rems1 = rems.drop_first();
        assert(event_post(sts[0], rems[0], brem, sts[1], rems[1], Ok(es[0]), false));
        theorem_read_then_write(sts[0], rems[0], brem, sts[1], rems[1], es[0]);
        assert forall|k: int| 0 <= k < tl.len() implies event_post(sts1[k], rems1[k], brem, sts1[k + 1], rems1[k + 1], Ok(#[trigger] tl[k]), false) by {
            assert(tl[k] == es[k + 1]);
            assert(event_post(sts[k + 1], rems[k + 1], brem, sts[k + 2], rems[k + 2], Ok(es[k + 1]), false));
        }
        assert forall|k: int| 0 <= k < tl.len() implies !(#[trigger] tl[k] is DocType) by { assert(tl[k] == es[k + 1]); }
        assert(sts1[0] == sts[1] && rems1[0] == rems[1]);
        theorem_read_then_write_doc(sts1, rems1, brem, tl);
        assert(sts1[tl.len() as int] == sts[es.len() as int] && rems1[tl.len() as int] == rems[es.len() as int]);
        let end = logical(sts[es.len() as int], rems[es.len() as int]);
        assert(doc(es) + end =~= render(es[0]) + (doc(tl) + end));
    }
}

/// a string that holds a '<' has a first one
proof fn lemma_first_lt_exists(s: Seq<u8>, n: int)
    requires 0 <= n <= s.len()
    ensures (exists|i: int| 0 <= i < n && first_lt(s, i)) || forall|j: int| 0 <= j < n ==> #[trigger] s[j] != 0x3c
    decreases n
{
    if n > 0 {
        lemma_first_lt_exists(s, n - 1);
        if forall|j: int| 0 <= j < n - 1 ==> #[trigger] s[j] != 0x3c {
            if s[n - 1] == 0x3c { assert(first_lt(s, n - 1)); }
        } else {
            let i = choose|i: int| 0 <= i < n - 1 && first_lt(s, i);
            assert(0 <= i < n && first_lt(s, i));
        }
    }
}
/// the character-data step
proof fn lemma_text_consumes_render<'i>(p1: ReaderState, input: Seq<u8>, m: ReaderState, rem2: Seq<u8>, e: Event<'i>)
    requires
        text_post(p1, input, m, rem2, Ok(e), false), p1.state is InsideText,
        verbatim(p1.config), !(e is DocType),
    ensures
        input == render(e) + (if e is Eof { rem2 } else { logical(m, rem2) }),
        e is Eof ==> m.state is Done,
        m.config == p1.config, !(m.state is Init), !(m.state is InsideEmpty),
{
    let r: core::result::Result<Event<'i>, Error> = Ok(e);
    reveal(text_post);
    assert(!io_fail(p1, input, m, r, false)) by { reveal(io_fail); }
    let r1 = text_start(p1.config.trim_text_start, input);
    assert(r1 == input);
    if no_lt(r1) {
        assert(rem2 =~= Seq::<u8>::empty());
        if e is Eof { assert(input =~= render(e) + rem2); } else { assert(input =~= render(e) + logical(m, rem2)); }
    } else {
        lemma_first_lt_exists(r1, r1.len() as int);
        let i = choose|i: int| first_lt(r1, i);
        if i == 0 {
            let pm = ReaderState { state: ParseState::InsideMarkup, offset: (p1.offset + (input.len() - r1.len()) + 1) as u64, ..p1 };
            lemma_markup_consumes_render(pm, skip(r1, 1), m, rem2, e);
            assert(lt() + skip(r1, 1) =~= input);
        } else {
            assert(input =~= r1.subrange(0, i) + (lt() + skip(r1, i + 1)));
        }
    }
}
}
