// ---------------------------------------------------------------------------------------------
// Spec vocabulary of the writer (C08, C09, C19): what the plain writer must emit for an event, and
// the only bytes indentation may add.
// ---------------------------------------------------------------------------------------------
/// a line break followed by `n` indent characters
pub open spec fn nl_indent(c: u8, n: nat) -> Seq<u8> { seq![0x0au8] + Seq::new(n, |k: int| c) }

impl writer_::Indentation {
    /// representation invariant: the current level fits the buffer, which holds indent characters only
    pub open spec fn inv(&self) -> bool {
        &&& self.current_indent_len <= self.indents@.len()
        &&& forall|i: int| 0 <= i < self.indents@.len() ==> self.indents@[i] == self.indent_char
    }
}
impl<W> writer_::Writer<W> {
    pub open spec fn inv(&self) -> bool { self.indent matches Some(i) ==> i.inv() && i.current_indent_len + i.indent_size <= usize::MAX }
    /// the only bytes indentation may add: "\n" + indent characters, and only before markup when the flag is set
    spec fn pre<'a>(&self, e: Event<'a>) -> Seq<u8> {
        match self.indent {
            Some(i) => if i.should_line_break && is_markup(e) {
                // an End tag is indented at the level of its Start tag, i.e. after shrinking
                let lvl = if e is End { if i.current_indent_len >= i.indent_size { (i.current_indent_len - i.indent_size) as nat } else { 0nat } } else { i.current_indent_len as nat };
                nl_indent(i.indent_char, lvl)
            } else { Seq::empty() },
            None => Seq::empty(),
        }
    }
}

/// what ONE successful `write_event` does: the contract of Writer::write_event as a relation between the writer before and
/// after (used to say what the element builder writes: a sequence of such steps)
pub open(crate) spec fn wrote<'a, W: Write>(w0: writer_::Writer<W>, e: Event<'a>, w1: writer_::Writer<W>) -> bool {
    &&& w1.writer.out() == w0.writer.out() + w0.pre(e) + render(e)
    &&& w0.indent is None ==> w1.indent is None
    &&& w0.indent matches Some(i0) ==> (w1.indent matches Some(i1)
        && i1.inv() && i1.indent_char == i0.indent_char && i1.indent_size == i0.indent_size
        && i1.should_line_break == !(e is Text || e is CData)
        && i1.current_indent_len as int == (if e is Start { i0.current_indent_len + i0.indent_size }
              else if e is End { if i0.current_indent_len >= i0.indent_size { i0.current_indent_len - i0.indent_size } else { 0int } }
              else { i0.current_indent_len as int }))
}

/// `k` is the index of the '>' of a "]]>" in `s`
pub open spec fn cdata_close_at(s: Seq<u8>, k: int) -> bool {
    2 <= k < s.len() && s[k] == 0x3e && s[k - 1] == 0x5d && s[k - 2] == 0x5d
}
