// ---------------------------------------------------------------------------------------------
// Spec vocabulary of the writer (C08, C09, C19): what the plain writer must emit for an event, and
// the only bytes indentation may add.
// ---------------------------------------------------------------------------------------------
spec fn payload<'a>(e: Event<'a>) -> Seq<u8> {
    match e {
        Event::Start(x) => x.buf@, Event::End(x) => x.name@, Event::Empty(x) => x.buf@, Event::Text(x) => x.content@,
        Event::CData(x) => x.content@, Event::Comment(x) => x.content@, Event::Decl(x) => x.content.buf@, Event::PI(x) => x.content.buf@,
        Event::DocType(x) => x.content@, Event::Eof => Seq::empty(),
    }
}
/// the markup of an event: XML delimiters around the payload exactly as the event exposes it
spec fn render<'a>(e: Event<'a>) -> Seq<u8> {
    match e {
        Event::Start(_) => seq![0x3cu8] + payload(e) + seq![0x3eu8],
        Event::End(_) => seq![0x3cu8, 0x2fu8] + payload(e) + seq![0x3eu8],
        Event::Empty(_) => seq![0x3cu8] + payload(e) + seq![0x2fu8, 0x3eu8],
        Event::Text(_) => payload(e),
        Event::Comment(_) => seq![0x3cu8, 0x21u8, 0x2du8, 0x2du8] + payload(e) + seq![0x2du8, 0x2du8, 0x3eu8],
        Event::CData(_) => seq![0x3cu8, 0x21, 0x5b, 0x43, 0x44, 0x41, 0x54, 0x41, 0x5b] + payload(e) + seq![0x5du8, 0x5d, 0x3e],
        Event::Decl(_) => seq![0x3cu8, 0x3f] + payload(e) + seq![0x3fu8, 0x3e],
        Event::PI(_) => seq![0x3cu8, 0x3f] + payload(e) + seq![0x3fu8, 0x3e],
        Event::DocType(_) => seq![0x3cu8, 0x21, 0x44, 0x4f, 0x43, 0x54, 0x59, 0x50, 0x45, 0x20] + payload(e) + seq![0x3eu8],
        Event::Eof => Seq::empty(),
    }
}
spec fn is_markup<'a>(e: Event<'a>) -> bool { !(e is Text || e is CData || e is Eof) }
/// a line break followed by `n` indent characters
pub open spec fn nl_indent(c: u8, n: nat) -> Seq<u8> { seq![0x0au8] + Seq::new(n, |k: int| c) }

impl writer_::Indentation {
    /// representation invariant: the current level fits the buffer, which holds indent characters only
    pub open spec fn inv(&self) -> bool {
        &&& self.current_indent_len <= self.indents@.len()
        &&& forall|i: int| 0 <= i < self.indents@.len() ==> self.indents@[i] == self.indent_char
    }
}
impl<W> writer_::Writer<W> {
    pub open spec fn inv(&self) -> bool { self.indent matches Some(i) ==> i.inv() && i.current_indent_len + i.indent_size <= usize::MAX }
    /// the only bytes indentation may add: "\n" + indent characters, and only before markup when the flag is set
    spec fn pre<'a>(&self, e: Event<'a>) -> Seq<u8> {
        match self.indent {
            Some(i) => if i.should_line_break && is_markup(e) {
                // an End tag is indented at the level of its Start tag, i.e. after shrinking
                let lvl = if e is End { if i.current_indent_len >= i.indent_size { (i.current_indent_len - i.indent_size) as nat } else { 0nat } } else { i.current_indent_len as nat };
                nl_indent(i.indent_char, lvl)
            } else { Seq::empty() },
            None => Seq::empty(),
        }
    }
}

/// `k` is the index of the '>' of a "]]>" in `s`
pub open spec fn cdata_close_at(s: Seq<u8>, k: int) -> bool {
    2 <= k < s.len() && s[k] == 0x3e && s[k - 1] == 0x5d && s[k - 2] == 0x5d
}
