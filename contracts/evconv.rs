// ---------------------------------------------------------------------------------------------
// U-elemw, second part (C08, C09, C14): conversions of events -- owned <-> borrowed, wrapper -> bytes. An event that was
// read and is written again (or queued by the deserializer) passes through these; each keeps the KIND and every payload
// byte (same_ev). `Deref for Event` hands out exactly the stored bytes of whichever variant it is.
// ---------------------------------------------------------------------------------------------
pub mod evconv_ {
use super::*;
use vstd::prelude::*;
use crate::elemw_::*;
use crate::deio_::*;
use crate::state_::*;

/// std: cloning a `Cow<[u8]>` gives a Cow with the same bytes (borrowed: the same slice; owned: a copy of the vector)
pub uninterp spec fn spec_cow_clone<'a, B: ?Sized + ToOwned>(c: &Cow<'a, B>) -> Cow<'a, B>;
pub assume_specification<'a, B: ?Sized + ToOwned>[ <Cow<'a, B> as Clone>::clone ](c: &Cow<'a, B>) -> (r: Cow<'a, B>)
    ensures r == spec_cow_clone(c);
pub axiom fn axiom_cow_clone_bytes<'a>(c: &Cow<'a, [u8]>)
    ensures spec_cow_clone(c)@ == c@;

/// same kind, same payload bytes, same name length, same decoder
pub open spec fn same_ev<'a, 'b>(a: Event<'a>, b: Event<'b>) -> bool {
    match (a, b) {
        (Event::Start(x), Event::Start(y)) => x.buf@ == y.buf@ && x.name_len == y.name_len,
        (Event::Empty(x), Event::Empty(y)) => x.buf@ == y.buf@ && x.name_len == y.name_len,
        (Event::End(x), Event::End(y)) => x.name@ == y.name@,
        (Event::Text(x), Event::Text(y)) => x.content@ == y.content@ && x.decoder == y.decoder,
        (Event::Comment(x), Event::Comment(y)) => x.content@ == y.content@ && x.decoder == y.decoder,
        (Event::DocType(x), Event::DocType(y)) => x.content@ == y.content@ && x.decoder == y.decoder,
        (Event::CData(x), Event::CData(y)) => x.content@ == y.content@ && x.decoder == y.decoder,
        (Event::PI(x), Event::PI(y)) => x.content.buf@ == y.content.buf@ && x.content.name_len == y.content.name_len,
        (Event::Decl(x), Event::Decl(y)) => x.content.buf@ == y.content.buf@ && x.content.name_len == y.content.name_len,
        (Event::Eof, Event::Eof) => true,
        _ => false,
    }
}
/// the bytes an event stores
pub open spec fn ev_bytes(e: Event) -> Seq<u8> {
    match e {
        Event::Start(x) | Event::Empty(x) => x.buf@,
        Event::End(x) => x.name@,
        Event::Text(x) | Event::Comment(x) | Event::DocType(x) => x.content@,
        Event::CData(x) => x.content@,
        Event::PI(x) => x.content.buf@,
        Event::Decl(x) => x.content.buf@,
        Event::Eof => Seq::empty(),
    }
}

impl<'a> BytesStart<'a> {
//@extract events::BytesStart::to_owned | src/events/mod.rs :: impl<'a> BytesStart<'a> :: fn to_owned | serves=C08,C09
 pub fn to_owned(&self) -> (r: BytesStart<'static>)
        ensures r.buf@ == self.buf@, r.name_len == self.name_len
 {
        proof { axiom_cow_clone_bytes(&self.buf); axiom_into_owned_bytes(spec_cow_clone(&self.buf)); }
        BytesStart {
            buf: Cow::Owned(self.buf.clone().into_owned()),
            name_len: self.name_len,
        }
    }
//@end
}
impl<'a> vstd::std_specs::convert::FromSpecImpl<QName<'a>> for BytesStart<'a> {
    open spec fn obeys_from_spec() -> bool { false }
    open spec fn from_spec(n: QName<'a>) -> Self { arbitrary() }
}
impl<'a> From<QName<'a>> for BytesStart<'a> {
//@extract events::BytesStart::from_qname | src/events/mod.rs :: impl<'a> From<QName<'a>> for BytesStart<'a> :: fn from | serves=C09
    fn from(name: QName<'a>) -> (r: Self)
        // a start tag that consists of the name alone
        ensures r.buf@ == name.0@, r.name_len == name.0@.len()
    {
        proof { axiom_slice_len(name.0); }
        let name = name.into_inner();
        Self::wrap(name, name.len())
    }
//@end
}
impl<'a> BytesEnd<'a> {
//@extract events::BytesEnd::borrow | src/events/mod.rs :: impl<'a> BytesEnd<'a> :: fn borrow | serves=C08,C09
 pub fn borrow(&self) -> (r: BytesEnd)
        ensures r.name@ == self.name@
 {
        proof { axiom_cow_bytes(&self.name); }
        BytesEnd {
            name: Cow::Borrowed(&self.name),
        }
    }
//@end
//@extract events::BytesEnd::local_name | src/events/mod.rs :: impl<'a> BytesEnd<'a> :: fn local_name | serves=C09
 pub fn local_name(&self) -> (r: LocalName)
        // the part of the name behind its first ':' (the whole name if there is none)
        ensures r.0@ == spec_local_name(self.name@)
 {
        self.name().into()
    }
//@end
}
impl<'a> BytesText<'a> {
//@extract events::BytesText::into_inner | src/events/mod.rs :: impl<'a> BytesText<'a> :: fn into_inner | serves=C08,C09
 pub fn into_inner(self) -> (r: Cow<'a, [u8]>)
        ensures r == self.content
 {
        self.content
    }
//@end
//@extract events::BytesText::borrow | src/events/mod.rs :: impl<'a> BytesText<'a> :: fn borrow | serves=C08,C09
 pub fn borrow(&self) -> (r: BytesText)
        ensures r.content@ == self.content@, r.decoder == self.decoder
 {
        proof { axiom_cow_bytes(&self.content); }
        BytesText {
            content: Cow::Borrowed(&self.content),
            decoder: self.decoder,
        }
    }
//@end
}
impl<'a> BytesCData<'a> {
//@extract events::BytesCData::into_inner | src/events/mod.rs :: impl<'a> BytesCData<'a> :: fn into_inner | serves=C08,C09
 pub fn into_inner(self) -> (r: Cow<'a, [u8]>)
        ensures r == self.content
 {
        self.content
    }
//@end
//@extract events::BytesCData::borrow | src/events/mod.rs :: impl<'a> BytesCData<'a> :: fn borrow | serves=C08,C09
 pub fn borrow(&self) -> (r: BytesCData)
        ensures r.content@ == self.content@, r.decoder == self.decoder
 {
        proof { axiom_cow_bytes(&self.content); }
        BytesCData {
            content: Cow::Borrowed(&self.content),
            decoder: self.decoder,
        }
    }
//@end
}
impl<'a> BytesPI<'a> {
//@extract events::BytesPI::into_owned | src/events/mod.rs :: impl<'a> BytesPI<'a> :: fn into_owned | serves=C08,C09
 pub fn into_owned(self) -> (r: BytesPI<'static>)
        ensures r.content.buf@ == self.content.buf@, r.content.name_len == self.content.name_len
 {
        proof { lemma_into_identity::<BytesStart<'static>>(); }
        BytesPI {
            content: self.content.into_owned().into(),
        }
    }
//@end
//@extract events::BytesPI::into_inner | src/events/mod.rs :: impl<'a> BytesPI<'a> :: fn into_inner | serves=C08,C09
 pub fn into_inner(self) -> (r: Cow<'a, [u8]>)
        ensures r == self.content.buf
 {
        self.content.buf
    }
//@end
//@extract events::BytesPI::borrow | src/events/mod.rs :: impl<'a> BytesPI<'a> :: fn borrow | serves=C08,C09
 pub fn borrow(&self) -> (r: BytesPI)
        ensures r.content.buf@ == self.content.buf@, r.content.name_len == self.content.name_len
 {
        BytesPI {
            content: self.content.borrow(),
        }
    }
//@end
}
impl<'a> BytesDecl<'a> {
//@extract events::BytesDecl::into_owned | src/events/mod.rs :: impl<'a> BytesDecl<'a> :: fn into_owned | serves=C08,C09
 pub fn into_owned(self) -> (r: BytesDecl<'static>)
        ensures r.content.buf@ == self.content.buf@, r.content.name_len == self.content.name_len
 {
        BytesDecl {
            content: self.content.into_owned(),
        }
    }
//@end
//@extract events::BytesDecl::borrow | src/events/mod.rs :: impl<'a> BytesDecl<'a> :: fn borrow | serves=C08,C09
 pub fn borrow(&self) -> (r: BytesDecl)
        ensures r.content.buf@ == self.content.buf@, r.content.name_len == self.content.name_len
 {
        BytesDecl {
            content: self.content.borrow(),
        }
    }
//@end
}
impl<'a> Event<'a> {
//@extract events::Event::into_owned | src/events/mod.rs :: impl<'a> Event<'a> :: fn into_owned | serves=C08,C09
 pub fn into_owned(self) -> (r: Event<'static>)
        // C08/C09/C14: the owned event is the same event: same kind, every payload byte, the name length
        ensures same_ev(self, r)
 {
        match self {
            Event::Start(e) => Event::Start(e.into_owned()),
            Event::End(e) => Event::End(e.into_owned()),
            Event::Empty(e) => Event::Empty(e.into_owned()),
            Event::Text(e) => Event::Text(e.into_owned()),
            Event::Comment(e) => Event::Comment(e.into_owned()),
            Event::CData(e) => Event::CData(e.into_owned()),
            Event::Decl(e) => Event::Decl(e.into_owned()),
            Event::PI(e) => Event::PI(e.into_owned()),
            Event::DocType(e) => Event::DocType(e.into_owned()),
            Event::Eof => Event::Eof,
        }
    }
//@end
//@extract events::Event::borrow | src/events/mod.rs :: impl<'a> Event<'a> :: fn borrow | serves=C08,C09
 pub fn borrow(&self) -> (r: Event)
        ensures same_ev(*self, r)
 {
        match self {
            Event::Start(e) => Event::Start(e.borrow()),
            Event::End(e) => Event::End(e.borrow()),
            Event::Empty(e) => Event::Empty(e.borrow()),
            Event::Text(e) => Event::Text(e.borrow()),
            Event::Comment(e) => Event::Comment(e.borrow()),
            Event::CData(e) => Event::CData(e.borrow()),
            Event::Decl(e) => Event::Decl(e.borrow()),
            Event::PI(e) => Event::PI(e.borrow()),
            Event::DocType(e) => Event::DocType(e.borrow()),
            Event::Eof => Event::Eof,
        }
    }
//@end
}
//@extract events::Event::Deref | src/events/mod.rs :: impl<'a> Deref for Event<'a> | serves=C08,C09
impl<'a> Deref for Event<'a> {
    type Target = [u8];

    fn deref(&self) -> (r: &[u8])
        // exactly the stored bytes of whichever variant it is (nothing for Eof)
        ensures r@ == ev_bytes(*self)
    {
        match *self {
            Event::Start(ref e) | Event::Empty(ref e) => e,
            Event::End(ref e) => e,
            Event::Text(ref e) => e,
            Event::Decl(ref e) => e,
            Event::PI(ref e) => e,
            Event::CData(ref e) => e,
            Event::Comment(ref e) => e,
            Event::DocType(ref e) => e,
            Event::Eof => &[],
        }
    }
}
//@end
impl<'a> AsRef<Event<'a>> for Event<'a> {
//@extract events::Event::as_ref | src/events/mod.rs :: impl<'a> AsRef<Event<'a>> for Event<'a> :: fn as_ref | serves=C08,C09
    fn as_ref(&self) -> (r: &Event<'a>)
        ensures r == self
    {
        self
    }
//@end
}
} // mod evconv_
