// ---------------------------------------------------------------------------------------------
// Spec vocabulary of the reader: what one read-event call must do, as a relation between the
// reader state / remaining input before and after the call and the result (C01, C03, C04, C08,
// C16, C18).  Written from the lexical grammar: which construct starts at the next byte, where
// its first terminator lies, what the event exposes, how far the position moves.
// ---------------------------------------------------------------------------------------------
/// the call returned something after which reading goes on: an event other than Eof, or an ill-formedness error
pub open spec fn continues<'i>(r: core::result::Result<Event<'i>, Error>) -> bool {
    (r is Ok && !(r matches Ok(Event::Eof))) || (r matches Err(Error::IllFormed(_)))
}
/// effect of one returned event on the abstract stack of open element names (C04, C05, C12):
/// a Start pushes its name, an End pops (and, when names are checked, carries the popped name)
spec fn stack_effect<'i>(pre: ReaderState, post: ReaderState, r: core::result::Result<Event<'i>, Error>) -> bool {
    match r {
        Ok(Event::Start(e)) => e.name_len <= e.buf@.len() && post.stack() == pre.stack().push(e.buf@.subrange(0, e.name_len as int)),
        Ok(Event::End(e)) => if pre.stack().len() > 0 {
                post.stack() == pre.stack().drop_last() && (pre.config.check_end_names ==> e.name@ == pre.stack().last())
            } else { pre.config.allow_unmatched_ends && post.stack() == pre.stack() },
        Ok(_) => post.stack() == pre.stack(),
        Err(_) => true,
    }
}
/// ranking function of the reader: strictly decreases with every call that `continues`
pub open spec fn measure(st: ReaderState, rem: Seq<u8>) -> int {
    2 * rem.len() + (if st.state is InsideEmpty { 1int } else { 0int })
}
/// state after the source has delivered `n` more bytes of a markup construct
pub open spec fn mid(pre: ReaderState, n: int) -> ReaderState {
    ReaderState { state: ParseState::InsideText, offset: (pre.offset + n) as u64, ..pre }
}
/// error reported at the '<' that opened the construct
pub open spec fn err_at_lt(pre: ReaderState, consumed: int) -> ReaderState {
    ReaderState { state: ParseState::InsideText, offset: (pre.offset + consumed) as u64, last_error_offset: (pre.offset - 1) as u64, ..pre }
}
pub open spec fn skip(s: Seq<u8>, n: int) -> Seq<u8> { s.subrange(n, s.len() as int) }

/// One call of read_until_close: `rem` are the bytes after the '<' that was just consumed.
#[verifier::opaque]
spec fn markup_post<'i>(pre: ReaderState, rem: Seq<u8>, post: ReaderState, rem2: Seq<u8>, r: core::result::Result<Event<'i>, Error>, fault: bool) -> bool {
    &&& (r matches Err(Error::Io(_))) == fault
    &&& post.wf() && post.config == pre.config
    // positions never decrease, the error position is never ahead of the position (C03)
    &&& pre.offset <= post.offset && post.last_error_offset <= post.offset
    &&& (post.state is InsideText || post.state is InsideEmpty) && (post.state is InsideEmpty ==> post.stack().len() > 0)
    // every event and every recoverable error consumes input (C03: the number of calls is linear in the input)
    &&& continues(r) ==> rem2.len() < rem.len() && post.offset + rem2.len() <= pre.offset + rem.len()
    // events handed out are well-formed values: their accessors cannot panic (C03)
    &&& r matches Ok(ev) ==> ev_wf(ev)
    &&& stack_effect(pre, post, r)
//@if encoding
    // C17: the encoding changes only by an XML declaration, and only if it may still be refined
    &&& post.encoding == decl_refines(pre.encoding, r)
//@endif
    &&& if fault {
            // an I/O error: no event, position inside the construct
            &&& pre.offset <= post.offset <= pre.offset + rem.len()
            &&& post.same_stack(&pre) && post.state is InsideText
            &&& post.last_error_offset == pre.last_error_offset || post.last_error_offset == pre.offset - 1
        } else if rem.len() == 0 {
            // "<" at the end of input
            post == err_at_lt(pre, 0) && (r matches Err(Error::Syntax(SyntaxError::UnclosedTag)))
        } else if rem[0] == 0x21 {
            match bang_kind(second(rem)) {
                None => post == err_at_lt(pre, 0) && (r matches Err(Error::Syntax(SyntaxError::InvalidBangMarkup))),
                Some(kind) => {
                    &&& forall|k: int| bang_term(kind, rem, k) && no_bang_term_before(kind, rem, k) ==> {
                            &&& rem2 == skip(rem, k + 1)
                            &&& post_emit_bang(&mid(pre, k + 1), &post, kind, rem.subrange(0, k), r)
                        }
                    &&& no_bang_term_before(kind, rem, rem.len() as int) ==> {
                            &&& post == err_at_lt(pre, rem.len() as int)
                            &&& r matches Err(Error::Syntax(e)) && e == kind.spec_to_err()
                        }
                },
            }
        } else if rem[0] == 0x2f {
            match tag_end(ElementParser::Outside, rem) {
                Some(i) => rem2 == skip(rem, i + 1) && post_emit_end(&mid(pre, i + 1), &post, rem.subrange(0, i), r),
                None => post == err_at_lt(pre, rem.len() as int) && (r matches Err(Error::Syntax(SyntaxError::UnclosedTag))),
            }
        } else if rem[0] == 0x3f {
            match pi_end(false, rem) {
                Some(i) => rem2 == skip(rem, i + 1) && post_emit_question_mark(&mid(pre, i + 1), &post, rem.subrange(0, i), r),
                None => post == err_at_lt(pre, rem.len() as int) && (r matches Err(Error::Syntax(SyntaxError::UnclosedPIOrXmlDecl))),
            }
        } else {
            match tag_end(ElementParser::Outside, rem) {
                Some(i) => { &&& rem2 == skip(rem, i + 1) &&& r matches Ok(ev) && post_emit_start(&mid(pre, i + 1), &post, rem.subrange(0, i), ev) },
                None => post == err_at_lt(pre, rem.len() as int) && (r matches Err(Error::Syntax(SyntaxError::UnclosedTag))),
            }
        }
}

impl<R> Reader<R> {
    /// the position reported to the user: the '<' that has been consumed ahead is not counted
    pub open spec fn bufpos(&self) -> u64 {
        if self.state.state is InsideMarkup { (self.state.offset - 1) as u64 } else { self.state.offset }
    }
}

pub open spec fn text_content(trim_end: bool, bytes: Seq<u8>) -> Seq<u8> { if trim_end { trimmed_end(bytes) } else { bytes } }

/// an I/O error of the source ended the call: it is returned as such, no event is made from partial
/// data, the open-element stack is untouched and the position stays within the bytes delivered
#[verifier::opaque]
spec fn io_fail<'i>(pre: ReaderState, rem: Seq<u8>, m: ReaderState, r: core::result::Result<Event<'i>, Error>, fault: bool) -> bool {
    &&& fault
    &&& r matches Err(Error::Io(_))
    &&& m.wf() && m.config == pre.config && m.same_stack(&pre)
    &&& pre.offset <= m.offset <= pre.offset + rem.len()
    &&& m.last_error_offset <= m.offset
    &&& !(m.state is InsideMarkup) && !(m.state is InsideEmpty)
//@if encoding
    &&& bom_refines(pre.encoding, m.encoding)
//@endif
}

/// the input with its leading whitespace skipped if the switch says so (a function, not an if-expression, so that
/// the quantifier of text_post can be instantiated through its trigger)
pub open spec fn text_start(trim: bool, rem0: Seq<u8>) -> Seq<u8> { if trim { trimmed_start(rem0) } else { rem0 } }
/// reading character data (phase InsideText): `rem0` is the remaining input
#[verifier::opaque]
spec fn text_post<'i>(pre: ReaderState, rem0: Seq<u8>, m: ReaderState, rem2: Seq<u8>, r: core::result::Result<Event<'i>, Error>, fault: bool) -> bool {
    let r1 = text_start(pre.config.trim_text_start, rem0);
    let base = pre.offset + (rem0.len() - r1.len());
    ||| io_fail(pre, rem0, m, r, fault)
    ||| if no_lt(r1) {
            // text up to the end of input: an event unless nothing is left after trimming
            let txt = text_content(pre.config.trim_text_end, r1);
            &&& !fault
            &&& m == (ReaderState { state: ParseState::Done, offset: (pre.offset + rem0.len()) as u64, ..pre })
            &&& rem2.len() == 0
            &&& if txt.len() == 0 { r matches Ok(Event::Eof) } else { r matches Ok(Event::Text(e)) && e.content@ == txt }
        } else {
            forall|i: int| first_lt(r1, i) ==> if i == 0 {
                // markup follows immediately
                markup_post(ReaderState { state: ParseState::InsideMarkup, offset: (base + 1) as u64, ..pre }, skip(r1, 1), m, rem2, r, fault)
            } else {
                &&& !fault
                &&& m == (ReaderState { state: ParseState::InsideMarkup, offset: (base + i + 1) as u64, ..pre })
                &&& rem2 == skip(r1, i + 1)
                &&& r matches Ok(Event::Text(e)) && e.content@ == text_content(pre.config.trim_text_end, r1.subrange(0, i))
            }
        }
}

//@if encoding
/// the encoding after the byte-order-mark sniff: unchanged, or -- only if it was an implicit default or an
/// earlier sniff -- the sniffed one
pub open spec fn bom_refines(a: EncodingRef, b: EncodingRef) -> bool {
    b == a || ((a is Implicit || a is BomDetected) && b is BomDetected)
}
//@endif
//@if encoding
/// the encoding of the state inside one call that started in `pre` with the sniff due to report `benc`
pub open spec fn enc_inv(pre: ReaderState, benc: Option<u8>, cur: ReaderState) -> bool {
    if !(cur.state is Init) && pre.state is Init { bom_step(pre.encoding, benc, cur.encoding) } else { cur.encoding == pre.encoding }
}
/// C17: the encoding in force after one read-event call
pub open spec fn enc_post<'i>(pre: ReaderState, benc: Option<u8>, post: ReaderState, r: core::result::Result<Event<'i>, Error>) -> bool {
    if pre.state is Init && !(post.state is Init) {
        exists|e1: EncodingRef| #[trigger] bom_step(pre.encoding, benc, e1) && post.encoding == decl_refines(e1, r)
    } else { post.encoding == decl_refines(pre.encoding, r) }
}
//@endif
/// what the selected arm of the state machine does (before the final Done bookkeeping)
#[verifier::opaque]
spec fn arm_post<'i>(pre: ReaderState, rem: Seq<u8>, brem: Seq<u8>, m: ReaderState, rem2: Seq<u8>, r: core::result::Result<Event<'i>, Error>, fault: bool) -> bool {
    match pre.state {
        ParseState::Done => !fault && m == pre && rem2 == rem && (r matches Ok(Event::Eof)),
        ParseState::InsideEmpty => {
            &&& !fault && rem2 == rem
            &&& m.wf() && m.stack() == pre.stack().drop_last() && m.state is InsideText
            &&& m.offset == pre.offset && m.last_error_offset == pre.last_error_offset && m.config == pre.config
//@if encoding
            &&& m.encoding == pre.encoding
//@endif
            &&& r matches Ok(Event::End(e)) && e.name@ == pre.stack().last()
        },
        ParseState::InsideMarkup => markup_post(pre, rem, m, rem2, r, fault),
        ParseState::InsideText => text_post(pre, rem, m, rem2, r, fault),
        ParseState::Init => {
//@if encoding
            // C17: the encoding sniffed from the first bytes replaces an implicit default only (never the one fixed by
            // from_str); which encoding it is, is stated by the contract of XmlSource::detect_encoding
            // `brem`: the input after the byte-order-mark sniff (which sees the first piece only, C02; a slice is one piece)
            exists|e1: EncodingRef| #[trigger] bom_refines(pre.encoding, e1)
                && text_post(ReaderState { state: ParseState::InsideText, encoding: e1, ..pre }, brem, m, rem2, r, fault)
//@else
            let p1 = ReaderState { state: ParseState::InsideText, ..pre };
            // `brem`: the input after the byte-order-mark sniff (which sees the first piece only, C02; a slice is one piece)
            text_post(p1, brem, m, rem2, r, fault)
//@endif
        },
    }
}
/// Eof and every error except ill-formedness end the document (C03); an ill-formedness error does not (C04)
spec fn finish<'i>(m: ReaderState, r: core::result::Result<Event<'i>, Error>) -> ReaderState {
    if (r is Err && !(r matches Err(Error::IllFormed(_)))) || (r matches Ok(Event::Eof)) {
        ReaderState { state: ParseState::Done, ..m }
    } else { m }
}
/// THE contract of one read-event call (T01)
#[verifier::opaque]
spec fn event_post<'i>(pre: ReaderState, rem: Seq<u8>, brem: Seq<u8>, post: ReaderState, rem2: Seq<u8>, r: core::result::Result<Event<'i>, Error>, fault: bool) -> bool {
    ||| io_fail(pre, rem, post, r, fault)
    ||| exists|m: ReaderState| #[trigger] arm_post(pre, rem, brem, m, rem2, r, fault) && post == finish(m, r)
}

impl<R> Reader<R> {
    /// representation invariant of the reader between calls
    pub open spec fn inv(&self) -> bool {
        &&& self.state.wf()
        &&& self.state.state is InsideMarkup ==> self.state.offset >= 1
        &&& self.state.state is InsideEmpty ==> self.state.stack().len() > 0
        &&& self.state.last_error_offset <= self.bufpos()
    }
}

/// number of entries of `t` equal to `n` (how many open elements opened during a skip carry the skipped name)
pub open spec fn count_name(t: Seq<Seq<u8>>, n: Seq<u8>) -> int decreases t.len() {
    if t.len() == 0 { 0 } else { count_name(t.drop_last(), n) + (if t.last() == n { 1int } else { 0int }) }
}
pub proof fn lemma_count_push(t: Seq<Seq<u8>>, x: Seq<u8>, n: Seq<u8>)
    ensures count_name(t.push(x), n) == count_name(t, n) + (if x == n { 1int } else { 0int }), count_name(t, n) >= 0
    decreases t.len()
{
    assert(t.push(x).drop_last() =~= t);
    if t.len() > 0 { lemma_count_push(t.drop_last(), t.last(), n); assert(t.drop_last().push(t.last()) =~= t); }
}
/// skipping the innermost open element: the precondition under which the skip provably ends at ITS end tag
spec fn skip_domain(st: ReaderState, end: Seq<u8>) -> bool {
    st.config.check_end_names && st.stack().len() > 0 && st.stack().last() == end
}
