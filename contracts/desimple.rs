// ---------------------------------------------------------------------------------------------
// U-delist, second part (feature `serialize`): the forwarding networks of the simple-type deserializers
// (src/de/simple_type.rs: AtomicDeserializer, SimpleTypeDeserializer, UnitOnly) and of CowRef<str>.
// C07 (bounded time, never a panic): every `deserialize_*` of these types answers from its content or forwards to
// another one -- partly through the macros `unsupported!` and `deserialize_primitive!`, transcribed here for each
// invocation. None of the functions below has a `decreases` clause, so Verus accepts them only while the calls between
// them form no cycle (DESIGN 2.4, termination obligations); none of them contains a panic site.
// Not under contract: the twelve numeric methods of each type (`str::parse` with an inferred target type) and
// `CowRef::deserialize_bool` (string-literal patterns); they call one visitor method or `deserialize_str`.
// ---------------------------------------------------------------------------------------------
pub mod desimple_ {
use super::*;
use vstd::prelude::*;
use vstd::string::*;
use core::result::Result;
use crate::dekey_::{CowRef, DeError, QNameDeserializer};
use crate::delist_::{AtomicDeserializer, SimpleTypeDeserializer, ListIter, Content};

// ---- A-serde: the foreign traits, as far as these functions use them; nothing is assumed about what they do ----
pub trait DeModel<'de>: Sized {}
pub trait SeqModel<'de>: Sized {}
pub trait EnumModel<'de>: Sized {}
pub trait Visitor<'de>: Sized {
    type Value;
    fn visit_none(self) -> Result<Self::Value, DeError>;
    fn visit_unit(self) -> Result<Self::Value, DeError>;
    fn visit_borrowed_str(self, v: &'de str) -> Result<Self::Value, DeError>;
    fn visit_str(self, v: &str) -> Result<Self::Value, DeError>;
    fn visit_string(self, v: String) -> Result<Self::Value, DeError>;
    fn visit_i8(self, v: i8) -> Result<Self::Value, DeError>;
    fn visit_i16(self, v: i16) -> Result<Self::Value, DeError>;
    fn visit_i32(self, v: i32) -> Result<Self::Value, DeError>;
    fn visit_i64(self, v: i64) -> Result<Self::Value, DeError>;
    fn visit_u8(self, v: u8) -> Result<Self::Value, DeError>;
    fn visit_u16(self, v: u16) -> Result<Self::Value, DeError>;
    fn visit_u32(self, v: u32) -> Result<Self::Value, DeError>;
    fn visit_u64(self, v: u64) -> Result<Self::Value, DeError>;
    fn visit_f32(self, v: f32) -> Result<Self::Value, DeError>;
    fn visit_f64(self, v: f64) -> Result<Self::Value, DeError>;
    fn visit_some<D: DeModel<'de>>(self, deserializer: D) -> Result<Self::Value, DeError>;
    fn visit_newtype_struct<D: DeModel<'de>>(self, deserializer: D) -> Result<Self::Value, DeError>;
    fn visit_seq<A: SeqModel<'de>>(self, seq: A) -> Result<Self::Value, DeError>;
    fn visit_enum<A: EnumModel<'de>>(self, data: A) -> Result<Self::Value, DeError>;
}
/// `str::parse::<T>()` for the number types (std FromStr, not modelled): a number or not -- nothing else is used (declared
/// rewrites `text.parse()` ==> `parse_str_(text)`, `self.name.parse()` ==> `parse_cowref_(&self.name)`)
#[verifier::external_body]
pub fn parse_str_<T>(s: &str) -> Result<T, ()> { unimplemented!() }
#[verifier::external_body]
pub fn parse_cowref_<'i, 's, T>(s: &CowRef<'i, 's, str>) -> Result<T, ()> { unimplemented!() }
pub trait DeserializeSeed<'de>: Sized {
    type Value;
    fn deserialize<D: DeModel<'de>>(self, deserializer: D) -> Result<Self::Value, DeError>;
}
impl<'de, 'a> DeModel<'de> for AtomicDeserializer<'de, 'a> {}
impl<'de, 'a> EnumModel<'de> for AtomicDeserializer<'de, 'a> {}
impl<'de, 'a> DeModel<'de> for SimpleTypeDeserializer<'de, 'a> {}
impl<'de, 'a> EnumModel<'de> for SimpleTypeDeserializer<'de, 'a> {}
impl<'de, 'a> SeqModel<'de> for ListIter<'de, 'a> {}
/// stand-in for serde::de::value::UnitDeserializer
pub struct UnitDeserializer { pub u: u8 }
impl UnitDeserializer {
    #[verifier::external_body]
    pub fn new() -> Self { unimplemented!() }
}
impl<'de> DeModel<'de> for UnitDeserializer {}
/// stand-in for escape::unescape (verified in unit charref against `unescape_xml`); here only that it returns
#[verifier::external_body]
pub fn unescape<'i>(raw: &'i str) -> (r: Result<Cow<'i, str>, DeError>) { unimplemented!() }

impl<'i, 's> CowRef<'i, 's, str> {
    /// std: `Deref<Target = str>` + `AsRef<str> for str`
    #[verifier::external_body]
    pub fn as_ref(&self) -> (r: &str) { unimplemented!() }
    /// not under contract (string-literal patterns): calls `visitor.visit_bool` or `self.deserialize_str`
    #[verifier::external_body]
    pub fn deserialize_bool<V: Visitor<'i>>(self, visitor: V) -> Result<V::Value, DeError> { unimplemented!() }
//@extract utils::CowRef::deserialize_str | src/utils.rs :: impl<'i, 's> CowRef<'i, 's, str> :: fn deserialize_str | serves=C07 features=serialize
//@rewrite-opt Self::Error ==> DeError
//@rewrite <V, E> ==> <V>
//@rewrite Result<V::Value, E> ==> Result<V::Value, DeError>
//@rewrite E: Error, ==> 
 fn deserialize_str<V>(self, visitor: V) -> Result<V::Value, DeError>
    where
        V: Visitor<'i>,
        {
        match self {
            Self::Input(s) => visitor.visit_borrowed_str(s),
            Self::Slice(s) => visitor.visit_str(s),
            Self::Owned(s) => visitor.visit_string(s),
        }
    }
//@end
}
impl<'de, 'a> AtomicDeserializer<'de, 'a> {
//@extract de::simple_type::AtomicDeserializer::deserialize_any | src/de/simple_type.rs :: impl<'de, 'a> Deserializer<'de> for AtomicDeserializer<'de, 'a> :: fn deserialize_any | serves=C07 features=serialize
//@rewrite-opt Self::Error ==> DeError
    /// Forwards deserialization to the [`Self::deserialize_str`]
    fn deserialize_any<V>(self, visitor: V) -> Result<V::Value, DeError>
    where
        V: Visitor<'de>,
    {
        self.deserialize_str(visitor)
    }
//@end
//@extract de::simple_type::AtomicDeserializer::deserialize_bool | src/de/simple_type.rs :: impl<'de, 'a> Deserializer<'de> for AtomicDeserializer<'de, 'a> :: fn deserialize_bool | serves=C07 features=serialize
//@rewrite-opt Self::Error ==> DeError
    /// According to the <https://www.w3.org/TR/xmlschema11-2/#boolean>,
    /// valid boolean representations are only `"true"`, `"false"`, `"1"`,
    /// and `"0"`.
    fn deserialize_bool<V>(self, visitor: V) -> Result<V::Value, DeError>
    where
        V: Visitor<'de>,
    {
        self.content.deserialize_bool(visitor)
    }
//@end
//@extract de::simple_type::AtomicDeserializer::deserialize_i8 | src/de/simple_type.rs :: impl<'de, 'a> Deserializer<'de> for AtomicDeserializer<'de, 'a> :: invoke deserialize_num :: fn deserialize_i8 | serves=C07 features=serialize
//@rewrite-opt Self::Error ==> DeError
//@rewrite text.parse() ==> parse_str_(text)
        fn deserialize_i8<V>(self, visitor: V) -> Result<V::Value, DeError>
        where
            V: Visitor<'de>,
        {
            let text: &str = self.content.as_ref();
            match parse_str_(text) {
                Ok(number) => visitor.visit_i8(number),
                Err(_) => self.content.deserialize_str(visitor),
            }
        }
//@end
//@extract de::simple_type::AtomicDeserializer::deserialize_i16 | src/de/simple_type.rs :: impl<'de, 'a> Deserializer<'de> for AtomicDeserializer<'de, 'a> :: invoke deserialize_num :: fn deserialize_i16 | serves=C07 features=serialize
//@rewrite-opt Self::Error ==> DeError
//@rewrite text.parse() ==> parse_str_(text)
        fn deserialize_i16<V>(self, visitor: V) -> Result<V::Value, DeError>
        where
            V: Visitor<'de>,
        {
            let text: &str = self.content.as_ref();
            match parse_str_(text) {
                Ok(number) => visitor.visit_i16(number),
                Err(_) => self.content.deserialize_str(visitor),
            }
        }
//@end
//@extract de::simple_type::AtomicDeserializer::deserialize_i32 | src/de/simple_type.rs :: impl<'de, 'a> Deserializer<'de> for AtomicDeserializer<'de, 'a> :: invoke deserialize_num :: fn deserialize_i32 | serves=C07 features=serialize
//@rewrite-opt Self::Error ==> DeError
//@rewrite text.parse() ==> parse_str_(text)
        fn deserialize_i32<V>(self, visitor: V) -> Result<V::Value, DeError>
        where
            V: Visitor<'de>,
        {
            let text: &str = self.content.as_ref();
            match parse_str_(text) {
                Ok(number) => visitor.visit_i32(number),
                Err(_) => self.content.deserialize_str(visitor),
            }
        }
//@end
//@extract de::simple_type::AtomicDeserializer::deserialize_i64 | src/de/simple_type.rs :: impl<'de, 'a> Deserializer<'de> for AtomicDeserializer<'de, 'a> :: invoke deserialize_num :: fn deserialize_i64 | serves=C07 features=serialize
//@rewrite-opt Self::Error ==> DeError
//@rewrite text.parse() ==> parse_str_(text)
        fn deserialize_i64<V>(self, visitor: V) -> Result<V::Value, DeError>
        where
            V: Visitor<'de>,
        {
            let text: &str = self.content.as_ref();
            match parse_str_(text) {
                Ok(number) => visitor.visit_i64(number),
                Err(_) => self.content.deserialize_str(visitor),
            }
        }
//@end
//@extract de::simple_type::AtomicDeserializer::deserialize_u8 | src/de/simple_type.rs :: impl<'de, 'a> Deserializer<'de> for AtomicDeserializer<'de, 'a> :: invoke deserialize_num :: fn deserialize_u8 | serves=C07 features=serialize
//@rewrite-opt Self::Error ==> DeError
//@rewrite text.parse() ==> parse_str_(text)
        fn deserialize_u8<V>(self, visitor: V) -> Result<V::Value, DeError>
        where
            V: Visitor<'de>,
        {
            let text: &str = self.content.as_ref();
            match parse_str_(text) {
                Ok(number) => visitor.visit_u8(number),
                Err(_) => self.content.deserialize_str(visitor),
            }
        }
//@end
//@extract de::simple_type::AtomicDeserializer::deserialize_u16 | src/de/simple_type.rs :: impl<'de, 'a> Deserializer<'de> for AtomicDeserializer<'de, 'a> :: invoke deserialize_num :: fn deserialize_u16 | serves=C07 features=serialize
//@rewrite-opt Self::Error ==> DeError
//@rewrite text.parse() ==> parse_str_(text)
        fn deserialize_u16<V>(self, visitor: V) -> Result<V::Value, DeError>
        where
            V: Visitor<'de>,
        {
            let text: &str = self.content.as_ref();
            match parse_str_(text) {
                Ok(number) => visitor.visit_u16(number),
                Err(_) => self.content.deserialize_str(visitor),
            }
        }
//@end
//@extract de::simple_type::AtomicDeserializer::deserialize_u32 | src/de/simple_type.rs :: impl<'de, 'a> Deserializer<'de> for AtomicDeserializer<'de, 'a> :: invoke deserialize_num :: fn deserialize_u32 | serves=C07 features=serialize
//@rewrite-opt Self::Error ==> DeError
//@rewrite text.parse() ==> parse_str_(text)
        fn deserialize_u32<V>(self, visitor: V) -> Result<V::Value, DeError>
        where
            V: Visitor<'de>,
        {
            let text: &str = self.content.as_ref();
            match parse_str_(text) {
                Ok(number) => visitor.visit_u32(number),
                Err(_) => self.content.deserialize_str(visitor),
            }
        }
//@end
//@extract de::simple_type::AtomicDeserializer::deserialize_u64 | src/de/simple_type.rs :: impl<'de, 'a> Deserializer<'de> for AtomicDeserializer<'de, 'a> :: invoke deserialize_num :: fn deserialize_u64 | serves=C07 features=serialize
//@rewrite-opt Self::Error ==> DeError
//@rewrite text.parse() ==> parse_str_(text)
        fn deserialize_u64<V>(self, visitor: V) -> Result<V::Value, DeError>
        where
            V: Visitor<'de>,
        {
            let text: &str = self.content.as_ref();
            match parse_str_(text) {
                Ok(number) => visitor.visit_u64(number),
                Err(_) => self.content.deserialize_str(visitor),
            }
        }
//@end
//@extract de::simple_type::AtomicDeserializer::deserialize_f32 | src/de/simple_type.rs :: impl<'de, 'a> Deserializer<'de> for AtomicDeserializer<'de, 'a> :: invoke deserialize_num :: fn deserialize_f32 | serves=C07 features=serialize
//@rewrite-opt Self::Error ==> DeError
//@rewrite text.parse() ==> parse_str_(text)
        fn deserialize_f32<V>(self, visitor: V) -> Result<V::Value, DeError>
        where
            V: Visitor<'de>,
        {
            let text: &str = self.content.as_ref();
            match parse_str_(text) {
                Ok(number) => visitor.visit_f32(number),
                Err(_) => self.content.deserialize_str(visitor),
            }
        }
//@end
//@extract de::simple_type::AtomicDeserializer::deserialize_f64 | src/de/simple_type.rs :: impl<'de, 'a> Deserializer<'de> for AtomicDeserializer<'de, 'a> :: invoke deserialize_num :: fn deserialize_f64 | serves=C07 features=serialize
//@rewrite-opt Self::Error ==> DeError
//@rewrite text.parse() ==> parse_str_(text)
        fn deserialize_f64<V>(self, visitor: V) -> Result<V::Value, DeError>
        where
            V: Visitor<'de>,
        {
            let text: &str = self.content.as_ref();
            match parse_str_(text) {
                Ok(number) => visitor.visit_f64(number),
                Err(_) => self.content.deserialize_str(visitor),
            }
        }
//@end
//@extract de::simple_type::AtomicDeserializer::deserialize_char | src/de/simple_type.rs :: impl<'de, 'a> Deserializer<'de> for AtomicDeserializer<'de, 'a> :: fn deserialize_char | serves=C07 features=serialize
//@rewrite-opt Self::Error ==> DeError
    /// Forwards deserialization to the [`Self::deserialize_str`]
    fn deserialize_char<V>(self, visitor: V) -> Result<V::Value, DeError>
    where
        V: Visitor<'de>,
    {
        self.deserialize_str(visitor)
    }
//@end
//@extract de::simple_type::AtomicDeserializer::deserialize_str | src/de/simple_type.rs :: impl<'de, 'a> Deserializer<'de> for AtomicDeserializer<'de, 'a> :: fn deserialize_str | serves=C07 features=serialize
//@rewrite-opt Self::Error ==> DeError
    /// Supply to the visitor borrowed string, string slice, or owned string
    /// depending on the kind of input and presence of the escaped data.
    ///
    /// If string requires unescaping, then calls [`Visitor::visit_string`] with
    /// new allocated buffer with unescaped data.
    ///
    /// Otherwise calls
    /// - [`Visitor::visit_borrowed_str`] if data borrowed from the input
    /// - [`Visitor::visit_str`] if data borrowed from other deserializer
    /// - [`Visitor::visit_string`] if data owned by this deserializer
    fn deserialize_str<V>(self, visitor: V) -> Result<V::Value, DeError>
    where
        V: Visitor<'de>,
    {
        if self.escaped {
            match unescape(self.content.as_ref())? {
                Cow::Borrowed(_) => self.content.deserialize_str(visitor),
                Cow::Owned(s) => visitor.visit_string(s),
            }
        } else {
            self.content.deserialize_str(visitor)
        }
    }
//@end
//@extract de::simple_type::AtomicDeserializer::deserialize_string | src/de/simple_type.rs :: impl<'de, 'a> Deserializer<'de> for AtomicDeserializer<'de, 'a> :: fn deserialize_string | serves=C07 features=serialize
//@rewrite-opt Self::Error ==> DeError
    fn deserialize_string<V>(self, visitor: V) -> Result<V::Value, DeError>
    where
        V: Visitor<'de>,
    {
        self.deserialize_str(visitor)
    }
//@end
//@extract de::simple_type::AtomicDeserializer::deserialize_option | src/de/simple_type.rs :: impl<'de, 'a> Deserializer<'de> for AtomicDeserializer<'de, 'a> :: fn deserialize_option | serves=C07 features=serialize
//@rewrite-opt Self::Error ==> DeError
    /// If `content` is an empty string then calls [`Visitor::visit_none`],
    /// otherwise calls [`Visitor::visit_some`] with itself
    fn deserialize_option<V>(self, visitor: V) -> Result<V::Value, DeError>
    where
        V: Visitor<'de>,
    {
        let text: &str = self.content.as_ref();
        if text.is_empty() {
            visitor.visit_none()
        } else {
            visitor.visit_some(self)
        }
    }
//@end
//@extract de::simple_type::AtomicDeserializer::deserialize_unit | src/de/simple_type.rs :: impl<'de, 'a> Deserializer<'de> for AtomicDeserializer<'de, 'a> :: fn deserialize_unit | serves=C07 features=serialize
//@rewrite-opt Self::Error ==> DeError
    fn deserialize_unit<V>(self, visitor: V) -> Result<V::Value, DeError>
    where
        V: Visitor<'de>,
    {
        visitor.visit_unit()
    }
//@end
//@extract de::simple_type::AtomicDeserializer::deserialize_unit_struct | src/de/simple_type.rs :: impl<'de, 'a> Deserializer<'de> for AtomicDeserializer<'de, 'a> :: fn deserialize_unit_struct | serves=C07 features=serialize
//@rewrite-opt Self::Error ==> DeError
    /// Forwards deserialization to the [`Self::deserialize_unit`]
    fn deserialize_unit_struct<V>(
        self,
        _name: &'static str,
        visitor: V,
    ) -> Result<V::Value, DeError>
    where
        V: Visitor<'de>,
    {
        self.deserialize_unit(visitor)
    }
//@end
//@extract de::simple_type::AtomicDeserializer::deserialize_newtype_struct | src/de/simple_type.rs :: impl<'de, 'a> Deserializer<'de> for AtomicDeserializer<'de, 'a> :: fn deserialize_newtype_struct | serves=C07 features=serialize
//@rewrite-opt Self::Error ==> DeError
    fn deserialize_newtype_struct<V>(
        self,
        _name: &'static str,
        visitor: V,
    ) -> Result<V::Value, DeError>
    where
        V: Visitor<'de>,
    {
        visitor.visit_newtype_struct(self)
    }
//@end
//@extract de::simple_type::AtomicDeserializer::deserialize_enum | src/de/simple_type.rs :: impl<'de, 'a> Deserializer<'de> for AtomicDeserializer<'de, 'a> :: fn deserialize_enum | serves=C07 features=serialize
//@rewrite-opt Self::Error ==> DeError
    fn deserialize_enum<V>(
        self,
        _name: &'static str,
        _variants: &'static [&'static str],
        visitor: V,
    ) -> Result<V::Value, DeError>
    where
        V: Visitor<'de>,
    {
        visitor.visit_enum(self)
    }
//@end
//@extract de::simple_type::AtomicDeserializer::deserialize_identifier | src/de/simple_type.rs :: impl<'de, 'a> Deserializer<'de> for AtomicDeserializer<'de, 'a> :: fn deserialize_identifier | serves=C07 features=serialize
//@rewrite-opt Self::Error ==> DeError
    /// Forwards deserialization to the [`Self::deserialize_str`]
    fn deserialize_identifier<V>(self, visitor: V) -> Result<V::Value, DeError>
    where
        V: Visitor<'de>,
    {
        self.deserialize_str(visitor)
    }
//@end
//@extract de::simple_type::AtomicDeserializer::deserialize_ignored_any | src/de/simple_type.rs :: impl<'de, 'a> Deserializer<'de> for AtomicDeserializer<'de, 'a> :: fn deserialize_ignored_any | serves=C07 features=serialize
//@rewrite-opt Self::Error ==> DeError
    fn deserialize_ignored_any<V>(self, visitor: V) -> Result<V::Value, DeError>
    where
        V: Visitor<'de>,
    {
        visitor.visit_unit()
    }
//@end
//@extract de::simple_type::AtomicDeserializer::deserialize_bytes | src/de/simple_type.rs :: impl<'de, 'a> Deserializer<'de> for AtomicDeserializer<'de, 'a> :: invoke unsupported :: fn deserialize_bytes | serves=C07 features=serialize
//@rewrite-opt Self::Error ==> DeError
        fn deserialize_bytes<V: Visitor<'de>>(
            self,
            visitor: V
        ) -> Result<V::Value, DeError> {
            // Deserializer methods are only hints, if deserializer could not satisfy
            // request, it should return the data that it has. It is responsibility
            // of a Visitor to return an error if it does not understand the data
            self.deserialize_str(visitor)
        }
//@end
//@extract de::simple_type::AtomicDeserializer::deserialize_byte_buf | src/de/simple_type.rs :: impl<'de, 'a> Deserializer<'de> for AtomicDeserializer<'de, 'a> :: invoke unsupported :: fn deserialize_byte_buf | serves=C07 features=serialize
//@rewrite-opt Self::Error ==> DeError
        fn deserialize_byte_buf<V: Visitor<'de>>(
            self,
            visitor: V
        ) -> Result<V::Value, DeError> {
            // Deserializer methods are only hints, if deserializer could not satisfy
            // request, it should return the data that it has. It is responsibility
            // of a Visitor to return an error if it does not understand the data
            self.deserialize_str(visitor)
        }
//@end
//@extract de::simple_type::AtomicDeserializer::deserialize_seq | src/de/simple_type.rs :: impl<'de, 'a> Deserializer<'de> for AtomicDeserializer<'de, 'a> :: invoke unsupported :: fn deserialize_seq | serves=C07 features=serialize
//@rewrite-opt Self::Error ==> DeError
        fn deserialize_seq<V: Visitor<'de>>(
            self,
            visitor: V
        ) -> Result<V::Value, DeError> {
            // Deserializer methods are only hints, if deserializer could not satisfy
            // request, it should return the data that it has. It is responsibility
            // of a Visitor to return an error if it does not understand the data
            self.deserialize_str(visitor)
        }
//@end
//@extract de::simple_type::AtomicDeserializer::deserialize_tuple | src/de/simple_type.rs :: impl<'de, 'a> Deserializer<'de> for AtomicDeserializer<'de, 'a> :: invoke unsupported :: fn deserialize_tuple | serves=C07 features=serialize
//@rewrite-opt Self::Error ==> DeError
        fn deserialize_tuple<V: Visitor<'de>>(
            self,
            _p0: usize,
            visitor: V
        ) -> Result<V::Value, DeError> {
            // Deserializer methods are only hints, if deserializer could not satisfy
            // request, it should return the data that it has. It is responsibility
            // of a Visitor to return an error if it does not understand the data
            self.deserialize_str(visitor)
        }
//@end
//@extract de::simple_type::AtomicDeserializer::deserialize_tuple_struct | src/de/simple_type.rs :: impl<'de, 'a> Deserializer<'de> for AtomicDeserializer<'de, 'a> :: invoke unsupported :: fn deserialize_tuple_struct | serves=C07 features=serialize
//@rewrite-opt Self::Error ==> DeError
        fn deserialize_tuple_struct<V: Visitor<'de>>(
            self,
            _p0: &'static str,_p1: usize,
            visitor: V
        ) -> Result<V::Value, DeError> {
            // Deserializer methods are only hints, if deserializer could not satisfy
            // request, it should return the data that it has. It is responsibility
            // of a Visitor to return an error if it does not understand the data
            self.deserialize_str(visitor)
        }
//@end
//@extract de::simple_type::AtomicDeserializer::deserialize_map | src/de/simple_type.rs :: impl<'de, 'a> Deserializer<'de> for AtomicDeserializer<'de, 'a> :: invoke unsupported :: fn deserialize_map | serves=C07 features=serialize
//@rewrite-opt Self::Error ==> DeError
        fn deserialize_map<V: Visitor<'de>>(
            self,
            visitor: V
        ) -> Result<V::Value, DeError> {
            // Deserializer methods are only hints, if deserializer could not satisfy
            // request, it should return the data that it has. It is responsibility
            // of a Visitor to return an error if it does not understand the data
            self.deserialize_str(visitor)
        }
//@end
//@extract de::simple_type::AtomicDeserializer::deserialize_struct | src/de/simple_type.rs :: impl<'de, 'a> Deserializer<'de> for AtomicDeserializer<'de, 'a> :: invoke unsupported :: fn deserialize_struct | serves=C07 features=serialize
//@rewrite-opt Self::Error ==> DeError
        fn deserialize_struct<V: Visitor<'de>>(
            self,
            _p0: &'static str,_p1: &'static [&'static str],
            visitor: V
        ) -> Result<V::Value, DeError> {
            // Deserializer methods are only hints, if deserializer could not satisfy
            // request, it should return the data that it has. It is responsibility
            // of a Visitor to return an error if it does not understand the data
            self.deserialize_str(visitor)
        }
//@end
//@extract de::simple_type::AtomicDeserializer::variant_seed | src/de/simple_type.rs :: impl<'de, 'a> EnumAccess<'de> for AtomicDeserializer<'de, 'a> :: fn variant_seed | serves=C07 features=serialize
//@rewrite-opt Self::Error ==> DeError
//@rewrite-opt Self::Variant ==> UnitOnly
    fn variant_seed<V>(self, seed: V) -> Result<(V::Value, UnitOnly), DeError>
    where
        V: DeserializeSeed<'de>,
    {
        let name = seed.deserialize(self)?;
        Ok((name, UnitOnly))
    }
//@end
}
//@extract de::simple_type::UnitOnly | src/de/simple_type.rs :: struct UnitOnly | serves=C07 features=serialize
 struct UnitOnly;
//@end
/// A-serde: serde::de::VariantAccess as far as UnitOnly implements it
pub trait VariantAccess<'de>: Sized {
    fn unit_variant(self) -> Result<(), DeError>;
    fn newtype_variant_seed<T: DeserializeSeed<'de>>(self, seed: T) -> Result<T::Value, DeError>;
    fn tuple_variant<V: Visitor<'de>>(self, len: usize, visitor: V) -> Result<V::Value, DeError>;
    fn struct_variant<V: Visitor<'de>>(self, fields: &'static [&'static str], visitor: V) -> Result<V::Value, DeError>;
}
impl<'de> VariantAccess<'de> for UnitOnly {
//@extract de::simple_type::UnitOnly::unit_variant | src/de/simple_type.rs :: impl<'de> VariantAccess<'de> for UnitOnly :: fn unit_variant | serves=C07 features=serialize
//@rewrite-opt Self::Error ==> DeError
    fn unit_variant(self) -> Result<(), DeError> {
        Ok(())
    }
//@end
//@extract de::simple_type::UnitOnly::newtype_variant_seed | src/de/simple_type.rs :: impl<'de> VariantAccess<'de> for UnitOnly :: fn newtype_variant_seed | serves=C07 features=serialize
//@rewrite-opt Self::Error ==> DeError
//@rewrite UnitDeserializer::<DeError>::new() ==> UnitDeserializer::new()
    fn newtype_variant_seed<T>(self, seed: T) -> Result<T::Value, DeError>
    where
        T: DeserializeSeed<'de>,
    {
        seed.deserialize(UnitDeserializer::new())
    }
//@end
//@extract de::simple_type::UnitOnly::tuple_variant | src/de/simple_type.rs :: impl<'de> VariantAccess<'de> for UnitOnly :: fn tuple_variant | serves=C07 features=serialize
//@rewrite-opt Self::Error ==> DeError
    fn tuple_variant<V>(self, _len: usize, visitor: V) -> Result<V::Value, DeError>
    where
        V: Visitor<'de>,
    {
        visitor.visit_unit()
    }
//@end
//@extract de::simple_type::UnitOnly::struct_variant | src/de/simple_type.rs :: impl<'de> VariantAccess<'de> for UnitOnly :: fn struct_variant | serves=C07 features=serialize
//@rewrite-opt Self::Error ==> DeError
    fn struct_variant<V>(
        self,
        _fields: &'static [&'static str],
        visitor: V,
    ) -> Result<V::Value, DeError>
    where
        V: Visitor<'de>,
    {
        visitor.visit_unit()
    }
//@end
}
impl<'de, 'a> SimpleTypeDeserializer<'de, 'a> {
//@extract de::simple_type::SimpleTypeDeserializer::deserialize_any | src/de/simple_type.rs :: impl<'de, 'a> Deserializer<'de> for SimpleTypeDeserializer<'de, 'a> :: fn deserialize_any | serves=C07 features=serialize
//@rewrite-opt Self::Error ==> DeError
    /// Forwards deserialization to the [`Self::deserialize_str`]
    fn deserialize_any<V>(self, visitor: V) -> Result<V::Value, DeError>
    where
        V: Visitor<'de>,
    {
        self.deserialize_str(visitor)
    }
//@end
//@extract de::simple_type::SimpleTypeDeserializer::deserialize_char | src/de/simple_type.rs :: impl<'de, 'a> Deserializer<'de> for SimpleTypeDeserializer<'de, 'a> :: fn deserialize_char | serves=C07 features=serialize
//@rewrite-opt Self::Error ==> DeError
    fn deserialize_char<V>(self, visitor: V) -> Result<V::Value, DeError>
    where
        V: Visitor<'de>,
    {
        self.deserialize_str(visitor)
    }
//@end
//@extract de::simple_type::SimpleTypeDeserializer::deserialize_string | src/de/simple_type.rs :: impl<'de, 'a> Deserializer<'de> for SimpleTypeDeserializer<'de, 'a> :: fn deserialize_string | serves=C07 features=serialize
//@rewrite-opt Self::Error ==> DeError
    fn deserialize_string<V>(self, visitor: V) -> Result<V::Value, DeError>
    where
        V: Visitor<'de>,
    {
        self.deserialize_str(visitor)
    }
//@end
//@extract de::simple_type::SimpleTypeDeserializer::deserialize_bytes | src/de/simple_type.rs :: impl<'de, 'a> Deserializer<'de> for SimpleTypeDeserializer<'de, 'a> :: fn deserialize_bytes | serves=C07 features=serialize
//@rewrite-opt Self::Error ==> DeError
    fn deserialize_bytes<V>(self, visitor: V) -> Result<V::Value, DeError>
    where
        V: Visitor<'de>,
    {
        self.deserialize_str(visitor)
    }
//@end
//@extract de::simple_type::SimpleTypeDeserializer::deserialize_byte_buf | src/de/simple_type.rs :: impl<'de, 'a> Deserializer<'de> for SimpleTypeDeserializer<'de, 'a> :: fn deserialize_byte_buf | serves=C07 features=serialize
//@rewrite-opt Self::Error ==> DeError
    fn deserialize_byte_buf<V>(self, visitor: V) -> Result<V::Value, DeError>
    where
        V: Visitor<'de>,
    {
        self.deserialize_bytes(visitor)
    }
//@end
//@extract de::simple_type::SimpleTypeDeserializer::deserialize_option | src/de/simple_type.rs :: impl<'de, 'a> Deserializer<'de> for SimpleTypeDeserializer<'de, 'a> :: fn deserialize_option | serves=C07 features=serialize
//@rewrite-opt Self::Error ==> DeError
    fn deserialize_option<V>(self, visitor: V) -> Result<V::Value, DeError>
    where
        V: Visitor<'de>,
    {
        visitor.visit_some(self)
    }
//@end
//@extract de::simple_type::SimpleTypeDeserializer::deserialize_unit | src/de/simple_type.rs :: impl<'de, 'a> Deserializer<'de> for SimpleTypeDeserializer<'de, 'a> :: fn deserialize_unit | serves=C07 features=serialize
//@rewrite-opt Self::Error ==> DeError
    fn deserialize_unit<V>(self, visitor: V) -> Result<V::Value, DeError>
    where
        V: Visitor<'de>,
    {
        visitor.visit_unit()
    }
//@end
//@extract de::simple_type::SimpleTypeDeserializer::deserialize_unit_struct | src/de/simple_type.rs :: impl<'de, 'a> Deserializer<'de> for SimpleTypeDeserializer<'de, 'a> :: fn deserialize_unit_struct | serves=C07 features=serialize
//@rewrite-opt Self::Error ==> DeError
    fn deserialize_unit_struct<V>(
        self,
        _name: &'static str,
        visitor: V,
    ) -> Result<V::Value, DeError>
    where
        V: Visitor<'de>,
    {
        self.deserialize_unit(visitor)
    }
//@end
//@extract de::simple_type::SimpleTypeDeserializer::deserialize_newtype_struct | src/de/simple_type.rs :: impl<'de, 'a> Deserializer<'de> for SimpleTypeDeserializer<'de, 'a> :: fn deserialize_newtype_struct | serves=C07 features=serialize
//@rewrite-opt Self::Error ==> DeError
    fn deserialize_newtype_struct<V>(
        self,
        _name: &'static str,
        visitor: V,
    ) -> Result<V::Value, DeError>
    where
        V: Visitor<'de>,
    {
        visitor.visit_newtype_struct(self)
    }
//@end
//@extract de::simple_type::SimpleTypeDeserializer::deserialize_seq | src/de/simple_type.rs :: impl<'de, 'a> Deserializer<'de> for SimpleTypeDeserializer<'de, 'a> :: fn deserialize_seq | serves=C07 features=serialize
//@rewrite-opt Self::Error ==> DeError
    fn deserialize_seq<V>(self, visitor: V) -> Result<V::Value, DeError>
    where
        V: Visitor<'de>,
    {
        let content = match self.decode()? {
            CowRef::Input(s) => Content::Input(s),
            CowRef::Slice(s) => Content::Slice(s),
            CowRef::Owned(s) => Content::Owned(s, 0),
        };
        visitor.visit_seq(ListIter {
            content: Some(content),
            escaped: self.escaped,
        })
    }
//@end
//@extract de::simple_type::SimpleTypeDeserializer::deserialize_tuple | src/de/simple_type.rs :: impl<'de, 'a> Deserializer<'de> for SimpleTypeDeserializer<'de, 'a> :: fn deserialize_tuple | serves=C07 features=serialize
//@rewrite-opt Self::Error ==> DeError
    fn deserialize_tuple<V>(self, _len: usize, visitor: V) -> Result<V::Value, DeError>
    where
        V: Visitor<'de>,
    {
        self.deserialize_seq(visitor)
    }
//@end
//@extract de::simple_type::SimpleTypeDeserializer::deserialize_tuple_struct | src/de/simple_type.rs :: impl<'de, 'a> Deserializer<'de> for SimpleTypeDeserializer<'de, 'a> :: fn deserialize_tuple_struct | serves=C07 features=serialize
//@rewrite-opt Self::Error ==> DeError
    fn deserialize_tuple_struct<V>(
        self,
        _name: &'static str,
        len: usize,
        visitor: V,
    ) -> Result<V::Value, DeError>
    where
        V: Visitor<'de>,
    {
        self.deserialize_tuple(len, visitor)
    }
//@end
//@extract de::simple_type::SimpleTypeDeserializer::deserialize_enum | src/de/simple_type.rs :: impl<'de, 'a> Deserializer<'de> for SimpleTypeDeserializer<'de, 'a> :: fn deserialize_enum | serves=C07 features=serialize
//@rewrite-opt Self::Error ==> DeError
    fn deserialize_enum<V>(
        self,
        _name: &'static str,
        _variants: &'static [&'static str],
        visitor: V,
    ) -> Result<V::Value, DeError>
    where
        V: Visitor<'de>,
    {
        visitor.visit_enum(self)
    }
//@end
//@extract de::simple_type::SimpleTypeDeserializer::deserialize_identifier | src/de/simple_type.rs :: impl<'de, 'a> Deserializer<'de> for SimpleTypeDeserializer<'de, 'a> :: fn deserialize_identifier | serves=C07 features=serialize
//@rewrite-opt Self::Error ==> DeError
    fn deserialize_identifier<V>(self, visitor: V) -> Result<V::Value, DeError>
    where
        V: Visitor<'de>,
    {
        self.deserialize_str(visitor)
    }
//@end
//@extract de::simple_type::SimpleTypeDeserializer::deserialize_ignored_any | src/de/simple_type.rs :: impl<'de, 'a> Deserializer<'de> for SimpleTypeDeserializer<'de, 'a> :: fn deserialize_ignored_any | serves=C07 features=serialize
//@rewrite-opt Self::Error ==> DeError
    fn deserialize_ignored_any<V>(self, visitor: V) -> Result<V::Value, DeError>
    where
        V: Visitor<'de>,
    {
        visitor.visit_unit()
    }
//@end
//@extract de::simple_type::SimpleTypeDeserializer::deserialize_bool | src/de/simple_type.rs :: impl<'de, 'a> Deserializer<'de> for SimpleTypeDeserializer<'de, 'a> :: invoke deserialize_primitive :: fn deserialize_bool | serves=C07 features=serialize
//@rewrite-opt Self::Error ==> DeError
        fn deserialize_bool<V>(self, visitor: V) -> Result<V::Value, DeError>
        where
            V: Visitor<'de>,
        {
            let de = AtomicDeserializer {
                content: self.decode()?,
                escaped: self.escaped,
            };
            de.deserialize_bool(visitor)
        }
//@end
//@extract de::simple_type::SimpleTypeDeserializer::deserialize_i8 | src/de/simple_type.rs :: impl<'de, 'a> Deserializer<'de> for SimpleTypeDeserializer<'de, 'a> :: invoke deserialize_primitive :: fn deserialize_i8 | serves=C07 features=serialize
//@rewrite-opt Self::Error ==> DeError
        fn deserialize_i8<V>(self, visitor: V) -> Result<V::Value, DeError>
        where
            V: Visitor<'de>,
        {
            let de = AtomicDeserializer {
                content: self.decode()?,
                escaped: self.escaped,
            };
            de.deserialize_i8(visitor)
        }
//@end
//@extract de::simple_type::SimpleTypeDeserializer::deserialize_i16 | src/de/simple_type.rs :: impl<'de, 'a> Deserializer<'de> for SimpleTypeDeserializer<'de, 'a> :: invoke deserialize_primitive :: fn deserialize_i16 | serves=C07 features=serialize
//@rewrite-opt Self::Error ==> DeError
        fn deserialize_i16<V>(self, visitor: V) -> Result<V::Value, DeError>
        where
            V: Visitor<'de>,
        {
            let de = AtomicDeserializer {
                content: self.decode()?,
                escaped: self.escaped,
            };
            de.deserialize_i16(visitor)
        }
//@end
//@extract de::simple_type::SimpleTypeDeserializer::deserialize_i32 | src/de/simple_type.rs :: impl<'de, 'a> Deserializer<'de> for SimpleTypeDeserializer<'de, 'a> :: invoke deserialize_primitive :: fn deserialize_i32 | serves=C07 features=serialize
//@rewrite-opt Self::Error ==> DeError
        fn deserialize_i32<V>(self, visitor: V) -> Result<V::Value, DeError>
        where
            V: Visitor<'de>,
        {
            let de = AtomicDeserializer {
                content: self.decode()?,
                escaped: self.escaped,
            };
            de.deserialize_i32(visitor)
        }
//@end
//@extract de::simple_type::SimpleTypeDeserializer::deserialize_i64 | src/de/simple_type.rs :: impl<'de, 'a> Deserializer<'de> for SimpleTypeDeserializer<'de, 'a> :: invoke deserialize_primitive :: fn deserialize_i64 | serves=C07 features=serialize
//@rewrite-opt Self::Error ==> DeError
        fn deserialize_i64<V>(self, visitor: V) -> Result<V::Value, DeError>
        where
            V: Visitor<'de>,
        {
            let de = AtomicDeserializer {
                content: self.decode()?,
                escaped: self.escaped,
            };
            de.deserialize_i64(visitor)
        }
//@end
//@extract de::simple_type::SimpleTypeDeserializer::deserialize_u8 | src/de/simple_type.rs :: impl<'de, 'a> Deserializer<'de> for SimpleTypeDeserializer<'de, 'a> :: invoke deserialize_primitive :: fn deserialize_u8 | serves=C07 features=serialize
//@rewrite-opt Self::Error ==> DeError
        fn deserialize_u8<V>(self, visitor: V) -> Result<V::Value, DeError>
        where
            V: Visitor<'de>,
        {
            let de = AtomicDeserializer {
                content: self.decode()?,
                escaped: self.escaped,
            };
            de.deserialize_u8(visitor)
        }
//@end
//@extract de::simple_type::SimpleTypeDeserializer::deserialize_u16 | src/de/simple_type.rs :: impl<'de, 'a> Deserializer<'de> for SimpleTypeDeserializer<'de, 'a> :: invoke deserialize_primitive :: fn deserialize_u16 | serves=C07 features=serialize
//@rewrite-opt Self::Error ==> DeError
        fn deserialize_u16<V>(self, visitor: V) -> Result<V::Value, DeError>
        where
            V: Visitor<'de>,
        {
            let de = AtomicDeserializer {
                content: self.decode()?,
                escaped: self.escaped,
            };
            de.deserialize_u16(visitor)
        }
//@end
//@extract de::simple_type::SimpleTypeDeserializer::deserialize_u32 | src/de/simple_type.rs :: impl<'de, 'a> Deserializer<'de> for SimpleTypeDeserializer<'de, 'a> :: invoke deserialize_primitive :: fn deserialize_u32 | serves=C07 features=serialize
//@rewrite-opt Self::Error ==> DeError
        fn deserialize_u32<V>(self, visitor: V) -> Result<V::Value, DeError>
        where
            V: Visitor<'de>,
        {
            let de = AtomicDeserializer {
                content: self.decode()?,
                escaped: self.escaped,
            };
            de.deserialize_u32(visitor)
        }
//@end
//@extract de::simple_type::SimpleTypeDeserializer::deserialize_u64 | src/de/simple_type.rs :: impl<'de, 'a> Deserializer<'de> for SimpleTypeDeserializer<'de, 'a> :: invoke deserialize_primitive :: fn deserialize_u64 | serves=C07 features=serialize
//@rewrite-opt Self::Error ==> DeError
        fn deserialize_u64<V>(self, visitor: V) -> Result<V::Value, DeError>
        where
            V: Visitor<'de>,
        {
            let de = AtomicDeserializer {
                content: self.decode()?,
                escaped: self.escaped,
            };
            de.deserialize_u64(visitor)
        }
//@end
//@extract de::simple_type::SimpleTypeDeserializer::deserialize_f32 | src/de/simple_type.rs :: impl<'de, 'a> Deserializer<'de> for SimpleTypeDeserializer<'de, 'a> :: invoke deserialize_primitive :: fn deserialize_f32 | serves=C07 features=serialize
//@rewrite-opt Self::Error ==> DeError
        fn deserialize_f32<V>(self, visitor: V) -> Result<V::Value, DeError>
        where
            V: Visitor<'de>,
        {
            let de = AtomicDeserializer {
                content: self.decode()?,
                escaped: self.escaped,
            };
            de.deserialize_f32(visitor)
        }
//@end
//@extract de::simple_type::SimpleTypeDeserializer::deserialize_f64 | src/de/simple_type.rs :: impl<'de, 'a> Deserializer<'de> for SimpleTypeDeserializer<'de, 'a> :: invoke deserialize_primitive :: fn deserialize_f64 | serves=C07 features=serialize
//@rewrite-opt Self::Error ==> DeError
        fn deserialize_f64<V>(self, visitor: V) -> Result<V::Value, DeError>
        where
            V: Visitor<'de>,
        {
            let de = AtomicDeserializer {
                content: self.decode()?,
                escaped: self.escaped,
            };
            de.deserialize_f64(visitor)
        }
//@end
//@extract de::simple_type::SimpleTypeDeserializer::deserialize_str | src/de/simple_type.rs :: impl<'de, 'a> Deserializer<'de> for SimpleTypeDeserializer<'de, 'a> :: invoke deserialize_primitive :: fn deserialize_str | serves=C07 features=serialize
//@rewrite-opt Self::Error ==> DeError
        fn deserialize_str<V>(self, visitor: V) -> Result<V::Value, DeError>
        where
            V: Visitor<'de>,
        {
            let de = AtomicDeserializer {
                content: self.decode()?,
                escaped: self.escaped,
            };
            de.deserialize_str(visitor)
        }
//@end
//@extract de::simple_type::SimpleTypeDeserializer::deserialize_map | src/de/simple_type.rs :: impl<'de, 'a> Deserializer<'de> for SimpleTypeDeserializer<'de, 'a> :: invoke unsupported :: fn deserialize_map | serves=C07 features=serialize
//@rewrite-opt Self::Error ==> DeError
        fn deserialize_map<V: Visitor<'de>>(
            self,
            visitor: V
        ) -> Result<V::Value, DeError> {
            // Deserializer methods are only hints, if deserializer could not satisfy
            // request, it should return the data that it has. It is responsibility
            // of a Visitor to return an error if it does not understand the data
            self.deserialize_str(visitor)
        }
//@end
//@extract de::simple_type::SimpleTypeDeserializer::deserialize_struct | src/de/simple_type.rs :: impl<'de, 'a> Deserializer<'de> for SimpleTypeDeserializer<'de, 'a> :: invoke unsupported :: fn deserialize_struct | serves=C07 features=serialize
//@rewrite-opt Self::Error ==> DeError
        fn deserialize_struct<V: Visitor<'de>>(
            self,
            _p0: &'static str,_p1: &'static [&'static str],
            visitor: V
        ) -> Result<V::Value, DeError> {
            // Deserializer methods are only hints, if deserializer could not satisfy
            // request, it should return the data that it has. It is responsibility
            // of a Visitor to return an error if it does not understand the data
            self.deserialize_str(visitor)
        }
//@end
//@extract de::simple_type::SimpleTypeDeserializer::variant_seed | src/de/simple_type.rs :: impl<'de, 'a> EnumAccess<'de> for SimpleTypeDeserializer<'de, 'a> :: fn variant_seed | serves=C07 features=serialize
//@rewrite-opt Self::Error ==> DeError
//@rewrite-opt Self::Variant ==> UnitOnly
    fn variant_seed<V>(self, seed: V) -> Result<(V::Value, UnitOnly), DeError>
    where
        V: DeserializeSeed<'de>,
    {
        let name = seed.deserialize(self)?;
        Ok((name, UnitOnly))
    }
//@end
}
// ---- the key deserializer (src/de/key.rs) ----
impl<'de, 'd> DeModel<'de> for QNameDeserializer<'de, 'd> {}
impl<'de, 'd> EnumModel<'de> for QNameDeserializer<'de, 'd> {}
impl<'i, 's> CowRef<'i, 's, str> {
    /// std: `Deref<Target = str>` + `str::is_empty`
    #[verifier::external_body]
    pub fn is_empty(&self) -> bool { unimplemented!() }
}
impl<'de, 'd> QNameDeserializer<'de, 'd> {
//@extract de::key::QNameDeserializer::deserialize_bool | src/de/key.rs :: impl<'de, 'd> Deserializer<'de> for QNameDeserializer<'de, 'd> :: fn deserialize_bool | serves=C07 features=serialize
//@rewrite-opt Self::Error ==> DeError
    /// According to the <https://www.w3.org/TR/xmlschema11-2/#boolean>,
    /// valid boolean representations are only `"true"`, `"false"`, `"1"`,
    /// and `"0"`.
    fn deserialize_bool<V>(self, visitor: V) -> Result<V::Value, DeError>
    where
        V: Visitor<'de>,
    {
        self.name.deserialize_bool(visitor)
    }
//@end
//@extract de::key::QNameDeserializer::deserialize_i8 | src/de/key.rs :: impl<'de, 'd> Deserializer<'de> for QNameDeserializer<'de, 'd> :: invoke deserialize_num :: fn deserialize_i8 | serves=C07 features=serialize
//@rewrite-opt Self::Error ==> DeError
//@rewrite self.name.parse() ==> parse_cowref_(&self.name)
        fn deserialize_i8<V>(self, visitor: V) -> Result<V::Value, DeError>
        where
            V: Visitor<'de>,
        {
            match parse_cowref_(&self.name) {
                Ok(number) => visitor.visit_i8(number),
                Err(_) => self.name.deserialize_str(visitor),
            }
        }
//@end
//@extract de::key::QNameDeserializer::deserialize_i16 | src/de/key.rs :: impl<'de, 'd> Deserializer<'de> for QNameDeserializer<'de, 'd> :: invoke deserialize_num :: fn deserialize_i16 | serves=C07 features=serialize
//@rewrite-opt Self::Error ==> DeError
//@rewrite self.name.parse() ==> parse_cowref_(&self.name)
        fn deserialize_i16<V>(self, visitor: V) -> Result<V::Value, DeError>
        where
            V: Visitor<'de>,
        {
            match parse_cowref_(&self.name) {
                Ok(number) => visitor.visit_i16(number),
                Err(_) => self.name.deserialize_str(visitor),
            }
        }
//@end
//@extract de::key::QNameDeserializer::deserialize_i32 | src/de/key.rs :: impl<'de, 'd> Deserializer<'de> for QNameDeserializer<'de, 'd> :: invoke deserialize_num :: fn deserialize_i32 | serves=C07 features=serialize
//@rewrite-opt Self::Error ==> DeError
//@rewrite self.name.parse() ==> parse_cowref_(&self.name)
        fn deserialize_i32<V>(self, visitor: V) -> Result<V::Value, DeError>
        where
            V: Visitor<'de>,
        {
            match parse_cowref_(&self.name) {
                Ok(number) => visitor.visit_i32(number),
                Err(_) => self.name.deserialize_str(visitor),
            }
        }
//@end
//@extract de::key::QNameDeserializer::deserialize_i64 | src/de/key.rs :: impl<'de, 'd> Deserializer<'de> for QNameDeserializer<'de, 'd> :: invoke deserialize_num :: fn deserialize_i64 | serves=C07 features=serialize
//@rewrite-opt Self::Error ==> DeError
//@rewrite self.name.parse() ==> parse_cowref_(&self.name)
        fn deserialize_i64<V>(self, visitor: V) -> Result<V::Value, DeError>
        where
            V: Visitor<'de>,
        {
            match parse_cowref_(&self.name) {
                Ok(number) => visitor.visit_i64(number),
                Err(_) => self.name.deserialize_str(visitor),
            }
        }
//@end
//@extract de::key::QNameDeserializer::deserialize_u8 | src/de/key.rs :: impl<'de, 'd> Deserializer<'de> for QNameDeserializer<'de, 'd> :: invoke deserialize_num :: fn deserialize_u8 | serves=C07 features=serialize
//@rewrite-opt Self::Error ==> DeError
//@rewrite self.name.parse() ==> parse_cowref_(&self.name)
        fn deserialize_u8<V>(self, visitor: V) -> Result<V::Value, DeError>
        where
            V: Visitor<'de>,
        {
            match parse_cowref_(&self.name) {
                Ok(number) => visitor.visit_u8(number),
                Err(_) => self.name.deserialize_str(visitor),
            }
        }
//@end
//@extract de::key::QNameDeserializer::deserialize_u16 | src/de/key.rs :: impl<'de, 'd> Deserializer<'de> for QNameDeserializer<'de, 'd> :: invoke deserialize_num :: fn deserialize_u16 | serves=C07 features=serialize
//@rewrite-opt Self::Error ==> DeError
//@rewrite self.name.parse() ==> parse_cowref_(&self.name)
        fn deserialize_u16<V>(self, visitor: V) -> Result<V::Value, DeError>
        where
            V: Visitor<'de>,
        {
            match parse_cowref_(&self.name) {
                Ok(number) => visitor.visit_u16(number),
                Err(_) => self.name.deserialize_str(visitor),
            }
        }
//@end
//@extract de::key::QNameDeserializer::deserialize_u32 | src/de/key.rs :: impl<'de, 'd> Deserializer<'de> for QNameDeserializer<'de, 'd> :: invoke deserialize_num :: fn deserialize_u32 | serves=C07 features=serialize
//@rewrite-opt Self::Error ==> DeError
//@rewrite self.name.parse() ==> parse_cowref_(&self.name)
        fn deserialize_u32<V>(self, visitor: V) -> Result<V::Value, DeError>
        where
            V: Visitor<'de>,
        {
            match parse_cowref_(&self.name) {
                Ok(number) => visitor.visit_u32(number),
                Err(_) => self.name.deserialize_str(visitor),
            }
        }
//@end
//@extract de::key::QNameDeserializer::deserialize_u64 | src/de/key.rs :: impl<'de, 'd> Deserializer<'de> for QNameDeserializer<'de, 'd> :: invoke deserialize_num :: fn deserialize_u64 | serves=C07 features=serialize
//@rewrite-opt Self::Error ==> DeError
//@rewrite self.name.parse() ==> parse_cowref_(&self.name)
        fn deserialize_u64<V>(self, visitor: V) -> Result<V::Value, DeError>
        where
            V: Visitor<'de>,
        {
            match parse_cowref_(&self.name) {
                Ok(number) => visitor.visit_u64(number),
                Err(_) => self.name.deserialize_str(visitor),
            }
        }
//@end
//@extract de::key::QNameDeserializer::deserialize_f32 | src/de/key.rs :: impl<'de, 'd> Deserializer<'de> for QNameDeserializer<'de, 'd> :: invoke deserialize_num :: fn deserialize_f32 | serves=C07 features=serialize
//@rewrite-opt Self::Error ==> DeError
//@rewrite self.name.parse() ==> parse_cowref_(&self.name)
        fn deserialize_f32<V>(self, visitor: V) -> Result<V::Value, DeError>
        where
            V: Visitor<'de>,
        {
            match parse_cowref_(&self.name) {
                Ok(number) => visitor.visit_f32(number),
                Err(_) => self.name.deserialize_str(visitor),
            }
        }
//@end
//@extract de::key::QNameDeserializer::deserialize_f64 | src/de/key.rs :: impl<'de, 'd> Deserializer<'de> for QNameDeserializer<'de, 'd> :: invoke deserialize_num :: fn deserialize_f64 | serves=C07 features=serialize
//@rewrite-opt Self::Error ==> DeError
//@rewrite self.name.parse() ==> parse_cowref_(&self.name)
        fn deserialize_f64<V>(self, visitor: V) -> Result<V::Value, DeError>
        where
            V: Visitor<'de>,
        {
            match parse_cowref_(&self.name) {
                Ok(number) => visitor.visit_f64(number),
                Err(_) => self.name.deserialize_str(visitor),
            }
        }
//@end
//@extract de::key::QNameDeserializer::deserialize_unit | src/de/key.rs :: impl<'de, 'd> Deserializer<'de> for QNameDeserializer<'de, 'd> :: fn deserialize_unit | serves=C07 features=serialize
//@rewrite-opt Self::Error ==> DeError
    /// Calls [`Visitor::visit_unit`]
    fn deserialize_unit<V>(self, visitor: V) -> Result<V::Value, DeError>
    where
        V: Visitor<'de>,
    {
        visitor.visit_unit()
    }
//@end
//@extract de::key::QNameDeserializer::deserialize_unit_struct | src/de/key.rs :: impl<'de, 'd> Deserializer<'de> for QNameDeserializer<'de, 'd> :: fn deserialize_unit_struct | serves=C07 features=serialize
//@rewrite-opt Self::Error ==> DeError
    /// Forwards deserialization to the [`Self::deserialize_unit`]
    fn deserialize_unit_struct<V>(
        self,
        _name: &'static str,
        visitor: V,
    ) -> Result<V::Value, DeError>
    where
        V: Visitor<'de>,
    {
        self.deserialize_unit(visitor)
    }
//@end
//@extract de::key::QNameDeserializer::deserialize_any | src/de/key.rs :: impl<'de, 'd> Deserializer<'de> for QNameDeserializer<'de, 'd> :: fn deserialize_any | serves=C07 features=serialize
//@rewrite-opt Self::Error ==> DeError
    fn deserialize_any<V>(self, visitor: V) -> Result<V::Value, DeError>
    where
        V: Visitor<'de>,
    {
        self.deserialize_identifier(visitor)
    }
//@end
//@extract de::key::QNameDeserializer::deserialize_option | src/de/key.rs :: impl<'de, 'd> Deserializer<'de> for QNameDeserializer<'de, 'd> :: fn deserialize_option | serves=C07 features=serialize
//@rewrite-opt Self::Error ==> DeError
    /// If `name` is an empty string then calls [`Visitor::visit_none`],
    /// otherwise calls [`Visitor::visit_some`] with itself
    fn deserialize_option<V>(self, visitor: V) -> Result<V::Value, DeError>
    where
        V: Visitor<'de>,
    {
        if self.name.is_empty() {
            visitor.visit_none()
        } else {
            visitor.visit_some(self)
        }
    }
//@end
//@extract de::key::QNameDeserializer::deserialize_newtype_struct | src/de/key.rs :: impl<'de, 'd> Deserializer<'de> for QNameDeserializer<'de, 'd> :: fn deserialize_newtype_struct | serves=C07 features=serialize
//@rewrite-opt Self::Error ==> DeError
    fn deserialize_newtype_struct<V>(
        self,
        _name: &'static str,
        visitor: V,
    ) -> Result<V::Value, DeError>
    where
        V: Visitor<'de>,
    {
        visitor.visit_newtype_struct(self)
    }
//@end
//@extract de::key::QNameDeserializer::deserialize_identifier | src/de/key.rs :: impl<'de, 'd> Deserializer<'de> for QNameDeserializer<'de, 'd> :: fn deserialize_identifier | serves=C07 features=serialize
//@rewrite-opt Self::Error ==> DeError
    /// Calls a [`Visitor::visit_str`] if [`name`] contains only UTF-8
    /// compatible encoded characters and represents an element name and
    /// a [`Visitor::visit_string`] in all other cases.
    ///
    /// [`name`]: Self::name
    fn deserialize_identifier<V>(self, visitor: V) -> Result<V::Value, DeError>
    where
        V: Visitor<'de>,
    {
        match self.name {
            CowRef::Input(name) => visitor.visit_borrowed_str(name),
            CowRef::Slice(name) => visitor.visit_str(name),
            CowRef::Owned(name) => visitor.visit_string(name),
        }
    }
//@end
//@extract de::key::QNameDeserializer::deserialize_enum | src/de/key.rs :: impl<'de, 'd> Deserializer<'de> for QNameDeserializer<'de, 'd> :: fn deserialize_enum | serves=C07 features=serialize
//@rewrite-opt Self::Error ==> DeError
    fn deserialize_enum<V>(
        self,
        _name: &str,
        _variants: &'static [&'static str],
        visitor: V,
    ) -> Result<V::Value, DeError>
    where
        V: Visitor<'de>,
    {
        visitor.visit_enum(self)
    }
//@end
//@extract de::key::QNameDeserializer::variant_seed | src/de/key.rs :: impl<'de, 'd> EnumAccess<'de> for QNameDeserializer<'de, 'd> :: fn variant_seed | serves=C07 features=serialize
//@rewrite-opt Self::Error ==> DeError
//@rewrite-opt Self::Variant ==> UnitOnly
    fn variant_seed<V>(self, seed: V) -> Result<(V::Value, UnitOnly), DeError>
    where
        V: DeserializeSeed<'de>,
    {
        let name = seed.deserialize(self)?;
        Ok((name, UnitOnly))
    }
//@end
    // A-serde: what serde's `forward_to_deserialize_any! { char str string bytes byte_buf seq tuple tuple_struct map struct
    // ignored_any }` generates for this type (hand transcription of the foreign macro, serde 1.x `forward_to_deserialize_any_method!`)
    fn deserialize_char<V: Visitor<'de>>(self, visitor: V) -> Result<V::Value, DeError> { self.deserialize_any(visitor) }
    fn deserialize_str<V: Visitor<'de>>(self, visitor: V) -> Result<V::Value, DeError> { self.deserialize_any(visitor) }
    fn deserialize_string<V: Visitor<'de>>(self, visitor: V) -> Result<V::Value, DeError> { self.deserialize_any(visitor) }
    fn deserialize_bytes<V: Visitor<'de>>(self, visitor: V) -> Result<V::Value, DeError> { self.deserialize_any(visitor) }
    fn deserialize_byte_buf<V: Visitor<'de>>(self, visitor: V) -> Result<V::Value, DeError> { self.deserialize_any(visitor) }
    fn deserialize_seq<V: Visitor<'de>>(self, visitor: V) -> Result<V::Value, DeError> { self.deserialize_any(visitor) }
    fn deserialize_tuple<V: Visitor<'de>>(self, len: usize, visitor: V) -> Result<V::Value, DeError> { self.deserialize_any(visitor) }
    fn deserialize_tuple_struct<V: Visitor<'de>>(self, name: &'static str, len: usize, visitor: V) -> Result<V::Value, DeError> { self.deserialize_any(visitor) }
    fn deserialize_map<V: Visitor<'de>>(self, visitor: V) -> Result<V::Value, DeError> { self.deserialize_any(visitor) }
    fn deserialize_struct<V: Visitor<'de>>(self, name: &'static str, fields: &'static [&'static str], visitor: V) -> Result<V::Value, DeError> { self.deserialize_any(visitor) }
    fn deserialize_ignored_any<V: Visitor<'de>>(self, visitor: V) -> Result<V::Value, DeError> { self.deserialize_any(visitor) }
}
}
