// ---------------------------------------------------------------------------------------------
// U-dexr (feature `serialize`, without `overlapped-lists`): the look-ahead reader of the serde
// deserializer (src/de/mod.rs, XmlReader) and the functions of Deserializer that rely on it.
// C07 mechanism: consumers contain `unreachable!()` justified by "two consequent Text events would be
// merged into one". The contracts make that an invariant: after `XmlReader::next` has returned a Text,
// its look-ahead is neither Text, CData nor DocType (`text_done`), and from such a state the next call
// cannot return a Text; with it the `unreachable!()` of drain_text, peek and read_text are PROVED
// unreachable (Verus treats `unreachable!()` as `assert(false)`).
// ---------------------------------------------------------------------------------------------
pub mod dexr_ {
use super::*;
use vstd::prelude::*;
use vstd::string::*;
use core::result::Result;
use std::mem::replace;
use crate::deio_::PayloadEvent;

/// hand transcription of the variants of src/errors.rs serialize::DeError that these functions construct
pub enum DeError {
    Custom(String),
    InvalidXml(Error),
    UnexpectedStart(Vec<u8>),
    UnexpectedEof,
    Other,
}
impl vstd::std_specs::convert::FromSpecImpl<Error> for DeError {
    open spec fn obeys_from_spec() -> bool { true }
    open spec fn from_spec(e: Error) -> Self { DeError::InvalidXml(e) }
}
impl From<Error> for DeError {
//@extract errors::DeError::from_error#dexr | src/errors.rs :: mod serialize :: impl From<Error> for DeError :: fn from | serves=C07 features=serialize
        fn from(e: Error) -> Self {
            Self::InvalidXml(e)
        }
//@end
}
impl vstd::std_specs::convert::FromSpecImpl<EncodingError> for DeError {
    open spec fn obeys_from_spec() -> bool { true }
    open spec fn from_spec(e: EncodingError) -> Self { DeError::InvalidXml(Error::Encoding(e)) }
}
impl From<EncodingError> for DeError {
//@extract errors::DeError::from_encoding#dexr | src/errors.rs :: mod serialize :: impl From<EncodingError> for DeError :: fn from | serves=C07 features=serialize
        fn from(e: EncodingError) -> Self {
            Self::InvalidXml(e.into())
        }
//@end
}
/// N15: the text of an error message (not interpreted by any contract)
#[verifier::external_body]
pub fn errstr_() -> String { String::new() }

/// assumed (not under contract here; the string-level functions are verified in unit charref): decoding and
/// unescaping a text, decoding a CDATA section -- only that they return, not what
impl<'a> BytesText<'a> {
    #[verifier::external_body]
    pub fn unescape_with<'entity, F: FnMut(&str) -> Option<&'entity str>>(&self, resolve_entity: F) -> Result<Cow<'a, str>, Error>
    { unimplemented!() }
}
impl<'a> BytesCData<'a> {
    #[verifier::external_body]
    pub fn decode(&self) -> Result<Cow<'a, str>, EncodingError>
    { unimplemented!() }
}
/// std: Cow::<str>::to_mut hands out the owned string (cloning first if borrowed); String::push_str appends
/// dereferencing a Cow<str> gives the string it holds (std: Deref for Cow)
pub axiom fn axiom_cow_str_dexr<'a>(c: &Cow<'a, str>)
    ensures cow_target(c)@ == c@;
/// std: `Cow<str>: From<&str>` borrows
pub assume_specification<'a>[ <Cow<'a, str> as From<&'a str>>::from ](s: &'a str) -> (r: Cow<'a, str>)
    ensures r == Cow::<'a, str>::Borrowed(s);
pub assume_specification<'a, 'b, B: ?Sized + ToOwned>[ Cow::<'a, B>::to_mut ](c: &'b mut Cow<'a, B>) -> (r: &'b mut <B as ToOwned>::Owned);

//@extract de::Text | src/de/mod.rs :: struct Text | serves=C07 features=serialize
 pub struct Text<'a> {
    pub text: Cow<'a, str>,
}
//@end
impl<'a> Deref for Text<'a> {
    type Target = str;
//@extract de::Text::deref | src/de/mod.rs :: impl<'a> Deref for Text<'a> :: fn deref | serves=C07 features=serialize
    fn deref(&self) -> (r: &Self::Target)
        ensures r@ == self.text@
    {
        proof { axiom_cow_str_dexr(&self.text); }
        self.text.deref()
    }
//@end
}
//@extract de::DeEvent | src/de/mod.rs :: enum DeEvent | serves=C07 features=serialize
 enum DeEvent<'a> {
    /// Start tag (with attributes) `<tag attr="value">`.
    Start(BytesStart<'a>),
    /// End tag `</tag>`.
    End(BytesEnd<'a>),
    /// Decoded and concatenated content of consequent [`Text`] and [`CData`]
    /// events. _Consequent_ means that events should follow each other or be
    /// delimited only by (any count of) [`Comment`] or [`PI`] events.
    ///
    /// [`Text`]: Event::Text
    /// [`CData`]: Event::CData
    /// [`Comment`]: Event::Comment
    /// [`PI`]: Event::PI
    Text(Text<'a>),
    /// End of XML document.
    Eof,
}
//@end
spec fn de_wf<'a>(e: DeEvent<'a>) -> bool { e matches DeEvent::Start(s) ==> s.name_len <= s.buf@.len() }
pub open spec fn pe_wf<'a>(e: PayloadEvent<'a>) -> bool { e matches PayloadEvent::Start(s) ==> s.name_len <= s.buf@.len() }
//@extract de::XmlRead | src/de/mod.rs :: trait XmlRead | serves=C07 features=serialize
 trait XmlRead<'i> {
    /// ghost: the names this source was asked to skip to, in order (one entry per `read_to_end` call)
    spec fn skips(&self) -> Seq<Seq<u8>>;
    /// Return an input-borrowing event.
    fn next(&mut self) -> (r: Result<PayloadEvent<'i>, DeError>)
        // what the event sources hand out are well-formed values (C03: the name of a tag lies inside its buffer)
        ensures r matches Ok(e) ==> pe_wf(e), final(self).skips() == old(self).skips();

    /// Skips until end element is found. Unlike `next()` it will not allocate
    /// when it cannot satisfy the lifetime.
    fn read_to_end(&mut self, name: QName) -> (r: Result<(), DeError>)
        ensures final(self).skips() == old(self).skips().push(name.0@);

    /// A copy of the reader's decoder used to decode strings.
    fn decoder(&self) -> Decoder;

    /// Checks if the `start` tag has a [`xsi:nil`] attribute. This method ignores
    /// any errors in attributes.
    ///
    /// [`xsi:nil`]: https://www.w3.org/TR/xmlschema-1/#xsi_nil
    fn has_nil_attr(&self, start: &BytesStart) -> bool;
}
//@end
//@extract de::resolver::EntityResolver | src/de/resolver.rs :: trait EntityResolver | serves=C07 features=serialize
//@rewrite type Error: Error; ==> type Error;
 trait EntityResolver {
    /// The error type that represents DTD parse error
    type Error;

    /// Called on contents of [`Event::DocType`] to capture declared entities.
    /// Can be called multiple times, for each parsed `<!DOCTYPE >` declaration.
    ///
    /// [`Event::DocType`]: crate::events::Event::DocType
    fn capture(&mut self, doctype: BytesText) -> Result<(), Self::Error>;

    /// Called when an entity needs to be resolved.
    ///
    /// `None` is returned if a suitable value can not be found.
    /// In that case an [`EscapeError::UnrecognizedEntity`] will be returned by
    /// a deserializer.
    ///
    /// [`EscapeError::UnrecognizedEntity`]: crate::escape::EscapeError::UnrecognizedEntity
    fn resolve(&self, entity: &str) -> Option<&str>;
}
//@end
//@extract de::XmlReader | src/de/mod.rs :: struct XmlReader | serves=C07 features=serialize
//@rewrite E: EntityResolver = PredefinedEntityResolver ==> E: EntityResolver
/// An intermediate reader that consumes [`PayloadEvent`]s and produces final [`DeEvent`]s.
/// [`PayloadEvent::Text`] events, that followed by any event except
/// [`PayloadEvent::Text`] or [`PayloadEvent::CData`], are trimmed from the end.
struct XmlReader<'i, R: XmlRead<'i>, E: EntityResolver> {
    /// A source of low-level XML events
    reader: R,
    /// Intermediate event, that could be returned by the next call to `next()`.
    /// If that is the `Text` event then leading spaces already trimmed, but
    /// trailing spaces is not. Before the event will be returned, trimming of
    /// the spaces could be necessary
    lookahead: Result<PayloadEvent<'i>, DeError>,

    /// Used to resolve unknown entities that would otherwise cause the parser
    /// to return an [`EscapeError::UnrecognizedEntity`] error.
    ///
    /// [`EscapeError::UnrecognizedEntity`]: crate::escape::EscapeError::UnrecognizedEntity
    entity_resolver: E,
}
//@end

impl<'i, R: XmlRead<'i>, E: EntityResolver> XmlReader<'i, R, E> {
    /// the look-ahead does not continue a text: it is neither Text nor CData nor a DOCTYPE (which is skipped)
    spec fn wf(&self) -> bool { self.lookahead matches Ok(e) ==> pe_wf(e) }
    spec fn text_done(&self) -> bool {
        !(self.lookahead matches Ok(PayloadEvent::Text(_))) && !(self.lookahead matches Ok(PayloadEvent::CData(_)))
            && !(self.lookahead matches Ok(PayloadEvent::DocType(_)))
    }
//@extract de::XmlReader::new | src/de/mod.rs :: impl<'i, R: XmlRead<'i>, E: EntityResolver> XmlReader<'i, R, E> :: fn new | serves=C07 features=serialize
    fn new(mut reader: R, entity_resolver: E) -> (r: Self)
        ensures r.wf()
    {
        // Lookahead by one event immediately, so we do not need to check in the
        // loop if we need lookahead or not
        let lookahead = reader.next();

        Self {
            reader,
            lookahead,
            entity_resolver,
        }
    }
//@end
//@extract de::XmlReader::is_empty | src/de/mod.rs :: impl<'i, R: XmlRead<'i>, E: EntityResolver> XmlReader<'i, R, E> :: fn is_empty | serves=C07 features=serialize
 fn is_empty(&self) -> (r: bool)
        ensures r == (self.lookahead matches Ok(PayloadEvent::Eof))
 {
        matches!(self.lookahead, Ok(PayloadEvent::Eof))
    }
//@end
//@extract de::XmlReader::next_impl | src/de/mod.rs :: impl<'i, R: XmlRead<'i>, E: EntityResolver> XmlReader<'i, R, E> :: fn next_impl | serves=C07 features=serialize
    fn next_impl(&mut self) -> (r: Result<PayloadEvent<'i>, DeError>)
        // hands out the look-ahead and reads the next one
        requires old(self).wf()
        ensures r == old(self).lookahead, final(self).wf(), final(self).reader.skips() == old(self).reader.skips()
    {
        replace(&mut self.lookahead, self.reader.next())
    }
//@end
//@extract de::XmlReader::current_event_is_last_text | src/de/mod.rs :: impl<'i, R: XmlRead<'i>, E: EntityResolver> XmlReader<'i, R, E> :: fn current_event_is_last_text | serves=C07 features=serialize
 fn current_event_is_last_text(&self) -> (r: bool)
        ensures r == (!(self.lookahead matches Ok(PayloadEvent::Text(_))) && !(self.lookahead matches Ok(PayloadEvent::CData(_))))
 {
        // If next event is a text or CDATA, we should not trim trailing spaces
        !matches!(
            self.lookahead,
            Ok(PayloadEvent::Text(_)) | Ok(PayloadEvent::CData(_))
        )
    }
//@end
//@extract de::XmlReader::drain_text | src/de/mod.rs :: impl<'i, R: XmlRead<'i>, E: EntityResolver> XmlReader<'i, R, E> :: fn drain_text | serves=C07 features=serialize n15=1
    /// Read all consequent [`Text`] and [`CData`] events until non-text event
    /// occurs. Content of all events would be appended to `result` and returned
    /// as [`DeEvent::Text`].
    ///
    /// [`Text`]: PayloadEvent::Text
    /// [`CData`]: PayloadEvent::CData
    #[verifier::exec_allows_no_decreases_clause]
    fn drain_text(&mut self, mut result: Cow<'i, str>) -> (r: Result<DeEvent<'i>, DeError>)
        // C07: the whole run of text pieces is merged: what follows is neither Text nor CData nor a DOCTYPE
        requires old(self).wf()
        ensures final(self).wf(), r matches Ok(ev) ==> ev is Text && final(self).text_done(), {
        loop
            invariant self.wf()
            ensures self.wf(), self.text_done() {
            // A DOCTYPE inside a text is not well-formed, but the reader reports it
            // as an event. Skip it like a comment, so the text pieces around it are
            // merged and two consequent `Text` events are never returned
            if matches!(self.lookahead, Ok(PayloadEvent::DocType(_))) {
                if let PayloadEvent::DocType(e) = self.next_impl()? {
                    self.entity_resolver
                        .capture(e)
                        .map_err(|err| DeError::Custom(errstr_()))?;
                }
                continue;
            }
            if self.current_event_is_last_text() {
                break;
            }

            match self.next_impl()? {
                PayloadEvent::Text(mut e) => {
                    if self.current_event_is_last_text() {
                        // FIXME: Actually, we should trim after decoding text, but now we trim before
                        e.inplace_trim_end();
                    }
                    result
                        .to_mut()
                        .push_str(&e.unescape_with(|entity| self.entity_resolver.resolve(entity))?);
                }
                PayloadEvent::CData(e) => result.to_mut().push_str(&e.decode()?),

                // SAFETY: current_event_is_last_text checks that event is Text or CData
                _ => unreachable!(),
            }
        }
        Ok(DeEvent::Text(Text { text: result }))
    }
//@end
//@extract de::XmlReader::next | src/de/mod.rs :: impl<'i, R: XmlRead<'i>, E: EntityResolver> XmlReader<'i, R, E> :: fn next | serves=C07 features=serialize n15=1
    /// Return an input-borrowing event.
    #[verifier::exec_allows_no_decreases_clause]
    fn next(&mut self) -> (r: Result<DeEvent<'i>, DeError>)
        requires old(self).wf()
        ensures
            // C07 ("two consequent Text events would be merged into one"): after a Text the look-ahead does not continue
            // it, and from such a state the next event is not a Text
            r matches Ok(DeEvent::Text(_)) ==> final(self).text_done(),
            old(self).text_done() ==> !(r matches Ok(DeEvent::Text(_))),
            final(self).wf(), r matches Ok(ev) ==> de_wf(ev),
    {
        let ghost mut first = true;
        loop
            invariant self.wf(), old(self).text_done() ==> first, first ==> self.lookahead == old(self).lookahead,
        {
            return match self.next_impl()? {
                PayloadEvent::Start(e) => Ok(DeEvent::Start(e)),
                PayloadEvent::End(e) => Ok(DeEvent::End(e)),
                PayloadEvent::Text(mut e) => {
                    if self.current_event_is_last_text() && e.inplace_trim_end() {
                        // FIXME: Actually, we should trim after decoding text, but now we trim before
                        proof { first = false; }
                        continue;
                    }
                    self.drain_text(e.unescape_with(|entity| self.entity_resolver.resolve(entity))?)
                }
                PayloadEvent::CData(e) => self.drain_text(e.decode()?),
                PayloadEvent::DocType(e) => {
                    self.entity_resolver
                        .capture(e)
                        .map_err(|err| DeError::Custom(errstr_()))?;
                    proof { first = false; }
                    continue;
                }
                PayloadEvent::Eof => Ok(DeEvent::Eof),
            };
        }
    }
//@end
//@extract de::XmlReader::read_to_end | src/de/mod.rs :: impl<'i, R: XmlRead<'i>, E: EntityResolver> XmlReader<'i, R, E> :: fn read_to_end | serves=C07 features=serialize
    fn read_to_end(&mut self, name: QName) -> (r: Result<(), DeError>)
        requires old(self).wf()
        ensures final(self).wf(),
            // the element is skipped with the look-ahead taken into account: if the pre-read event is the Start of an
            // element with the SAME QUALIFIED NAME the source has to skip twice (the pre-read element, then the rest), if it
            // is the End with that name nothing is left to skip, otherwise once; an error in the look-ahead is handed out
            final(self).reader.skips() == old(self).reader.skips() + (match old(self).lookahead {
                Ok(PayloadEvent::Start(e)) => if e.buf@.subrange(0, e.name_len as int) == name.0@ { seq![name.0@, name.0@] } else { seq![name.0@] },
                Ok(PayloadEvent::End(e)) => if e.name@ == name.0@ { Seq::<Seq<u8>>::empty() } else { seq![name.0@] },
                Ok(_) => seq![name.0@],
                Err(_) => Seq::<Seq<u8>>::empty(),
            }),
    {
        match self.lookahead {
            // We pre-read event with the same name that is required to be skipped.
            // First call of `read_to_end` will end out pre-read event, the second
            // will consume other events
            Ok(PayloadEvent::Start(ref e)) if e.name() == name => {
                let result1 = self.reader.read_to_end(name);
                let result2 = self.reader.read_to_end(name);

                // In case of error `next_impl` returns `Eof`
                let _ = self.next_impl();
                result1?;
                result2?;
            }
            // We pre-read event with the same name that is required to be skipped.
            // Because this is end event, we already consume the whole tree, so
            // nothing to do, just update lookahead
            Ok(PayloadEvent::End(ref e)) if e.name() == name => {
                let _ = self.next_impl();
            }
            Ok(_) => {
                let result = self.reader.read_to_end(name);

                // In case of error `next_impl` returns `Eof`
                let _ = self.next_impl();
                result?;
            }
            // Read next lookahead event, unpack error from the current lookahead
            Err(_) => {
                self.next_impl()?;
            }
        }
        Ok(())
    }
//@end
//@extract de::XmlReader::decoder | src/de/mod.rs :: impl<'i, R: XmlRead<'i>, E: EntityResolver> XmlReader<'i, R, E> :: fn decoder | serves=C07 features=serialize
    fn decoder(&self) -> Decoder {
        self.reader.decoder()
    }
//@end
}

//@extract de::Deserializer | src/de/mod.rs :: struct Deserializer | serves=C07 features=serialize
//@rewrite E: EntityResolver = PredefinedEntityResolver ==> E: EntityResolver
 pub struct Deserializer<'de, R, E: EntityResolver>
where
    R: XmlRead<'de>,
{
    /// An XML reader that streams events into this deserializer
    reader: XmlReader<'de, R, E>,

    peek: Option<DeEvent<'de>>,

    /// Buffer to store attribute name as a field name exposed to serde consumers
    key_buf: String,
}
//@end
impl<'de, R, E> Deserializer<'de, R, E>
where
    R: XmlRead<'de>,
    E: EntityResolver,
{
    /// a peeked Text came out of the reader: the reader's look-ahead does not continue it
    pub closed spec fn inv(&self) -> bool {
        &&& self.reader.wf()
        &&& self.peek matches Some(ev) ==> de_wf(ev)
        &&& self.peek matches Some(DeEvent::Text(_)) ==> self.reader.text_done()
    }
    /// nothing peeked and the reader's look-ahead does not continue a text: the next event is not a Text
    spec fn after_text(&self) -> bool { self.peek is None && self.reader.text_done() }
    /// the next event is a Text without content (an empty CDATA section)
    pub closed spec fn next_is_empty_text(&self) -> bool { self.peek matches Some(DeEvent::Text(t)) && t.text@.len() == 0 }
//@extract de::Deserializer::new | src/de/mod.rs :: impl<'de, R, E> Deserializer<'de, R, E> where R: XmlRead<'de>, E: EntityResolver, :: fn new | serves=C07 features=serialize
    /// Create an XML deserializer from one of the possible quick_xml input sources.
    ///
    /// Typically it is more convenient to use one of these methods instead:
    ///
    ///  - [`Deserializer::from_str`]
    ///  - [`Deserializer::from_reader`]
    fn new(reader: R, entity_resolver: E) -> (r: Self)
        ensures r.inv()
    {
        Self {
            reader: XmlReader::new(reader, entity_resolver),

            peek: None,

            key_buf: String::new(),
        }
    }
//@end
//@extract de::Deserializer::peek | src/de/mod.rs :: impl<'de, R, E> Deserializer<'de, R, E> where R: XmlRead<'de>, E: EntityResolver, :: fn peek | serves=C07 features=serialize
    fn peek(&mut self) -> (r: Result<&DeEvent<'de>, DeError>)
        requires old(self).inv()
        ensures final(self).inv(), r is Ok ==> final(self).peek is Some,
            // peeking twice is peeking once
            old(self).peek is Some ==> r is Ok && *final(self) == *old(self),
    {
        if self.peek.is_none() {
            self.peek = Some(self.reader.next()?);
        }
        match self.peek.as_ref() {
            Some(v) => Ok(v),
            // SAFETY: a `None` variant for `self.peek` would have been replaced
            // by a `Some` variant in the code above.
            // TODO: Can be replaced with `unsafe { std::hint::unreachable_unchecked() }`
            // if unsafe code will be allowed
            None => unreachable!(),
        }
    }
//@end
//@extract de::Deserializer::next | src/de/mod.rs :: impl<'de, R, E> Deserializer<'de, R, E> where R: XmlRead<'de>, E: EntityResolver, :: fn next | serves=C07 features=serialize
    fn next(&mut self) -> (r: Result<DeEvent<'de>, DeError>)
        requires old(self).inv()
        ensures final(self).inv(), r matches Ok(ev) ==> de_wf(ev), r is Ok ==> final(self).peek is None,
            old(self).peek matches Some(ev) ==> r == Result::<DeEvent<'de>, DeError>::Ok(ev) && final(self).reader == old(self).reader,
            r matches Ok(DeEvent::Text(_)) ==> final(self).after_text(),
            old(self).after_text() ==> !(r matches Ok(DeEvent::Text(_))),
    {
        if let Some(e) = self.peek.take() {
            return Ok(e);
        }
        self.reader.next()
    }
//@end
//@extract de::Deserializer::last_peeked | src/de/mod.rs :: impl<'de, R, E> Deserializer<'de, R, E> where R: XmlRead<'de>, E: EntityResolver, :: fn last_peeked | serves=C07 features=serialize
    fn last_peeked(&self) -> (r: &DeEvent<'de>)
        // `peek()` was called before: the slot is filled
        requires self.peek is Some
        ensures self.peek == Some(*r)
    {
        {
            self.peek
                .as_ref()
                .expect("`Deserializer::peek()` should be called")
        }
    }
//@end
//@extract de::Deserializer::read_to_end | src/de/mod.rs :: impl<'de, R, E> Deserializer<'de, R, E> where R: XmlRead<'de>, E: EntityResolver, :: fn read_to_end | serves=C07 features=serialize
    fn read_to_end(&mut self, name: QName) -> (r: Result<(), DeError>)
        requires old(self).inv()
        ensures final(self).inv(), r is Ok ==> final(self).peek is None
    {
        // First one might be in self.peek
        match self.next()? {
            DeEvent::Start(e) => self.reader.read_to_end(e.name())?,
            DeEvent::End(e) if e.name() == name => return Ok(()),
            _ => (),
        }
        self.reader.read_to_end(name)
    }
//@end
//@extract de::Deserializer::skip_next_tree | src/de/mod.rs :: impl<'de, R, E> Deserializer<'de, R, E> where R: XmlRead<'de>, E: EntityResolver, :: fn skip_next_tree | serves=C07 features=serialize
    fn skip_next_tree(&mut self) -> (r: Result<(), DeError>)
        // only called when the next event -- already peeked -- is a Start: the `unreachable!()` is unreachable
        requires old(self).inv(), old(self).peek matches Some(DeEvent::Start(_))
        ensures final(self).inv()
    {
        let DeEvent::Start(start) = self.next()? else {
            unreachable!()
        };
        let name = start.name();
        self.read_to_end(name)
    }
//@end
//@extract de::Deserializer::read_text | src/de/mod.rs :: impl<'de, R, E> Deserializer<'de, R, E> where R: XmlRead<'de>, E: EntityResolver, :: fn read_text | serves=C07 features=serialize
    /// Consumes one [`DeEvent::Text`] event and ensures that it is followed by the
    /// [`DeEvent::End`] event.
    ///
    /// # Parameters
    /// - `name`: name of a tag opened before reading text. The corresponding end tag
    ///   should present in input just after the text
    fn read_text(&mut self, name: QName) -> (r: Result<Cow<'de, str>, DeError>)
        requires old(self).inv()
        ensures final(self).inv()
    {
        match self.next()? {
            DeEvent::Text(e) => match self.next()? {
                // The matching tag name is guaranteed by the reader
                DeEvent::End(_) => Ok(e.text),
                // SAFETY: Cannot be two consequent Text events, they would be merged into one
                DeEvent::Text(_) => unreachable!(),
                DeEvent::Start(e) => Err(DeError::UnexpectedStart(e.name().as_ref().to_owned())),
                DeEvent::Eof => Err(Error::missed_end(name, self.reader.decoder()).into()),
            },
            // We can get End event in case of `<tag></tag>` or `<tag/>` input
            // Return empty text in that case
            // The matching tag name is guaranteed by the reader
            DeEvent::End(_) => Ok("".into()),
            DeEvent::Start(s) => Err(DeError::UnexpectedStart(s.name().as_ref().to_owned())),
            DeEvent::Eof => Err(Error::missed_end(name, self.reader.decoder()).into()),
        }
    }
//@end
}

/// Model of serde::de::Visitor / Deserializer for the one entry point under contract here (A-serde): a visitor may do
/// anything with the deserializer it is handed (`requires`: the deserializer's invariant -- the type-invariant assumption)
pub trait Visitor<'de>: Sized {
    type Value;
    fn visit_none(self) -> Result<Self::Value, DeError>;
    fn visit_some<'a, R: XmlRead<'de>, E: EntityResolver>(self, deserializer: &'a mut Deserializer<'de, R, E>) -> Result<Self::Value, DeError>
        requires old(deserializer).inv();
}
pub trait DeDeserializer<'de>: Sized {
    spec fn de_ok(&self) -> bool;
    #[verifier::prophetic]
    spec fn opt_post(&self) -> bool;
    fn deserialize_option<V: Visitor<'de>>(self, visitor: V) -> (r: Result<V::Value, DeError>)
        requires self.de_ok() ensures self.opt_post();
}
impl<'de, 'a, R, E> DeDeserializer<'de> for &'a mut Deserializer<'de, R, E>
where
    R: XmlRead<'de>,
    E: EntityResolver,
{
    closed spec fn de_ok(&self) -> bool { (**self).inv() }
    /// C07 (bounded time): an Option that is answered with `None` because the next event is an EMPTY text has consumed that
    /// text -- otherwise a caller that asks again (a sequence of options at the top level) would be answered `None` forever
    #[verifier::prophetic]
    closed spec fn opt_post(&self) -> bool {
        (**self).next_is_empty_text() ==> (*final(*self)).peek is None
    }
//@extract de::Deserializer::deserialize_option | src/de/mod.rs :: impl<'de, 'a, R, E> de::Deserializer<'de> for &'a mut Deserializer<'de, R, E> where R: XmlRead<'de>, E: EntityResolver, :: fn deserialize_option | serves=C07 features=serialize
    fn deserialize_option<V>(self, visitor: V) -> (r: Result<V::Value, DeError>)
    where
        V: Visitor<'de>,
    {
        // We cannot use result of `peek()` directly because of borrow checker
        let _ = self.peek()?;
        match self.last_peeked() {
            DeEvent::Text(t) if t.is_empty() => {
                // Consume the empty text, otherwise the sequence of options
                // at the top level would return `None` forever
                self.next()?;
                visitor.visit_none()
            }
            DeEvent::Eof => visitor.visit_none(),
            // if the `xsi:nil` attribute is set to true we got a none value
            DeEvent::Start(start) if self.reader.reader.has_nil_attr(&start) => {
                self.skip_next_tree()?;
                visitor.visit_none()
            }
            _ => visitor.visit_some(self),
        }
    }
//@end
}
}
